# Plans for the callback-list family: C01, C02, C19 (+ list parts of C08, C10), DESIGN.md section 7.
from core import *

INV = ["Ok", "RefinesList", "RefinesFrames", "NoLeak", "Pinned", "Reachable", "TypeOK"]
ALL1 = {"a", "p", "i", "r", "o", "e", "f", "g", "v", "j", "fu"}
UTIL = {"hl", "ha", "rl"}
OBJ = {"cc", "mc", "ca", "ma", "s", "d"}


def consts(nodes, depth, maxgen=100, lists=1, dist=None, ops=ALL1, nest=None, defects=(), jump=(1,)):
    return {"MaxNodes": nodes, "MaxDepth": depth, "MaxGen": maxgen, "MaxLists": lists,
            "InitDist": set(dist if dist is not None else [maxgen]), "JumpDist": set(jump), "Ops": set(ops),
            "NestOps": set(ops if nest is None else nest), "Defects": set(defects)}


def world(name, threading=0, callback=0, fill="0xA5", fraction=1.0, compiler="g++", std="c++11", opt="-O1", only_tags=None, sanitize=True):
    w = {"name": name, "source": "cl_interp.cpp", "defines": ["W_THREADING=%d" % threading, "W_CALLBACK=%d" % callback, "W_FILL=%s" % fill],
         "fraction": fraction, "compiler": compiler, "std": std, "opt": opt, "sanitize": sanitize}
    if only_tags:
        w["only_tags"] = only_tags
    return w


ASSUME = ["TLC and the CommunityModules JSON reader are correct", "harness/cl_interp.cpp records what the real CallbackList did (it contains no expected values)",
          "sequential consistency; g++ 12 / clang 14 with ASan+UBSan observe memory errors on the executions driven",
          "bounds: the transition cover is exhaustive for the stated constants only; deeper histories are sampled by simulation in the thorough tier"]


def c01(tier, seed):
    quick = tier == "quick"
    n = 5 if quick else 6
    models = [
        {"module": "CLImpl", "tag": "flat%d" % n, "constants": consts(n, 1, nest=set()), "invariants": INV},
        {"module": "CLImpl", "tag": "util3", "constants": consts(3, 1, ops={"a", "p", "i", "r", "v"} | UTIL, nest=set()), "invariants": INV},
    ]
    # the helpers over lists that hold the same comparable callback several times (reference model; W_CALLBACK=1 worlds only)
    models.append({"module": "UtilGen", "tag": "dups", "constants": {"MaxNodes": 3 if quick else 4, "Defects": set()}, "invariants": ["Ok", "TypeOK"]})
    if not quick:
        models.append({"module": "CLImpl", "tag": "sim8", "role": "simulate", "simulate": "num=4000,seed=%(seed)d", "workers": 8,
                       "constants": consts(8, 1, nest=set()), "invariants": INV, "timeout": 900, "simdepth": 40})
    worlds = [world("cl_single_fn", 0, 0, only_tags=["flat%d" % n, "sim8"]),
              world("cl_multi_cb", 1, 1, fraction=1.0 if not quick else 0.25, fill="0xFF", only_tags=["flat%d" % n, "util3", "sim8"]),
              world("cl_single_cb_dups", 0, 1, fill="0xAB", only_tags=["dups"]),
              world("cl_spin_fn", 2, 0, fraction=0.25 if not quick else 0.1, fill="0x00", only_tags=["flat%d" % n, "sim8"])]
    if not quick:
        worlds.append(world("cl_multi_fn_clang20", 1, 0, compiler="clang++", std="c++20", opt="-O2", fraction=0.25, only_tags=["flat%d" % n, "sim8"]))
    return {"interp": "harness/cl_interp.cpp", "trace_module": "TraceCL", "models": models, "worlds": worlds,
            "defects": ([{"module": "CLImpl", "constants": consts(3, 2), "invariants": INV, "defect": "stale"}] if not quick else [])
                       + [{"module": "UtilGen", "constants": {"MaxNodes": 3, "Defects": {"remove_all"}}, "invariants": ["Ok", "TypeOK"], "defect": "remove_all"}],
            "rule": "every transition of the bounded CLImpl model = one script (shortest history reaching a state + one operation incl. stale/empty handles, "
                    "queries, enumerations, invocations), each followed by the probe epilogue; non-trivial = the execution used a stale or empty handle "
                    "(counted by the interpreter per distinct script)",
            "assumptions": ASSUME}


def c02(tier, seed):
    quick = tier == "quick"
    n = 3 if quick else 4
    models = [{"module": "CLImpl", "tag": "nest%d" % n, "constants": consts(n, 2, ops=ALL1 - {"j", "g", "e", "f"} if quick else ALL1 - {"g", "j"},
                                                                       nest=ALL1 - {"j", "g", "e", "f", "p", "o"} if quick else None), "invariants": INV,
               "heap": "16g"}]
    if not quick:
        models.append({"module": "CLImpl", "tag": "nest3-jump", "constants": consts(3, 2, ops=ALL1 - {"g", "e"}), "invariants": INV, "heap": "16g"})
    if not quick:
        models.append({"module": "CLImpl", "tag": "sim-d3", "role": "simulate", "simulate": "num=3000,seed=%(seed)d", "workers": 8,
                       "constants": consts(6, 3), "invariants": INV, "timeout": 900})
    worlds = [world("cl_single_fn", 0, 0),
              world("cl_multi_fn", 1, 0, fraction=0.2 if quick else 0.1, fill="0xFF"),       # std::mutex: a lock held across a callback = hang
              world("cl_spin_cb", 2, 1, fraction=0.1 if quick else 0.05, fill="0x00"),
              world("cl_tracked_fn", 3, 0, fraction=0.3 if quick else 0.15, fill="0xAB")]    # tracked mutex / atomic: relock = hang at once, use after destruction recorded
    return {"interp": "harness/cl_interp.cpp", "trace_module": "TraceCL", "models": models, "worlds": worlds,
            "defects": [{"module": "CLImpl", "constants": consts(3, 2), "invariants": INV, "defect": "stale"}],
            "nontrivial_key": "nested",
            "rule": "every transition of the bounded re-entrant CLImpl model (callbacks perform any list operation, nested invocation to depth 2) "
                    "= one script, replayed as a re-entrant program; non-trivial = at least one operation executed inside a running callback",
            "assumptions": ASSUME}


def c19(tier, seed):
    quick = tier == "quick"
    ops = {"a", "i", "r", "v", "o"} if quick else {"a", "p", "i", "r", "v", "o", "f"}
    models = [{"module": "CLImpl", "tag": "wrap2", "constants": consts(3 if quick else 4, 2, maxgen=2, dist=[0, 1, 2], ops=ops), "invariants": INV, "heap": "16g"},
              {"module": "CLImpl", "tag": "jump", "constants": consts(3 if quick else 5, 1, ops={"a", "p", "r", "v", "f", "j"}, nest={"a", "r"}, jump=(0, 1, 2) if not quick else (0, 1)), "invariants": INV},
              {"module": "CLImpl", "tag": "wrap-2lists", "constants": consts(3, 1, maxgen=2 if quick else 3, lists=2, dist=[0, 1, 2] if quick else [0, 1, 2, 3],
                                                                         ops={"a", "r", "v", "cc", "ma", "s"} if quick else {"a", "r", "v", "cc", "ma", "s", "mc", "ca"}), "invariants": INV}]
    worlds = [world("cl_single_fn", 0, 0), world("cl_multi_cb", 1, 1, fraction=0.15, fill="0xFF"),
              world("cl_tracked_fn", 3, 0, fill="0xAB")]      # tracked mutex: getNextCounter's own lock taken while the caller holds it = hang at once
    return {"interp": "harness/cl_interp.cpp", "trace_module": "TraceCL", "models": models, "worlds": worlds,
            "nontrivial_key": "near_wrap",
            "rule": "CLImpl with the counter maximum scaled to MaxGen=2..3 and every initial distance to it, so the wrap falls at every position of every "
                    "bounded history (incl. inside nested invocations and around copies/moves/swaps); the hook places the real 32-bit counter at the same "
                    "distance from 2^32-1; non-trivial = the real counter wrapped or came within 8 of wrapping during the execution",
            "assumptions": ASSUME + ["the guarded hook verifSetCurrentCounter only stores the counter"]}


PLANS = {"C01": c01, "C02": c02, "C19": c19}
