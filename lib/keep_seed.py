#!/usr/bin/env python3
# usage: keep_seed.py <seed-id> <property> <demo-dir> <confirm-output> "<needs>" "<detected-by>"
import json, os, shutil, sys
sid, prop, demo, conf, needs, detected = sys.argv[1:7]
d = os.path.join("/verif/seeded", sid)
os.makedirs(d, exist_ok=True)
for f in ("patch.diff", "demo.cpp", "notes.txt"):
    if os.path.exists(os.path.join(demo, f)):
        shutil.copy(os.path.join(demo, f), os.path.join(d, f))
meta = {"id": sid, "breaks_property": prop, "needs_to_manifest": needs,
        "origin": "written by a fresh sub-agent that saw only the property text and a scratch worktree of /repo (nothing from /verif)",
        "confirmed_in_scratch_worktree": open(conf).read().splitlines() if os.path.exists(conf) else [],
        "what_i_ran": ["lib/confirm_seed.sh <demo-dir> <out>  (scratch worktree: demo passes without / fails with the patch, repository unit tests pass with the patch)",
                       "lib/seedtest.sh seeded/%s/patch.diff <Cxx> quick  (scratch copy of /repo/include with the patch, VERIF_REPO pointing at it)" % sid],
        "detected_by": detected}
json.dump(meta, open(os.path.join(d, "meta.json"), "w"), indent=1)
print("kept", d)
