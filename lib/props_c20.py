# C20: configuration independence.  The covers of C01 (lists), C04 (dispatch), C05 (queue) and C10 (whole objects) are replayed in the cells of
# {g++, clang++} x {c++11,14,17,20} x {-O0,-O2} x Threading x Map x Callback x ArgumentPassingMode x storage pre-fill; every trace must be accepted by the
# same abstract specification AND the traces of one script set must be byte-identical across the cells of an equivalence group.
import random
from core import *
import props_cl, props_dq, props_obj

CELLS = [(c, s, o) for c in ("g++", "clang++") for s in ("c++11", "c++14", "c++17", "c++20") for o in ("-O0", "-O2")]


def pick_cells(tier, seed):
    if tier != "quick":
        return CELLS
    rnd = random.Random(seed)
    fixed = [("g++", "c++11", "-O0"), ("clang++", "c++20", "-O2")]
    rest = [c for c in CELLS if c not in fixed]
    return fixed + rnd.sample(rest, 2)


def cname(c):
    return "%s_%s_%s" % (c[0].replace("+", "x"), c[1].replace("+", "x"), c[2].replace("-", ""))


ASSUME = ["'any conforming compiler' is sampled by g++ 12 and clang++ 14 (they evaluate call arguments in opposite orders and differ on implicit move before C++20)",
          "cells of one equivalence group differ only in compiler, standard, optimisation, Threading, Map, key type and storage pre-fill; "
          "ArgumentPassingMode / prototype value category / filters / queue order change what the harness can record, so they define the groups",
          "TLC and the CommunityModules JSON reader are correct; the interpreters record, they do not judge"]


def plans(tier, seed):
    quick = tier == "quick"
    cells = pick_cells(tier, seed)
    fills = ["0x00", "0xFF", "0xA5", "0xAB"]
    out = []
    # lists
    worlds = []
    for i, c in enumerate(cells):
        for th, cb in ((0, 0), (1, 1), (2, 0), (3, 0)) if not quick else ((i % 4, i % 2),):       # Threading: single, std::mutex, SpinLock, tracked
            w = props_cl.world("cl_t%d_c%d_%s" % (th, cb, cname(c)), th, cb, fill=fills[(i + th) % 4], compiler=c[0], std=c[1], opt=c[2], fraction=1.0)
            w["equiv_group"] = "lists"; w["sample_seed"] = seed
            worlds.append(w)
    out.append({"interp": "harness/cl_interp.cpp", "trace_module": "TraceCL",
                "models": [{"module": "CLImpl", "tag": "lists", "invariants": props_cl.INV, "constants": props_cl.consts(3 if quick else 4, 2, ops=props_cl.ALL1 - {"j", "g"})},
                           # the same with the generation counter wrapping at every position: what getNextCounter does under its own lock must not depend on the mutex type
                           {"module": "CLImpl", "tag": "lists-wrap", "invariants": props_cl.INV,
                            "constants": props_cl.consts(3, 2, maxgen=2, dist=[0, 1, 2], ops={"a", "p", "i", "r", "v", "o"}, nest={"a", "i", "r"} if quick else {"a", "p", "i", "r", "v"})}],
                "worlds": worlds, "nontrivial_key": "nested",
                "rule": "C02's re-entrant list cover replayed in every selected cell; traces byte-identical across cells", "assumptions": ASSUME})
    # dispatcher: groups by (mode, arg)
    worlds = []
    combos = [(0, 0), (1, 0), (1, 2), (3, 0), (4, 0), (2, 1)] if not quick else [(1, 0), (3, 0), (4, 0)]
    for mode, arg in combos:
        for i, c in enumerate(cells):
            key = [0, 1, 2, 3, 4][(i + mode) % 5]
            mp = [0, 1, 3][(i + arg) % 3] if key not in (3,) else [0, 2][i % 2]
            w = props_dq.world("d_m%d_a%d_k%d_%s" % (mode, arg, key, cname(c)), obj=0, key=key, arg=arg, mode=mode, map_=mp, threading=i % 3,
                               fill=fills[i % 4], compiler=c[0], std=c[1], opt=c[2], fraction=0.3 if quick else 1.0)
            w["equiv_group"] = "disp-m%d-a%d" % (mode, arg); w["sample_seed"] = seed
            worlds.append(w)
    out.append({"interp": "harness/dq_interp.cpp", "trace_module": "TraceDQ",
                "models": [{"module": "DQImpl", "tag": "route", "invariants": props_dq.INV,
                            "constants": props_dq.consts(events=(1, 2), nodes=2 if quick else 3, enq=0, disp=2, depth=2, ops=props_dq.LOPS | {"dp"}, nest={"al", "rl", "dp"})}],
                "worlds": worlds, "nontrivial_key": "nested",
                "rule": "C04's dispatch cover replayed per (ArgumentPassingMode/getEvent, prototype value category) group in every selected cell with rotating key "
                        "types, map kinds, threading policies and storage patterns; traces byte-identical within a group", "assumptions": ASSUME})
    # queue
    worlds = []
    for i, c in enumerate(cells):
        w = props_dq.world("q_%s" % cname(c), obj=1, key=[0, 1, 4][i % 3], arg=0, threading=i % 3, fill=fills[i % 4], compiler=c[0], std=c[1], opt=c[2],
                           fraction=0.5 if quick else 1.0)
        w["equiv_group"] = "queue"; w["sample_seed"] = seed
        worlds.append(w)
        # the same queue cover with the event derived by a getEvent policy from a by-value movable argument
        w = props_dq.world("qg_%s" % cname(c), obj=1, key=[1, 3, 2][i % 3], arg=0, mode=3, threading=(i + 1) % 3, fill=fills[(i + 2) % 4], compiler=c[0], std=c[1], opt=c[2],
                           fraction=0.3 if quick else 1.0)
        w["equiv_group"] = "queue-getevent"; w["sample_seed"] = seed
        worlds.append(w)
    out.append({"interp": "harness/dq_interp.cpp", "trace_module": "TraceDQ",
                "models": [{"module": "DQImpl", "tag": "queue", "invariants": props_dq.INV,
                            "constants": props_dq.consts(nodes=1, enq=3, depth=5, ops={"al", "rl"} | props_dq.QOPS, nest={"rl", "nq", "po", "tk", "eq"})}],
                "worlds": worlds, "nontrivial_key": "nested",
                "rule": "C05's queue cover replayed in every selected cell; traces byte-identical", "assumptions": ASSUME})
    # whole objects into pre-filled storage (multi-threaded policy: std::atomic's default constructor differs between C++17 and C++20)
    worlds = []
    for i, c in enumerate(cells):
        w = props_obj.oworld("o_%s" % cname(c), 0, threading=1, fill=fills[(i + 1) % 4], compiler=c[0], std=c[1], opt=c[2], only_tags=["objq"])
        w["equiv_group"] = "objects"; w["sample_seed"] = seed
        worlds.append(w)
    out.append({"interp": "harness/obj_interp.cpp", "trace_module": "TraceObj",
                "models": [{"module": "ObjGen", "tag": "objq", "invariants": props_obj.OINV,
                            "constants": props_obj.oconsts(objs=2, cbs=2, enq=1, filters=1, ops=props_obj.QOPS - {"rl"} if quick else props_obj.QOPS)}],
                "worlds": worlds,
                "rule": "C10's object cover (copy/move construction into pre-filled storage, assignment, swap) replayed in every selected cell; traces byte-identical",
                "assumptions": ASSUME})
    return out
