# Sequential engine: TLC transition cover -> real code (script interpreter) -> TLC trace validation.
# DESIGN.md 4.1, 4.2, 4.4.
import json, os, random, re, shutil, subprocess, time
from concurrent.futures import ThreadPoolExecutor
from core import *

TRACE_CFG = "INIT Init\nNEXT Next\nCHECK_DEADLOCK FALSE\nPOSTCONDITION Report\n"


def emit_cover(module, constants, invariants, workdir, tag, view="View", heap="8g", timeout=3000, workers=NCPU, simulate=None,
               extra_constraints=(), simdepth=None):
    """Model-check the implementation-shaped spec and print one script per generated transition."""
    cfg = cfg_text(constants, invariants=invariants, view=view, action_constraints=["Emit"], constraints=extra_constraints)
    raw = os.path.join(workdir, tag + ".cover.out")
    res = tlc(module, cfg, workdir, workers=workers, stdout_file=raw, heap=heap, timeout=timeout, simulate=simulate,
              extra=(["-depth", str(simdepth)] if simdepth else []))
    if res.rc != 0 and not simulate:
        raise MachineryError("model %s (%s) failed under TLC: rc=%d\n%s" % (module, tag, res.rc, res.out[-3000:]))
    scripts = os.path.join(workdir, tag + ".scripts")
    n = 0
    with open(raw) as fi, open(scripts, "w") as fo:
        for line in fi:
            if line.startswith('"['):
                if simdepth and line.count("[") - 1 < simdepth:
                    continue   # simulation prints every prefix of a behaviour; keep the complete ones
                fo.write(line)
                n += 1
    os.remove(raw)
    return res, scripts, n


def filter_last_op(scripts_file, last_ops):
    """Keep the scripts whose last operation is one of last_ops (fault targets)."""
    out = scripts_file + ".flt"
    n = 0
    pat = re.compile(r'\[\\"(\w+)\\",-?\d+,-?\d+\]\]"\s*$')
    with open(scripts_file) as fi, open(out, "w") as fo:
        for line in fi:
            m = pat.search(line)
            if m and m.group(1) in last_ops:
                fo.write(line)
                n += 1
    return out, n


def model_check(module, constants, invariants, workdir, view="View", heap="8g", timeout=3000, properties=(), constraints=()):
    cfg = cfg_text(constants, invariants=invariants, view=view, properties=properties, constraints=constraints)
    return tlc(module, cfg, workdir, heap=heap, timeout=timeout)


def expect_defect(module, constants, invariants, workdir, defect, view="View"):
    """Sensitivity of the model itself: with the defect switched on TLC must find a violation."""
    c = dict(constants)
    c["Defects"] = set(c.get("Defects", set())) | {defect}
    res = model_check(module, c, invariants, workdir, view=view)
    return res.violated_invariant()


def split_lines(path, k, outdir, tag):
    files = [open(os.path.join(outdir, "%s.%02d.scripts" % (tag, i)), "w") for i in range(k)]
    n = 0
    with open(path) as f:
        lines = f.readlines()
    per = (len(lines) + k - 1) // k if lines else 1
    for i, line in enumerate(lines):
        files[min(i // per, k - 1)].write(line)
        n += 1
    for f in files:
        f.close()
    return [f.name for f in files if os.path.getsize(f.name) > 0]


def _drop_partial_last_line(path):
    """a crashed process may leave an incomplete last record: cut it off so that the JSON reader sees whole lines only"""
    try:
        data = open(path, "rb").read()
    except OSError:
        return
    if data and not data.endswith(b"\n"):
        k = data.rfind(b"\n")
        open(path, "wb").write(data[:k + 1] if k >= 0 else b"")


def _mark_garbled_lines(path):
    """a process that was stopped by a signal while it was writing (watchdog, sanitizer) can leave a torn record in the MIDDLE of its trace, followed
    by the fatal record of the handler: a torn record becomes a record no specification accepts instead of a JSON error of the validator"""
    try:
        lines = open(path).read().split("\n")
    except OSError:
        return
    bad = [i for i, ln in enumerate(lines) if ln.strip() and not (ln.startswith("{") and ln.rstrip().endswith("}"))]
    if bad:
        for i in bad:
            lines[i] = '{"e":"garbled","o":0,"a":0,"b":0,"r":0,"lv":0}'
        open(path, "w").write("\n".join(lines))


def run_interp(exe, scripts_file, trace_file, timeout=1800, args=()):
    """Replay scripts on the real code. Returns (rc, stderr_text)."""
    errf = trace_file + ".err"
    with open(scripts_file) as fi, open(errf, "w") as fe:
        env = dict(os.environ)
        env["ASAN_OPTIONS"] = "detect_leaks=1:abort_on_error=0:exitcode=99"
        env["UBSAN_OPTIONS"] = "print_stacktrace=1:halt_on_error=1:exitcode=98"
        try:
            p = subprocess.run([exe, trace_file] + list(args), stdin=fi, stdout=fe, stderr=subprocess.STDOUT, timeout=timeout, env=env)
            rc = p.returncode
        except subprocess.TimeoutExpired:
            rc = -9
    err = open(errf).read()
    if rc == 2:
        raise MachineryError("interpreter %s refused its input: %s" % (os.path.basename(exe), err[-500:]))
    if rc != 0:
        _drop_partial_last_line(trace_file)
        _mark_garbled_lines(trace_file)
    if rc != 0:
        # abnormal end: an event no specification matches marks the spot
        with open(trace_file, "a") as f:
            f.write('\n{"e":"crash","o":0,"a":%d,"b":0,"r":0,"lv":0}\n' % rc)
    return rc, err


def validate_trace(trace_module, trace_file, workdir, tag, heap="3g", timeout=1800, dfs=False, trace_env=None):
    """Returns (accepted, first_unmatched_line (1-based) or None, n_events, tlc_result)."""
    wd = os.path.join(workdir, "val-" + tag)
    os.makedirs(wd, exist_ok=True)
    env = {"TRACE": trace_file}
    if trace_env:
        env.update(trace_env)
    res = tlc(trace_module, TRACE_CFG, wd, workers=1, env=env, heap=heap, timeout=timeout, dfs=dfs)
    shutil.rmtree(wd, ignore_errors=True)
    m = re.search(r'<<"REJECTED", (\d+), (\d+)>>', res.out)
    if m:
        return False, int(m.group(1)), int(m.group(2)), res
    if res.rc != 0:
        raise MachineryError("trace validator %s failed (rc=%d):\n%s" % (trace_module, res.rc, res.out[-3000:]))
    return True, None, res.depth - 1, res


def script_of_line(trace_file, line_no, reset_event='"e":"rs"'):
    """Index (0-based, within this trace) of the execution that contains trace line `line_no`, and that execution's lines."""
    idx = 0
    cur = []
    with open(trace_file) as f:
        for i, line in enumerate(f, 1):
            if not line.strip():
                continue
            cur.append(line.rstrip("\n"))
            if i >= line_no and reset_event in line:
                return idx, cur
            if reset_event in line:
                if i < line_no:
                    idx += 1
                    cur = []
    return idx, cur


class SeqOutcome:
    def __init__(self):
        self.executions = 0
        self.events = 0
        self.rejections = []   # dicts
        self.interp_stats = {}
        self.samples = []


def make_tasks(exe, world_name, scripts_file, n_scripts, trace_module, workdir, tag, interp_args=(), max_rej=1,
               reset_event='"e":"rs"', trace_env=None, chunk_scripts=1500):
    """Split one (world, script set) into chunk tasks; each task replays its scripts on the real code and validates the trace."""
    # one chunk per core for small sets, but never more than 30 000 scripts in one trace file (the validator reads a whole trace into memory:
    # the ten-million-script covers of the thorough tier ran out of heap with sixteen chunks)
    size = min(30000, max(chunk_scripts, (n_scripts + NCPU - 1) // NCPU))
    k = max(1, (n_scripts + size - 1) // size)
    parts = split_lines(scripts_file, k, workdir, tag)
    tasks = []
    for i, part in enumerate(parts):
        tasks.append(dict(exe=exe, world=world_name, part=part, idx=i, trace_module=trace_module, workdir=workdir, tag=tag,
                          interp_args=interp_args, max_rej=max_rej, reset_event=reset_event, trace_env=trace_env))
    return tasks


def run_task(t):
    i, part, workdir, tag = t["idx"], t["part"], t["workdir"], t["tag"]
    trace = os.path.join(workdir, "%s.%02d.ndjson" % (tag, i))
    rc, err = run_interp(t["exe"], part, trace, args=t["interp_args"])
    rejs = []
    cur_part_lines = open(part).readlines()
    nexec = len(cur_part_lines)
    nev = 0
    offset_scripts = 0
    cur_trace = trace
    made = [trace]
    while True:
        ok, line_no, nevents, res = validate_trace(t["trace_module"], cur_trace, workdir, "%s-%02d" % (tag, i), trace_env=t["trace_env"])
        if ok:
            nev += nevents
            break
        idx, lines = script_of_line(cur_trace, line_no, t["reset_event"])
        script_line = cur_part_lines[offset_scripts + idx] if offset_scripts + idx < len(cur_part_lines) else None
        mm = re.search(r'"n":(\d+)', lines[-1]) if lines else None
        if not mm and lines:     # the process died: its fatal record (terminate / hang / registry) carries the script index
            for ln in reversed(lines):
                mm = re.search(r'"e":"(?:terminate|hang|died|double-destroy|double-construct|use-after-destroy)","o":(\d+)', ln)
                if mm:
                    break
        if mm:      # the interpreter numbers the scripts of this chunk itself (fault mode runs several executions per script)
            k = int(mm.group(1))
            script_line = cur_part_lines[k] if k < len(cur_part_lines) else script_line
        # position of the unmatched event inside the rejected execution
        before = 0
        with open(cur_trace) as f:
            seen = 0
            for n, line in enumerate(f, 1):
                if seen == idx:
                    break
                if t["reset_event"] in line:
                    seen += 1
                    before = n
        rejs.append({"world": t["world"], "script": script_line.strip() if script_line else None,
                     "trace_line": line_no - before, "execution": lines, "interp_rc": rc, "interp_err": err[-4000:] if rc != 0 else ""})
        nev += line_no
        if len(rejs) >= t["max_rej"] or script_line is None:
            break
        rest = cur_trace + ".rest"
        seen = 0
        with open(cur_trace) as fi, open(rest, "w") as fo:
            for line in fi:
                if seen > idx:
                    fo.write(line)
                elif t["reset_event"] in line:
                    seen += 1
        made.append(rest)
        offset_scripts += idx + 1
        if os.path.getsize(rest) == 0:
            break
        cur_trace = rest
    sample = None
    if i == 0:
        with open(trace) as f:
            sample = [next(f, "").strip() for _ in range(12)]
    import hashlib
    # digest of the observable trace: the ledger counters lv / pv are judged by the specification (they may legitimately differ
    # between compilers while user code runs: number of temporaries alive), everything else must be identical across configurations
    hd = hashlib.sha256()
    strip = re.compile(rb',"(lv|pv)":-?\d+')
    with open(trace, "rb") as f:
        for line in f:
            hd.update(strip.sub(b"", line))
    digest = hd.hexdigest()
    for p in made + [trace + ".err", part]:
        if os.path.exists(p):
            os.remove(p)
    stats = {}
    for line in err.splitlines():
        if line.startswith("STATS "):
            try:
                stats = json.loads(line[6:])
            except ValueError:
                pass
    return dict(world=t["world"], tag=tag, executions=nexec, events=nev, rejections=rejs, stats=stats, sample=sample, digest=digest, idx=i)


def run_tasks(tasks):
    with ThreadPoolExecutor(max_workers=NCPU) as ex:
        return list(ex.map(run_task, tasks))


def confirm_rejection(exe, rej, trace_module, workdir, interp_args=(), reset_event='"e":"rs"', trace_env=None):
    """Re-run the single script alone; a rejection is reported only if it repeats."""
    if not rej.get("script"):
        return True
    sf = os.path.join(workdir, "single.scripts")
    with open(sf, "w") as f:
        f.write(rej["script"] + "\n")
    trace = os.path.join(workdir, "single.ndjson")
    rc, err = run_interp(exe, sf, trace, args=interp_args)
    ok, line_no, nevents, res = validate_trace(trace_module, trace, workdir, "single", trace_env=trace_env)
    if not ok:
        rej["execution"] = [l.rstrip("\n") for l in open(trace) if l.strip()]
        rej["trace_line"] = line_no
        rej["interp_rc"] = rc
        if rc != 0:
            rej["interp_err"] = err[-4000:]
    return not ok


def sample_file(path, n_total, n_want, seed, outpath):
    """Seeded sample of lines (keeps order)."""
    if n_want >= n_total:
        shutil.copy(path, outpath)
        return n_total
    rnd = random.Random(seed)
    keep = set(rnd.sample(range(n_total), n_want))
    k = 0
    with open(path) as fi, open(outpath, "w") as fo:
        for i, line in enumerate(fi):
            if i in keep:
                fo.write(line)
                k += 1
    return k
