# Sequential engine: TLC transition cover -> real code (script interpreter) -> TLC trace validation.
# DESIGN.md 4.1, 4.2, 4.4.
import json, os, random, re, shutil, subprocess, time
from concurrent.futures import ThreadPoolExecutor
from core import *

TRACE_CFG = "INIT Init\nNEXT Next\nCHECK_DEADLOCK FALSE\nPOSTCONDITION Report\n"


def emit_cover(module, constants, invariants, workdir, tag, view="View", heap="8g", timeout=3000, workers=NCPU, simulate=None,
               extra_constraints=(), simdepth=None):
    """Model-check the implementation-shaped spec and print one script per generated transition."""
    cfg = cfg_text(constants, invariants=invariants, view=view, action_constraints=["Emit"], constraints=extra_constraints)
    raw = os.path.join(workdir, tag + ".cover.out")
    res = tlc(module, cfg, workdir, workers=workers, stdout_file=raw, heap=heap, timeout=timeout, simulate=simulate,
              extra=(["-depth", str(simdepth)] if simdepth else []))
    if res.rc != 0 and not simulate:
        raise MachineryError("model %s (%s) failed under TLC: rc=%d\n%s" % (module, tag, res.rc, res.out[-3000:]))
    scripts = os.path.join(workdir, tag + ".scripts")
    n = 0
    with open(raw) as fi, open(scripts, "w") as fo:
        for line in fi:
            if line.startswith('"['):
                if simdepth and line.count("[") - 1 < simdepth:
                    continue   # simulation prints every prefix of a behaviour; keep the complete ones
                fo.write(line)
                n += 1
    os.remove(raw)
    return res, scripts, n


def model_check(module, constants, invariants, workdir, view="View", heap="8g", timeout=3000, properties=(), constraints=()):
    cfg = cfg_text(constants, invariants=invariants, view=view, properties=properties, constraints=constraints)
    return tlc(module, cfg, workdir, heap=heap, timeout=timeout)


def expect_defect(module, constants, invariants, workdir, defect, view="View"):
    """Sensitivity of the model itself: with the defect switched on TLC must find a violation."""
    c = dict(constants)
    c["Defects"] = set(c.get("Defects", set())) | {defect}
    res = model_check(module, c, invariants, workdir, view=view)
    return res.violated_invariant()


def split_lines(path, k, outdir, tag):
    files = [open(os.path.join(outdir, "%s.%02d.scripts" % (tag, i)), "w") for i in range(k)]
    n = 0
    with open(path) as f:
        lines = f.readlines()
    per = (len(lines) + k - 1) // k if lines else 1
    for i, line in enumerate(lines):
        files[min(i // per, k - 1)].write(line)
        n += 1
    for f in files:
        f.close()
    return [f.name for f in files if os.path.getsize(f.name) > 0]


def run_interp(exe, scripts_file, trace_file, timeout=1800, args=()):
    """Replay scripts on the real code. Returns (rc, stderr_text)."""
    errf = trace_file + ".err"
    with open(scripts_file) as fi, open(errf, "w") as fe:
        env = dict(os.environ)
        env["ASAN_OPTIONS"] = "detect_leaks=1:abort_on_error=0:exitcode=99"
        env["UBSAN_OPTIONS"] = "print_stacktrace=1:halt_on_error=1:exitcode=98"
        try:
            p = subprocess.run([exe, trace_file] + list(args), stdin=fi, stdout=fe, stderr=subprocess.STDOUT, timeout=timeout, env=env)
            rc = p.returncode
        except subprocess.TimeoutExpired:
            rc = -9
    err = open(errf).read()
    if rc != 0:
        # abnormal end: an event no specification matches marks the spot
        with open(trace_file, "a") as f:
            f.write('\n{"e":"crash","o":0,"a":%d,"b":0,"r":0,"lv":0}\n' % rc)
    return rc, err


def validate_trace(trace_module, trace_file, workdir, tag, heap="3g", timeout=1800, dfs=False, trace_env=None):
    """Returns (accepted, first_unmatched_line (1-based) or None, n_events, tlc_result)."""
    wd = os.path.join(workdir, "val-" + tag)
    os.makedirs(wd, exist_ok=True)
    env = {"TRACE": trace_file}
    if trace_env:
        env.update(trace_env)
    res = tlc(trace_module, TRACE_CFG, wd, workers=1, env=env, heap=heap, timeout=timeout, dfs=dfs)
    shutil.rmtree(wd, ignore_errors=True)
    m = re.search(r'<<"REJECTED", (\d+), (\d+)>>', res.out)
    if m:
        return False, int(m.group(1)), int(m.group(2)), res
    if res.rc != 0:
        raise MachineryError("trace validator %s failed (rc=%d):\n%s" % (trace_module, res.rc, res.out[-3000:]))
    return True, None, res.depth - 1, res


def script_of_line(trace_file, line_no, reset_event='"e":"rs"'):
    """Index (0-based, within this trace) of the execution that contains trace line `line_no`, and that execution's lines."""
    idx = 0
    cur = []
    with open(trace_file) as f:
        for i, line in enumerate(f, 1):
            if not line.strip():
                continue
            cur.append(line.rstrip("\n"))
            if i >= line_no and reset_event in line:
                return idx, cur
            if reset_event in line:
                if i < line_no:
                    idx += 1
                    cur = []
    return idx, cur


class SeqOutcome:
    def __init__(self):
        self.executions = 0
        self.events = 0
        self.rejections = []   # dicts
        self.interp_stats = {}
        self.samples = []


def replay_and_validate(exe, world_name, scripts_file, n_scripts, trace_module, workdir, tag, chunks=NCPU, interp_args=(), max_rej=3,
                        reset_event='"e":"rs"', trace_env=None):
    """Run all scripts through one interpreter build and validate the recorded traces. Returns SeqOutcome."""
    out = SeqOutcome()
    k = max(1, min(chunks, (n_scripts + 199) // 200))
    parts = split_lines(scripts_file, k, workdir, tag)

    def work(i_part):
        i, part = i_part
        trace = os.path.join(workdir, "%s.%02d.ndjson" % (tag, i))
        rc, err = run_interp(exe, part, trace, args=interp_args)
        rejs = []
        nexec = sum(1 for _ in open(part))
        nev = 0
        offset_scripts = 0
        cur_trace = trace
        cur_part_lines = open(part).readlines()
        while True:
            ok, line_no, nevents, res = validate_trace(trace_module, cur_trace, workdir, "%s-%02d" % (tag, i), trace_env=trace_env)
            if ok:
                nev += nevents
                break
            idx, lines = script_of_line(cur_trace, line_no, reset_event)
            script_line = cur_part_lines[offset_scripts + idx] if offset_scripts + idx < len(cur_part_lines) else None
            rejs.append({"world": world_name, "script": script_line.strip() if script_line else None,
                         "trace_line": line_no, "execution": lines, "interp_rc": rc, "interp_err": err[-4000:] if rc != 0 else ""})
            nev += line_no
            if len(rejs) >= max_rej or rc != 0 and script_line is None:
                break
            # continue after the rejected execution
            rest = cur_trace + ".rest"
            seen = 0
            with open(cur_trace) as fi, open(rest, "w") as fo:
                for line in fi:
                    if seen > idx:
                        fo.write(line)
                    elif reset_event in line:
                        seen += 1
            offset_scripts += idx + 1
            if os.path.getsize(rest) == 0:
                break
            cur_trace = rest
        sample = None
        if i == 0:
            with open(trace) as f:
                sample = [next(f, "").strip() for _ in range(12)]
        for p in (trace, trace + ".rest", trace + ".err", trace + ".rest.rest", trace + ".rest.rest.rest"):
            if os.path.exists(p):
                os.remove(p)
        return nexec, nev, rejs, err, sample

    with ThreadPoolExecutor(max_workers=NCPU) as ex:
        for nexec, nev, rejs, err, sample in ex.map(work, list(enumerate(parts))):
            out.executions += nexec
            out.events += nev
            out.rejections += rejs
            if sample:
                out.samples = sample
            for line in err.splitlines():
                if line.startswith("STATS "):
                    try:
                        for kk, vv in json.loads(line[6:]).items():
                            out.interp_stats[kk] = out.interp_stats.get(kk, 0) + vv
                    except ValueError:
                        pass
    for p in parts:
        os.remove(p)
    return out


def confirm_rejection(exe, rej, trace_module, workdir, interp_args=(), reset_event='"e":"rs"', trace_env=None):
    """Re-run the single script alone; a rejection is reported only if it repeats."""
    if not rej.get("script"):
        return True
    sf = os.path.join(workdir, "single.scripts")
    with open(sf, "w") as f:
        f.write(rej["script"] + "\n")
    trace = os.path.join(workdir, "single.ndjson")
    rc, err = run_interp(exe, sf, trace, args=interp_args)
    ok, line_no, nevents, res = validate_trace(trace_module, trace, workdir, "single", trace_env=trace_env)
    if not ok:
        rej["execution"] = [l.rstrip("\n") for l in open(trace) if l.strip()]
        rej["trace_line"] = line_no
        rej["interp_rc"] = rc
        if rc != 0:
            rej["interp_err"] = err[-4000:]
    return not ok


def sample_file(path, n_total, n_want, seed, outpath):
    """Seeded sample of lines (keeps order)."""
    if n_want >= n_total:
        shutil.copy(path, outpath)
        return n_total
    rnd = random.Random(seed)
    keep = set(rnd.sample(range(n_total), n_want))
    k = 0
    with open(path) as fi, open(outpath, "w") as fo:
        for i, line in enumerate(fi):
            if i in keep:
                fo.write(line)
                k += 1
    return k
