# Concurrent engine: TLC model checking of the threads x micro-steps models + controlled-scheduler exploration of the real
# code (depth-first with a preemption bound, seeded random, replay of TLC counterexample schedules) + TLC validation of
# every recorded API-level history against the abstract concurrent oracle.  DESIGN.md 4.3.
import json, os, re, shutil, subprocess, time
from concurrent.futures import ThreadPoolExecutor
from core import *
import seqengine as se


def _drop_partial_last_line(path):
    """a crashed process may leave an incomplete last record: cut it off so that the JSON reader sees whole lines only"""
    try:
        data = open(path, "rb").read()
    except OSError:
        return
    if data and not data.endswith(b"\n"):
        k = data.rfind(b"\n")
        open(path, "wb").write(data[:k + 1] if k >= 0 else b"")


def run_runner(exe, out, scenario, mode_args, timeout=900):
    env = dict(os.environ)
    env["ASAN_OPTIONS"] = "detect_leaks=0:abort_on_error=0:exitcode=99"
    env["TSAN_OPTIONS"] = "exitcode=66:halt_on_error=1:second_deadlock_stack=1:suppressions=" + os.path.join(HARNESS, "tsan.supp")
    errf = out + ".err"
    with open(errf, "w") as fe:
        try:
            p = subprocess.run([exe, out, scenario] + [str(a) for a in mode_args], stdout=fe, stderr=subprocess.STDOUT, timeout=timeout, env=env)
            rc = p.returncode
        except subprocess.TimeoutExpired:
            rc = -9
    err = open(errf).read()
    os.remove(errf)
    if rc != 0:
        _drop_partial_last_line(out)
    if rc != 0:
        with open(out, "a") as f:
            f.write('\n{"e":"crash","t":9,"a":%d,"b":0,"r":0}\n' % rc)
    stats = {}
    for line in err.splitlines():
        if line.startswith("STATS "):
            try:
                stats = json.loads(line[6:])
            except ValueError:
                pass
    return rc, err, stats


def executions_of(trace_file):
    """yield lists of lines, one per execution (ending with its rs line)"""
    cur = []
    with open(trace_file) as f:
        for line in f:
            line = line.rstrip("\n")
            if not line.strip():
                continue
            cur.append(line)
            if '"e":"rs"' in line:
                yield cur
                cur = []
    if cur:
        yield cur


def explore_scenario(exe, scenario, mode_args, trace_module, workdir, tag, max_rej=2, trace_env=None):
    """Explore one scenario on the real code and validate all its executions. Returns dict."""
    out = os.path.join(workdir, tag + ".ndjson")
    rc, err, stats = run_runner(exe, out, scenario, mode_args)
    rejs = []
    nexec = 0
    nev = 0
    cur = out
    sample = None
    while True:
        ok, line_no, nevents, res = se.validate_trace(trace_module, cur, workdir, tag, trace_env=trace_env)
        if ok:
            nev += nevents
            break
        # locate the rejected execution
        seen = 0
        target = None
        for ex in executions_of(cur):
            if seen + len(ex) >= line_no:
                target = ex
                break
            seen += len(ex)
        pos = line_no - seen
        sched = None
        if target:
            m = re.search(r'"s":"([0-9 ]*)"', target[-1])
            sched = [int(x) for x in m.group(1).split()] if m else None
        rejs.append({"scenario": scenario, "mode": list(map(str, mode_args)), "schedule": sched, "execution": target or [], "trace_line": pos,
                     "runner_rc": rc, "runner_err": ((err if len(err) <= 9000 else err[:6000] + "\n[...]\n" + err[-3000:]) if rc != 0 else "")})      # a sanitizer report starts with the two access stacks
        nev += line_no
        if len(rejs) >= max_rej or target is None:
            break
        rest = cur + ".rest"
        with open(cur) as fi, open(rest, "w") as fo:
            k = 0
            for line in fi:
                if not line.strip():
                    continue
                k += 1
                if k > seen + len(target):
                    fo.write(line)
        if cur != out:
            os.remove(cur)
        if os.path.getsize(rest) == 0:
            os.remove(rest)
            break
        cur = rest
    distinct = set()
    for ex in executions_of(out):
        nexec += 1
        if sample is None and len(ex) > 6:
            sample = ex
        m = re.search(r'"s":"([0-9 ]*)"', ex[-1])
        if m and len(set(m.group(1).split())) > 1:      # non-trivial: the schedule switches between threads at a decision point
            distinct.add(m.group(1))
    for p in (out, cur):
        if os.path.exists(p):
            os.remove(p)
    return {"scenario": scenario, "mode": " ".join(map(str, mode_args)), "executions": nexec, "events": nev, "rejections": rejs, "stats": stats,
            "sample": sample, "rc": rc, "distinct_nontrivial": len(distinct)}


def confirm(exe, rej, trace_module, workdir, trace_env=None):
    """Replay the schedule of a rejected execution alone; reported only if it repeats."""
    if rej.get("schedule") is None:
        return True
    out = os.path.join(workdir, "confirm.ndjson")
    rc, err, _ = run_runner(exe, out, rej["scenario"], ["replay"] + rej["schedule"])
    ok, line_no, nevents, res = se.validate_trace(trace_module, out, workdir, "confirm", trace_env=trace_env)
    if not ok:
        rej["execution"] = [l.rstrip("\n") for l in open(out) if l.strip()]
        rej["trace_line"] = line_no
    os.remove(out)
    return not ok


def counterexample_schedule(module, cfgtext, workdir):
    """Run TLC expecting an invariant violation; return (invariant, [thread ids as the harness numbers them]) from the lastT ghost."""
    res = tlc(module, cfgtext, workdir, workers=1, timeout=600)
    inv = res.violated_invariant()
    ts = [int(x) for x in re.findall(r"/\\ lastT = (\d+)", res.out)]
    return inv, [t - 1 for t in ts if t > 0], res


def run_conc(pid, tier, seed, plan):
    """plan: models[] (module, cfg text, tag), runner (source, defines), trace_module, scenarios[] (scenario, kind), corpus[], rule..."""
    t0 = time.time()
    wd = scratch(pid)
    try:
        states = transitions = 0
        model_notes = []
        for m in plan["models"]:
            res = tlc(m["module"], m["cfg"], wd, timeout=m.get("timeout", 1800), heap=m.get("heap", "8g"))
            if not res.ok:
                raise MachineryError("model %s (%s) failed under TLC: rc=%d\n%s" % (m["module"], m["tag"], res.rc, res.out[-3000:]))
            states += res.distinct
            transitions += res.generated
            model_notes.append({"model": m["module"], "config": m["tag"], "distinct_states": res.distinct, "transitions": res.generated, "tlc_wall_s": round(res.wall, 1)})
            log("%s model %s/%s: %d states, %d transitions (%.1fs)" % (pid, m["module"], m["tag"], res.distinct, res.generated, res.wall))
        # inductive invariants discharged by Apalache (unbounded in the number of steps): base and induction step
        for ind in plan.get("inductive", []):
            t1 = time.time()
            for init, inv, length in ind["steps"]:
                ok, txt = apalache(ind["module"], init, inv, length, wd)
                if not ok:
                    raise MachineryError("inductive invariant of %s does not hold (%s => %s):\n%s" % (ind["module"], init, inv, txt[-1500:]))
            model_notes.append({"model": ind["module"], "config": "apalache inductive invariant: " + ", ".join("%s=>%s@%d" % s for s in ind["steps"]),
                                "distinct_states": 0, "transitions": 0, "tlc_wall_s": round(time.time() - t1, 1)})
            log("%s model %s: inductive invariant holds (Apalache, %.1fs)" % (pid, ind["module"], time.time() - t1))
        runners = list(plan.get("runners") or [plan["runner"]])
        nprimary = len(runners)
        # extra runners: other classes with the same trace vocabulary (HeterEventQueue); every scenario whose operations they have runs on them too
        runners += list(plan.get("extra_runners", []))
        exes = build_many([dict(source=r["source"], defines=r.get("defines", ()), sanitize=r.get("sanitize", True), name=r["name"]) for r in runners])
        exe = exes[0]
        # model sensitivity + corpus of counterexample schedules replayed on the real code
        corpus_notes = []
        tasks = []
        for c in plan.get("corpus", []):
            inv, sched, res = counterexample_schedule(c["module"], c["cfg"], wd)
            if not inv:
                raise MachineryError("model %s does not notice defect %s" % (c["module"], c["defect"]))
            corpus_notes.append({"defect": c["defect"], "violates": inv, "scenario": c["scenario"], "schedule": sched})
            log("%s model %s with defect %s violates %s (schedule of %d steps replayed on the real code)" % (pid, c["module"], c["defect"], inv, len(sched)))
            tasks.append((c["scenario"], ["model"] + sched, "corpus%d" % len(corpus_notes), 0))
        # defects whose counterexample cannot be replayed (no scheduling seam in the code they live in): model sensitivity only
        for c in plan.get("model_defects", []):
            res = tlc(c["module"], c["cfg"], wd, workers=1, timeout=600)
            inv = res.violated_invariant()
            if not inv:
                raise MachineryError("model %s does not notice defect %s" % (c["module"], c["defect"]))
            corpus_notes.append({"defect": c["defect"], "violates": inv, "scenario": None, "schedule": None})
            log("%s model %s with defect %s violates %s" % (pid, c["module"], c["defect"], inv))
        quick = tier == "quick"
        for i, sc in enumerate(plan["scenarios"]):
            nthreads = sc["scenario"].count("|") + 1
            ris = [] if sc.get("extra_only") else [sc.get("runner", i % nprimary)]
            ops = set(op for th in sc["scenario"].split(":")[-1].split("|") for op in th.split(","))
            kinds = set(op[0] for op in ops if op)
            ris += [k for k in range(nprimary, len(exes))
                    if not sc.get("primary_only") and (sc.get("extra_only") or i % runners[k].get("every", plan.get("extra_every", 1)) == 0)
                    and not (ops & set(runners[k].get("lacks", ()))) and not (kinds & set(runners[k].get("lacks_kinds", ())))]
            for ri in ris:
                if sc.get("dfs", True):
                    bound = sc.get("bound", 2 if nthreads <= 2 else 1) + (0 if quick else 1)
                    tasks.append((sc["scenario"], ["dfs", bound, sc.get("max", 4000 if quick else 60000)], "s%02d-dfs-%d" % (i, ri), ri))
                nr = sc.get("rand", 300 if quick else 5000)
                if nr:
                    tasks.append((sc["scenario"], ["rand", seed * 1000 + i, nr], "s%02d-rnd-%d" % (i, ri), ri))
        # uncontrolled stress with the shipped mutex policies under ThreadSanitizer
        stress = plan.get("stress_runners") or []
        sexes = build_many([dict(source=r["source"], defines=r.get("defines", ()), sanitize="thread", name=r["name"], opt="-O1") for r in stress]) if stress else []
        base = len(exes)
        exes = exes + sexes
        runners = runners + stress
        for i, sc in enumerate(plan.get("stress_scenarios", [])):
            for j in range(len(sexes)):
                if stress[j].get("lacks") and any(op in stress[j]["lacks"] for th in sc["scenario"].split("|") for op in th.split(",")):
                    continue      # this runner's class does not have one of the scenario's operations
                if sc.get("only_runners") and stress[j]["name"] not in sc["only_runners"]:
                    continue
                if bool(stress[j].get("own_scenarios")) != bool(sc.get("own")):
                    continue      # runners with their own scenario syntax (lock_stress) take only the scenarios written for them
                if (i + j) % max(1, sc.get("every", 1)) == 0:
                    tasks.append((sc["scenario"], ["stress", seed * 100 + i, sc.get("count", 150 if quick else 3000)], "x%02d-%d" % (i, j), base + j))

        def work(t):
            r = explore_scenario(exes[t[3]], t[0], t[1], runners[t[3]].get("trace_module", plan["trace_module"]), wd, t[2], trace_env=runners[t[3]].get("trace_env"))
            r["runner"] = t[3]
            for x in r["rejections"]:
                x["runner"] = t[3]
            return r
        with ThreadPoolExecutor(max_workers=NCPU) as ex:
            results = list(ex.map(work, tasks))
        total_exec = sum(r["executions"] for r in results)
        total_ev = sum(r["events"] for r in results)
        stuck = sum(r["stats"].get("stuck", 0) for r in results)
        exhausted = sum(1 for r in results if r["stats"].get("exhausted") == 1)
        rejections = [x for r in results for x in r["rejections"]]
        log("%s: %d scenarios x modes, %d executions, %d events, %d legit-stuck, %d rejections" % (pid, len(results), total_exec, total_ev, stuck, len(rejections)))
        known = [k for k in known_findings() if k["property"] == pid]
        violations = 0
        seen = set()
        for r in rejections[:4]:
            if not confirm(exes[r.get("runner", 0)], r, runners[r.get("runner", 0)].get("trace_module", plan["trace_module"]), wd, trace_env=runners[r.get("runner", 0)].get("trace_env")):
                raise MachineryError("rejection did not repeat on replay: %s %s" % (r["scenario"], r["schedule"]))
            import hashlib
            ln = r.get("trace_line") or 0
            exn = r.get("execution") or []
            bad_event = exn[ln - 1] if 0 < ln <= len(exn) else ""
            m = re.search(r'"e":"(\w+)"', bad_event)
            key = hashlib.sha1((r["scenario"] + "|" + (m.group(1) if m else "")).encode()).hexdigest()[:12]
            if key in seen:
                continue
            seen.add(key)
            kf = [k for k in known if k["key"] == key]
            if kf:
                print("KNOWN-FINDING: property=%s %s" % (pid, kf[0]["text"]))
                continue
            replay = write_replay(pid, {"property": pid, "engine": "conc", "runner": runners[r.get("runner", 0)], "scenario": r["scenario"], "schedule": r["schedule"],
                                       "trace_module": plan["trace_module"], "first_unmatched_event": bad_event, "trace": exn,
                                       "runner_rc": r.get("runner_rc"), "runner_err": r.get("runner_err", ""), "finding_key": key})
            print("VIOLATION property=%s replay=%s" % (pid, replay))
            violations += 1
        samples = []
        for r in results:
            if r["sample"] and len(samples) < 2:
                samples.append({"scenario": r["scenario"], "mode": r["mode"], "one_execution": r["sample"]})
        cov = {"states": states, "transitions": transitions, "traces_validated_against_impl": total_exec, "evaluations": total_ev,
               "distinct_nontrivial": sum(r["distinct_nontrivial"] for r in results),
               "rule": plan["rule"], "samples": samples, "exhaustive": False,
               "models": model_notes, "defect_sensitivity": corpus_notes,
               "scenarios": [{"scenario": r["scenario"], "mode": r["mode"], "runner": runners[r["runner"]]["name"], "executions": r["executions"], "dfs_exhausted_within_bound": r["stats"].get("exhausted") == 1,
                              "legit_stuck": r["stats"].get("stuck", 0)} for r in results],
               "repo_include_hash": repo_hash(), "further_rejections_not_individually_reported": max(0, len(rejections) - 4)}
        write_evidence(pid, tier, seed, "model_checking", cov, time.time() - t0, violations, plan.get("assumptions", ()))
        return 1 if violations else 0
    finally:
        shutil.rmtree(wd, ignore_errors=True)


def replay_conc(r, path):
    wd = scratch("replay")
    try:
        exe = build(r["runner"]["source"], defines=r["runner"].get("defines", ()), sanitize=r["runner"].get("sanitize", True), name=r["runner"]["name"])
        rej = {"scenario": r["scenario"], "schedule": r["schedule"]}
        again = confirm(exe, rej, r["runner"].get("trace_module", r["trace_module"]), wd, trace_env=r["runner"].get("trace_env"))
        if again:
            ex = rej.get("execution", [])
            ln = rej.get("trace_line", 0)
            print("replay: rejected again at event %d: %s" % (ln, ex[ln - 1] if 0 < ln <= len(ex) else "?"))
            print("VIOLATION property=%s replay=%s" % (r["property"], path))
            return 1
        print("replay: the execution is accepted on the current tree")
        return 0
    finally:
        shutil.rmtree(wd, ignore_errors=True)
