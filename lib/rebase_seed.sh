#!/bin/bash
# usage: rebase_seed.sh <patch.diff>   -- re-creates the patch against the current /repo headers (fuzzy apply); keeps the original as patch.orig.diff
P=$(readlink -f "$1"); D=$(mktemp -d /var/tmp/rebase-XXXXXX)
mkdir -p $D/a $D/b && cp -r /repo/include $D/a/ && cp -r /repo/include $D/b/
if (cd $D/b && patch -p1 -s -F3 --no-backup-if-mismatch < "$P"); then
  [ -f "$(dirname $P)/patch.orig.diff" ] || cp "$P" "$(dirname $P)/patch.orig.diff"
  (cd $D && diff -ru a/include b/include | grep -v '^Only in' | sed -E 's/^(---|\+\+\+) ([ab]\/[^\t]*).*/\1 \2/') > "$P"
  echo "rebased: $P"
else
  echo "REBASE FAILED: $P"
fi
rm -rf $D
