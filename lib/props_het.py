# Plan for C14: heterogeneous routing and type safety (HetGen.tla / TraceHet.tla / het_interp.cpp), DESIGN.md 7/C14.
from core import *

HINV = ["Ledger", "OnePlace"]


def hconsts(cbs=2, enq=3, inv=1, ops=(), cbshapes=(1, 2, 3, 4, 5, 6, 7), argshapes=(1, 2, 3, 4, 5, 6, 7, 8), predshapes=(2, 3, 4, 5, 6), counts=(), filters=0, fprotos=()):
    return {"MaxCbs": cbs, "MaxEnq": enq, "MaxInv": inv, "Ops": set(ops), "CbShapes": set(cbshapes), "ArgShapes": set(argshapes), "PredShapes": set(predshapes),
            "Counts": set(c if c >= 0 else 100 - c for c in counts), "MaxFilters": filters, "FilterProtos": set(fprotos)}


def hworld(name, kind, threading=1, fill="0xA5", fraction=1.0, compiler="g++", std="c++11", opt="-O1", only_tags=None, hfilter=0):
    w = {"name": name, "source": "het_interp.cpp", "defines": ["W_KIND=%d" % kind, "W_THREADING=%d" % threading, "W_FILL=%s" % fill] + (["W_HFILTER=1"] if hfilter else []),
         "fraction": fraction, "compiler": compiler, "std": std, "opt": opt, "sanitize": True}
    if only_tags:
        w["only_tags"] = only_tags
    return w


ASSUME = ["TLC and the CommunityModules JSON reader are correct", "harness/het_interp.cpp records what the real classes did (no expected values; the shape tables are static_assert-ed against the library's own traits)",
          "type confusion is observed through tracked payload types (live-address registry, content self-checks) and ASan/UBSan, not specified",
          "callbacks and predicates change nothing in these histories; predicate verdicts are 'uid is odd'"]


def c14(tier, seed):
    quick = tier == "quick"
    route = {"module": "HetGen", "tag": "route", "invariants": HINV,
             "constants": hconsts(cbs=2 if quick else 3, enq=0, inv=1, ops={"al", "pl", "il", "rl", "iv"})}
    queue = {"module": "HetGen", "tag": "queue", "invariants": HINV,
             "constants": hconsts(cbs=1, enq=3 if quick else 4, inv=0, ops={"al", "nq", "pa", "po", "pi"}, cbshapes=(2, 3, 5, 7) if quick else (1, 2, 3, 4, 5, 6, 7),
                                  argshapes=(1, 2, 4, 6, 8) if quick else (1, 2, 3, 4, 5, 6, 7, 8))}     # 3, 7, 8: arguments that CONVERT to the prototype's parameter type (8: float -> int)
    # listeners that enqueue while process / processOne / processIf runs them (events arriving during a processing call)
    nested = {"module": "HetGen", "tag": "queue-nested", "invariants": HINV,
              "constants": hconsts(cbs=2, enq=3, inv=0, ops={"al", "pl", "nq", "pa", "po", "pi"}, cbshapes=(2, 8) if quick else (2, 3, 8), argshapes=(2, 4) if quick else (1, 2, 4, 6),
                                   predshapes=(2, 3, 6))}
    worlds = [hworld("h_list_single", 0, threading=0, only_tags=["route"]),
              hworld("h_disp_multi", 1, threading=1, only_tags=["route"], fraction=0.3, fill="0xFF"),
              hworld("h_queue_multi", 2, threading=1, only_tags=["queue", "queue-nested"]),
              hworld("h_queue_spin_route", 2, threading=2, only_tags=["route"], fraction=0.2, fill="0x00"),
              hworld("h_queue_tracked", 2, threading=3, only_tags=["queue", "queue-nested"], fraction=0.3, fill="0xAB"),      # tracked mutexes / atomics of the queue level
              hworld("h_disp_tracked", 1, threading=3, only_tags=["route"], fraction=0.2, fill="0x00"),
              hworld("h_queue_clang17", 2, threading=1, only_tags=["queue"], fraction=0.25, compiler="clang++", std="c++17", opt="-O2")]
    # include-event mode with a movable key taken by value (evaluation order, implicit move): shapes 1,2 of the same tables
    incl = {"module": "HetGen", "tag": "incl", "invariants": HINV,
            "constants": hconsts(cbs=2, enq=2, inv=2, ops={"al", "pl", "rl", "iv", "nq", "pa", "po"}, cbshapes=(1, 2), argshapes=(1, 2), predshapes=())}
    incld = {"module": "HetGen", "tag": "incl-disp", "invariants": HINV,
             "constants": hconsts(cbs=2, enq=0, inv=2, ops={"al", "pl", "rl", "iv"}, cbshapes=(1, 2), argshapes=(1, 2), predshapes=())}
    def iw(name, kind, **kw):
        w = hworld(name, kind, **kw)
        w["source"] = "hetincl_interp.cpp"
        return w
    worlds += [iw("hi_queue_gxx11", 2, only_tags=["incl"]), iw("hi_queue_clang14", 2, only_tags=["incl"], compiler="clang++", std="c++14"),
               iw("hi_queue_gxx20", 2, only_tags=["incl"], std="c++20", opt="-O2"), iw("hi_disp_clang20", 1, only_tags=["incl-disp"], compiler="clang++", std="c++20")]
    return {"interp": "harness/het_interp.cpp", "trace_module": "TraceHet", "models": [route, queue, nested, incl, incld], "worlds": worlds,
            "rule": "every transition of the bounded HetGen reference model over five prototypes of differently sized, non-trivial argument types: callbacks of seven "
                    "shapes (incl. callable with several prototypes / with anything), invocation and enqueue with seven argument shapes (incl. converting "
                    "ones), insert before handles of the same and of other prototypes, process / processOne / processIf with five predicate shapes over "
                    "mixed queues with recycled slots; non-trivial = the script uses processIf or insert",
            "assumptions": ASSUME}


def c16h(tier, seed):
    """CounterRemover / ConditionalRemover over the heterogeneous classes (the part of C16 that names heterogeneous targets)."""
    quick = tier == "quick"
    rem = {"ac", "pc", "ic", "ak", "qk", "ik"}
    direct = {"module": "HetGen", "tag": "selfremove-direct", "invariants": HINV + ["CtrLeft"],
              "constants": hconsts(cbs=2, enq=0, inv=3 if quick else 4, ops=rem | {"al", "rl", "iv"}, cbshapes=(1, 2, 5) if quick else (1, 2, 3, 5, 6, 7),
                                   argshapes=(1, 2, 6) if quick else (1, 2, 4, 6), predshapes=(), counts=(0, 2) if quick else (-1, 0, 1, 2, 3))}
    queued = {"module": "HetGen", "tag": "selfremove-queued", "invariants": HINV + ["CtrLeft"],
              "constants": hconsts(cbs=2, enq=3, inv=0, ops={"ac", "ic", "ak", "al", "nq", "pa", "po", "pi"}, cbshapes=(1, 2, 5), argshapes=(1, 2, 6), predshapes=(2, 6),
                                   counts=(0, 2) if quick else (0, 1, 2, 3))}
    worlds = [hworld("hk_list_single", 0, threading=0, only_tags=["selfremove-direct"]),
              hworld("hk_disp_multi", 1, threading=1, only_tags=["selfremove-direct"], fraction=0.5, fill="0xFF"),
              hworld("hk_queue_multi", 2, threading=1, only_tags=["selfremove-queued"]),
              hworld("hk_queue_spin_direct", 2, threading=2, only_tags=["selfremove-direct"], fraction=0.25, fill="0x00")]
    if not quick:
        worlds.append(hworld("hk_queue_clang17", 2, threading=1, only_tags=["selfremove-queued"], fraction=0.5, compiler="clang++", std="c++17", opt="-O2"))
    return {"interp": "harness/het_interp.cpp", "trace_module": "TraceHet", "models": [direct, queued], "worlds": worlds,
            "rule": "every transition of the bounded HetGen reference model with CounterRemover listeners of several callback shapes (trigger counts incl. zero and "
                    "negative; append / prepend / insert-before forms) and ConditionalRemover listeners (callbacks without arguments; the condition holds at its "
                    "second evaluation and must be asked exactly once per trigger, before the listener) over HeterCallbackList / HeterEventDispatcher / "
                    "HeterEventQueue, triggered by direct invocation / dispatch and through enqueue + process / processOne / processIf, next to plain listeners "
                    "that are added and removed; non-trivial = the script uses processIf or insert",
            "assumptions": ASSUME + ["ConditionalRemover's wrapper is callable with any argument list, so on a heterogeneous target it binds to the first prototype: only "
                                     "callbacks without arguments can be registered through it (a library limitation, not judged)"]}


def c12h(tier, seed):
    """MixinHeterFilter on a heterogeneous dispatcher with scripted filter behaviour (the part of C12 that names heterogeneous dispatchers)."""
    quick = tier == "quick"
    m = {"module": "HetGen", "tag": "heter-filters", "invariants": HINV,
         "constants": hconsts(cbs=1 if quick else 2, enq=0, inv=2 if quick else 3, ops={"al", "rl", "iv", "af", "rf"}, cbshapes=(2, 5) if quick else (1, 2, 3, 5),
                              argshapes=(2, 6) if quick else (1, 2, 4, 6), predshapes=(), filters=2 if quick else 3, fprotos=(2, 5) if quick else (1, 2, 3, 5))}
    worlds = [hworld("hf_disp_single", 1, threading=0, hfilter=1), hworld("hf_disp_multi_ff", 1, threading=1, hfilter=1, fraction=0.3, fill="0xFF")]
    if not quick:
        worlds.append(hworld("hf_disp_clang20", 1, threading=1, hfilter=1, fraction=0.3, compiler="clang++", std="c++20", opt="-O2"))
    return {"interp": "harness/het_interp.cpp", "trace_module": "TraceHet", "models": [m], "worlds": worlds,
            "rule": "every transition of the bounded HetGen reference model with MixinHeterFilter filters of several prototypes and three behaviours (pass; pass and "
                    "rewrite an int argument; reject odd values), added and removed between dispatches of several argument shapes, next to listeners that are added "
                    "and removed; TraceHet demands: only the filters of the dispatched prototype run, in the order added, each sees the value left by the ones "
                    "before it, listeners see the final value, the first rejection ends the dispatch, removed filters never run; non-trivial = the script uses "
                    "processIf or insert",
            "assumptions": ASSUME + ["MixinHeterFilter looks its filter list up by the exact lvalue argument types, so only exactly typed argument lists are dispatched in "
                                     "these worlds; it cannot be instantiated over HeterEventQueue (library limitation)"]}


def c09h(tier, seed):
    """Throwing listeners over the heterogeneous classes (the part of C09 anchored in hetercallbacklist.h / hetereventqueue.h)."""
    quick = tier == "quick"
    direct = {"module": "HetGen", "tag": "throw-direct", "invariants": HINV + ["CtrLeft"],
              "constants": hconsts(cbs=3, enq=0, inv=2 if quick else 3, ops={"al", "pl", "il", "rl", "iv", "ac"}, cbshapes=(2, 9) if quick else (2, 6, 9),
                                   argshapes=(2,) if quick else (2, 6), predshapes=(), counts=(2,))}
    queued = {"module": "HetGen", "tag": "throw-queued", "invariants": HINV + ["CtrLeft"],
              "constants": hconsts(cbs=2, enq=3, inv=0, ops={"al", "pl", "rl", "nq", "pa", "po", "pi", "ac"}, cbshapes=(2, 9) if quick else (2, 8, 9),
                                   argshapes=(2, 4) if quick else (2, 4, 6), predshapes=(2, 6), counts=(2,))}
    worlds = [hworld("hx_list_single", 0, threading=0, only_tags=["throw-direct"]),
              hworld("hx_disp_multi", 1, threading=1, only_tags=["throw-direct"], fraction=0.5, fill="0xFF"),
              hworld("hx_queue_multi", 2, threading=1, only_tags=["throw-queued"]),
              hworld("hx_queue_spin", 2, threading=2, only_tags=["throw-queued"], fraction=0.3, fill="0x00"),
              hworld("hx_queue_tracked", 2, threading=3, only_tags=["throw-queued"], fraction=0.5, fill="0xAB")]     # a lock still held when the exception leaves = destroyed locked / relock
    return {"interp": "harness/het_interp.cpp", "trace_module": "TraceHet", "models": [direct, queued], "worlds": worlds,
            "nontrivial_key": "scripts", "level": "fault_enumeration",
            "rule": "every transition of the bounded HetGen reference model with listeners that throw (next to plain, self-removing and enqueuing ones) over "
                    "HeterCallbackList / HeterEventDispatcher / HeterEventQueue: the exception leaves the invocation, dispatch, process, processOne or processIf "
                    "call at every position of every bounded history; TraceHet demands that nothing of that call runs afterwards, that the lists are as the "
                    "callbacks left them, that a processing call discards exactly the events it had taken, and that emptyQueue() is right afterwards",
            "assumptions": ASSUME}


PLANS = {"C14": c14}
