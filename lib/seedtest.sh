#!/bin/bash
# usage: seedtest.sh <patch.diff> <Cxx> [tier]   -- runs a check against a scratch copy of /repo with the patch applied
set -e
P=$(readlink -f "$1"); ID=$2; TIER=${3:-quick}
D=$(mktemp -d /var/tmp/seed-XXXXXX)
mkdir -p $D && cp -r /repo/include $D/ && (cd $D && patch -p1 -s < "$P")
cd /verif && VERIF_REPO=$D ./check $ID $TIER 2>&1 | grep -E "VIOLATION|KNOWN|MACHINERY|rejections so far" | head -8
echo "exit=${PIPESTATUS[0]}"
rm -rf $D
