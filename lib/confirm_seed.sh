#!/bin/bash
# usage: confirm_seed.sh <demo-dir with patch.diff demo.cpp notes.txt> <out-file>
# Confirms in a scratch copy: patch applies, library compiles, repository unit tests pass, demo passes without / fails with the change.
DEMO=$(readlink -f "$1"); OUT=$2
S=$(mktemp -d /var/tmp/confirm-XXXXXX)
{
git -C /repo worktree add --detach $S/wt HEAD -q || { echo "worktree failed"; exit 2; }
cd $S/wt
g++ -std=c++11 -pthread -I$S/wt/include $DEMO/demo.cpp -o $S/demo_orig 2>&1 | tail -3
timeout 120 $S/demo_orig > $S/orig.out 2>&1; echo "demo_without_change_exit=$?"; tail -2 $S/orig.out
git apply $DEMO/patch.diff && echo "patch_applies=yes" || echo "patch_applies=NO"
g++ -std=c++11 -pthread -I$S/wt/include $DEMO/demo.cpp -o $S/demo_mut 2>&1 | tail -3
timeout 120 $S/demo_mut > $S/mut.out 2>&1; echo "demo_with_change_exit=$?"; tail -2 $S/mut.out
mkdir -p $S/b && cd $S/b && printf "cmake_minimum_required(VERSION 3.2)\nproject(t)\ninclude_directories($S/wt/include)\nadd_subdirectory($S/wt/tests/unittest unittest)\n" > CMakeLists.txt
cmake -G Ninja -DCMAKE_BUILD_TYPE=Release . > /dev/null 2>&1 && nice ninja -j6 2>&1 | tail -1
./unittest/unittest 2>&1 | tail -2
echo "unittest_exit=$?"
cd /; git -C /repo worktree remove --force $S/wt; rm -rf $S
} > $OUT 2>&1
