#!/usr/bin/env python3
# Regenerates /verif/MANIFEST.json from the table below (single source of truth for what is claimed).
import json, os, subprocess, sys
sys.path.insert(0, os.path.dirname(os.path.abspath(__file__)))
VERIF = os.path.dirname(os.path.dirname(os.path.abspath(__file__)))

MC = "model_checking"
CHECKS = {
    "C01": (MC, "7/C01", "seq",
            "TLC model-checks CLImpl.tla (node-level model of callbacklist.h with the abstract list as ghost state: refinement, results of every "
            "operation, enumeration = content) exhaustively for the stated bounds, emits its transition cover, every script is executed on the real "
            "CallbackList in several policy worlds and TLC validates each recorded execution against the abstract TraceCL.tla. All bounded histories "
            "incl. stale/empty/repeated handles are enumerated by state, which no sampled unit test can do. UtilGen.tla is the reference model of the "
            "eventutil.h helpers over lists that hold the same comparable callback several times (exactly one removed per call); a DQImpl plan drives the "
            "dispatcher / queue overloads of the helpers (TraceDQ).",
            "TLA+ model checking (TLC) + transition-cover replay on the real code + TLC trace validation against the abstract spec"),
    "C02": (MC, "7/C02", "seq",
            "Same pipeline with callbacks that perform any list operation while being invoked (nesting depth 2 exhaustively, depth 3 by simulation): "
            "the scripts are re-entrant programs; the abstract spec is the snapshot/cursor semantics of the statement; hangs (lock held across a "
            "callback) and freed-memory accesses are observed by watchdog and ASan on every execution. forEach / forEachIf functions are user code too, "
            "and a second plan does the same at dispatcher level (DQImpl / TraceDQ: listeners and visitors that append, remove, query and dispatch on "
            "the dispatcher that is calling them).",
            "TLA+ model checking (TLC) + transition-cover replay of re-entrant programs + TLC trace validation"),
    "C14": (MC, "7/C14", "seq",
            "HetGen.tla is the reference model of prototype binding (first listed prototype a callback / an argument list / a predicate is callable "
            "with - the tables are static_assert-ed against the library's own traits in the harness), of per-prototype callback lists and of the "
            "mixed event queue (exactly once, FIFO, processIf touches only callable prototypes); TLC checks its ledger on all bounded histories and "
            "emits the cover; the scripts run on HeterCallbackList / HeterEventDispatcher / HeterEventQueue with five prototypes of differently "
            "sized tracked argument types (recycled slots, converting arguments, generic callbacks and predicates); TraceHet.tla judges each "
            "execution, type confusion shows through the payloads' live-address registry and self-checks and through ASan/UBSan. Enqueues through "
            "arguments that convert to the prototype's parameter type (long, char, float -> int) are part of the model's state, and a processIf call that "
            "reports 'nothing dispatched' must have asked about every pending event of every callable prototype.",
            "TLA+ model checking (TLC) of the reference model + transition-cover replay + TLC trace validation"),
    "C15": (MC, "7/C15", "seq",
            "RemGen.tla is the reference state machine of ScopedRemover (who answers for which listener, target, liveness) with the statement's "
            "invariants checked by TLC on all bounded histories of add/remove through removers, reset, setDispatcher, move construction, move "
            "assignment into empty and non-empty removers, swap and destruction in any order over two dispatchers; its transition cover runs on "
            "the real ScopedRemover<EventDispatcher/EventQueue> and ScopedRemover<CallbackList>; TraceDQ.tla tracks responsibility and rejects any listener left attached with "
            "nobody answering for it, any foreign listener touched, any wrong removeListener result.",
            "TLA+ model checking (TLC) of the reference model + transition-cover replay + TLC trace validation"),
    "C16": (MC, "7/C16", "seq",
            "RemGen.tla models CounterRemover listeners (triggers left = max(n,1), detached before their last run) and ConditionalRemover listeners "
            "(scripted condition per trigger), registered through the append, prepend and insert-before forms, under direct, nested (re-dispatch "
            "from the wrapped listener) and queued triggers; the cover runs on the real helpers (created as temporaries) over EventQueue and "
            "CallbackList worlds; TraceDQ.tla demands exactly the promised invocations. HetGen.tla / TraceHet.tla cover the heterogeneous targets "
            "(HeterCallbackList, HeterEventDispatcher, HeterEventQueue: counts incl. zero and negative, direct and queued triggers).",
            "TLA+ model checking (TLC) of the reference model + transition-cover replay + TLC trace validation"),
    "C17": (MC, "7/C17", "seq",
            "AnyData.tla is the reference model of boxes (holds / moved-from, value, chain of moves, queue round trip) with the ledger 'every held "
            "object destroyed exactly once' checked by TLC (the defect 'relocate' violates it); the cover runs for EVERY stored size from 1 byte to "
            "capacity+17 (incl. capacity-1, capacity, capacity+1 and the sizeof(LargeData) floor) and for trivial, tracked non-trivial (self pointer "
            "+ live-address registry), move-only and shared_ptr-owning types, each box in its own heap block under ASan; TraceAnyData.tla judges "
            "values, address stability, isType and the live-object ledger; a moved-from box may keep a moved-from object or be hollow.",
            "TLA+ model checking (TLC) of the reference model + transition-cover replay over a size x kind matrix + TLC trace validation"),
    "C18": (MC, "7/C18", "seq",
            "AnyId.tla transcribes ==, < and the hash of anyid.h over ids [digest, value] with colliding digests and states the laws (== an "
            "equivalence, < a strict weak order whose incomparability is ==, equal ids hash equally, map lookups find exactly the equal ids) as "
            "invariants that TLC checks over the whole universe, for a comparing and a non-comparing Storage; its generator enumerates every "
            "ordered triple of (value, C++ type) probes; the harness builds the real AnyIds from int / long / std::string with a digester that "
            "spreads digests over the 64-bit range, records ==, <, hash equality and which listeners a dispatch by id reaches in std::map and "
            "std::unordered_map dispatchers; TraceAnyId.tla requires == and hash coherence to equal the reference and the recorded < facts of "
            "each triple to satisfy the order laws.",
            "TLA+ model checking (TLC) of the operator laws + exhaustive triple enumeration replayed on the real AnyId + TLC trace validation"),
    "C19": (MC, "7/C19", "seq",
            "CLImpl.tla with the counter maximum scaled down so the wrap-around falls at every position of every bounded history; the guarded hook "
            "puts the real 32-bit counter at the same distance from 2^32-1; TraceCL.tla allows the one freedom the statement grants (invocations in "
            "progress at the wrap may call later additions) and is exact otherwise. Worlds: SingleThreading, std::mutex and a tracked mutex that reports a "
            "re-lock (getNextCounter taking the list mutex under a caller that already holds it) at once.",
            "TLA+ model checking (TLC) with scaled counter + cover replay with the counter hook + TLC trace validation"),
    "C04": (MC, "7/C04", "seq",
            "TLC model-checks DQImpl.tla (dispatcher + queue, listener lists at the level verified by CLImpl) for bounded histories over two event "
            "keys incl. stale handles and dispatch from listeners, emits the transition cover; the scripts run on the real EventDispatcher/EventQueue "
            "in type worlds (key type x prototype by value/const&/& x ArgumentPassingMode/getEvent x map kind x g++/clang++) with tracked key and "
            "argument objects whose moved-from state is observable; TLC validates every execution against the abstract TraceDQ.tla (exact routing, "
            "order, once, values).",
            "TLA+ model checking (TLC) + transition-cover replay in a type/policy/compiler matrix + TLC trace validation"),
    "C05": (MC, "7/C05", "seq",
            "DQImpl.tla models the queue as the code has it (slots with occupied flag, queueList/freeList, tempList/idleList of each processing "
            "call, queueEmptyCounter) with a ghost ledger (every event in exactly one place, FIFO, guard balanced) checked by TLC for all bounded "
            "histories incl. operations issued from listeners and predicates; transition cover replayed on the real EventQueue; TraceDQ.tla is the "
            "exactly-once / FIFO / put-back-in-front / results oracle for each recorded execution.",
            "TLA+ model checking (TLC) + transition-cover replay of re-entrant queue programs + TLC trace validation"),
    "C08": (MC, "7/C08", "seq",
            "The lifetime ledger is part of the abstract specs (TraceCL / TraceDQ / TraceObj): every recorded event carries the number of live "
            "tracked callback objects and live tracked argument objects; it must equal the listed callbacks / queued events whenever no invocation "
            "runs, may exceed it by at most the callbacks removed during running invocations, and must be zero after destruction. The models add "
            "what lifetime depends on: removal during invocation and the shared_ptr cascade (CLImpl invariants NoLeak/Pinned), clearEvents, "
            "takeEvent, recycled slots, processing calls left by exceptions, destruction with events still pending (DQImpl), copies, moves, swaps "
            "and destruction of whole objects (ObjGen). Tracked types also keep a registry of live addresses (double destruction / use after "
            "destruction is recorded as an event no specification accepts); LeakSanitizer runs on every interpreter process. Worlds with a tracked "
            "threading policy do the same for the library's own mutexes and atomics, and the AnyData reference model (boxes, moves, queue round trips) is "
            "part of the composite.",
            "TLA+ model checking (TLC) + transition-cover replay with instance-counting types + TLC trace validation of the lifetime ledger"),
    "C09": ("fault_enumeration", "7/C09", "seq",
            "The models (CLImpl, DQImpl) contain 'the running user code throws' as an operation, so TLC enumerates a throw at every position of "
            "every bounded re-entrant history and the abstract specs say what must remain (lists as the callbacks left them, only the taken batch "
            "discarded, emptiness correct). For every cover script whose last operation has fault points (additions direct and through the "
            "removers, enqueue, peek, take, dispatch, process*, copy construction and assignment of every container kind) the interpreters re-run "
            "the script with the k-th fault point armed - k-th allocation, k-th copy/move/comparison of a tracked user type - for k = 1, 2, ... "
            "until the operation completes untouched; TLC validates each such execution against the abstract spec extended with Faulted steps "
            "(state unchanged, ledger closed, std::terminate never). HetGen.tla / TraceHet.tla do the scripted-throw part for HeterCallbackList, "
            "HeterEventDispatcher and HeterEventQueue (a listener that throws at every position of every bounded history: nothing of the call runs "
            "afterwards, a processing call discards exactly what it had taken, emptyQueue() is right afterwards).",
            "fault enumeration over TLC transition covers (k-th allocation / user-type copy / scripted throw) + TLC trace validation"),
    "C10": (MC, "7/C10", "seq",
            "Two reference/implementation models decide it: ObjGen.tla (2-3 dispatcher/queue objects; copy = same listeners and filters, no "
            "pending events, fresh counters; move = transfer; swap = exchange; with the defects 'uninit' and 'share' TLC violates FreshQueue / "
            "Independent) and CLImpl.tla with two CallbackList objects (generation counters travel with the nodes). Their transition covers run on "
            "EventQueue, EventDispatcher, HeterEventQueue, HeterEventDispatcher and CallbackList objects constructed into storage pre-filled with "
            "0xAB/0xFF/0x00/0xA5 in C++11-20 builds; TraceObj.tla / TraceCL.tla judge every execution (independence probe, emptyQueue/waitFor of "
            "fresh objects, moved-from source loose).",
            "TLA+ model checking (TLC) + transition-cover replay over object kinds / storage patterns / language levels + TLC trace validation"),
    "C12": (MC, "7/C12", "seq",
            "DQImpl.tla with MixinFilter (filters as a snapshot list, scripted verdicts and argument rewrites, add/remove from inside filters and "
            "listeners) model-checked and covered; executions of the real dispatcher/queue with MixinFilter in by-value / const& / & prototypes are "
            "validated by TraceDQ.tla: filter order, value flow through one cell per dispatch, first false stops that dispatch only, direct = queued. "
            "Worlds with several mixins (a hook-less mixin before MixinFilter; a second hooked mixin after / before it) bind the mixin-hook phase of the "
            "specification; listeners wrapped by conditionalFunctor / argumentAdapter and a canContinueInvoking policy (taking its arguments by const reference, "
            "by value or by non-const reference) have their own model; HetGen.tla / "
            "TraceHet.tla do the same for MixinHeterFilter on a heterogeneous dispatcher (filters per prototype, scripted pass / rewrite / reject).",
            "TLA+ model checking (TLC) + transition-cover replay + TLC trace validation"),
    "C13": (MC, "7/C13", "seq",
            "DQImpl.tla with Ordered=TRUE (stable sort after every splice) model-checked for all key sequences with duplicates and all C05 "
            "operations; cover replayed on EventQueue with OrderedQueueList (ascending, descending, by-argument comparators); TraceDQ.tla keeps the "
            "pending events stably sorted by the world's comparator and demands exactly-once as for C05.",
            "TLA+ model checking (TLC) + transition-cover replay + TLC trace validation with comparator-parametric abstract queue"),
    "C03": (MC, "7/C03", "conc",
            "ConcCL.tla (threads x micro-steps of callbacklist.h: unlocked before.lock(), one step per critical section incl. the generation draw and its "
            "wrap-around, the traversal's head+counter / test / step; the counter wraps at every position of the scenarios; the protocol before the D11 repair "
            "- generation drawn outside the mutex - is kept as defect draw_unlocked and must violate Reachable) is model-checked by TLC over all interleavings "
            "of the scenario sets with the abstract list updated at the linearization points. The real CallbackList and EventDispatcher (std::map, std::unordered_map) run every scenario under "
            "the controlled scheduler (dfs with preemption bound + random); TraceCC.tla decides linearizability by tracking the set of abstract "
            "configurations consistent with the recorded begin/end history (results, at-most-once removal, final order) and the visit rules of "
            "concurrent traversals; deadlock (stuck) and unlocked structural accesses have no step in the specification. The same scenarios also run "
            "uncontrolled with the shipped std::mutex / SpinLock under ThreadSanitizer (stress mode), judged by the same TraceCC.tla. Scenarios are the "
            "hand-written regression list plus a seeded sample of ConcCLMC's own scenario sets; HeterCallbackList and HeterEventDispatcher run under the "
            "same scheduler and specification at the level of their policy mutexes (lazily created per-prototype lists raced for from an empty object).",
            "TLA+ model checking (TLC) + systematic schedule exploration of the real code + TLC trace validation (configuration-set linearizability)"),
    "C06": (MC, "7/C06", "conc",
            "ConcQueue.tla (threads x micro-steps of eventqueue.h, ghost event ledger) is model-checked by TLC over all interleavings of the scenario "
            "sets; the real EventQueue runs the producer/consumer scenarios under a controlled scheduler that owns every mutex, atomic and condition "
            "variable (GeneralThreading policy) with depth-first schedule enumeration up to a preemption bound plus seeded random schedules; TLC "
            "validates every recorded API history against TraceCQ.tla (no event twice, none lost after drain, payload intact, per-producer order, "
            "no deadlock, no unlocked structural access). A stress mode runs the scenarios with the shipped std::mutex / condition_variable under "
            "ThreadSanitizer and validates those histories with the same specification. ConcSlots.tla models the slot protocol underneath (queueList / "
            "freeList / private lists, double-checked pops, clear before recycle, which mutex guards which list) with four plausible defects that TLC must "
            "catch; scenarios = regression list + seeded sample of ConcQueueMC's scenario sets. HeterEventQueue (its own copy of the queue logic) runs every "
            "scenario whose operations it has under the same controlled scheduler and the same specification.",
            "TLA+ model checking (TLC) of the interleaving model + systematic schedule exploration of the real code + TLC trace validation"),
    "C07": (MC, "7/C07", "conc",
            "ConcQueue.tla models wait as predicate-under-mutex / atomic unlock+sleep / notify_one and the DisableQueueNotify ctor/dtor steps; TLC "
            "checks NoLostWakeup on all interleavings and, with the pre-repair defect switched on, prints the lost wake-up schedule which is replayed "
            "on the real code. Waiter/producer/DisableQueueNotify scenarios run on the real EventQueue under the controlled scheduler (preemption "
            "in the window between predicate and blocking included); TraceCQ.tla decides: a stuck state with an event surely pending, no "
            "DisableQueueNotify possibly alive and a sleeping waiter is a lost wake-up; wait returns only if its predicate could have held; "
            "waitFor returns false only after the (virtual) time-out. HeterEventQueue's wait / waitFor / enqueue run the scenarios without "
            "DisableQueueNotify (it has none) under the same scheduler and specification.",
            "TLA+ model checking (TLC) incl. counterexample replay + systematic schedule exploration of the real code + TLC trace validation"),
    "C11": (MC, "7/C11", "conc",
            "ConcQueue.tla models emptyQueue() as two separate reads and records which enqueues had finished when the call began; TLC checks the "
            "implication on all interleavings (and finds the window when the reads are swapped). Observer scenarios run on the real EventQueue with "
            "a scheduling point before and after every atomic operation and at the unlocked list read; TraceCQ.tla demands that a true result (or a "
            "time-out with no DisableQueueNotify) implies complete consumption of everything enqueued before the call began. The single-threaded "
            "form (observer is a listener) is decided by C05's cover through TraceDQ.tla. The scenarios include processing calls of two threads that "
            "overlap without nesting, DisableQueueNotify objects of two threads coming and going before an enqueue and a waitFor (the counter must count the "
            "objects: defect dqn_dec_split), and run on HeterEventQueue as well.",
            "TLA+ model checking (TLC) + systematic schedule exploration of the real code + TLC trace validation"),
    "C20": (MC, "7/C20", "seq",
            "The implementation-shaped models carry the configuration hazards as explicit nondeterminism / defects (argument evaluation order and "
            "implicit move in the dispatch path, indeterminate counters of copied queues) and TLC shows the properties hold only without them. "
            "The covers of C02 (lists, plus the wrapping-counter cover of C19), C04 (dispatch), C05 (queue) and C10 (objects in pre-filled storage) are replayed in cells of {g++, clang++} "
            "x {C++11,14,17,20} x {-O0,-O2} x Threading x Map x key type x storage pattern (quick: 4 seeded cells per group, thorough: all 16); "
            "every trace must be accepted by the same abstract spec AND the observable traces of one script set must be byte-identical across "
            "the cells of a group (ledger counters excluded).",
            "TLA+ model checking (TLC) + cover replay across a compiler/standard/optimisation/policy matrix + TLC trace validation + cross-cell trace equality"),
}

NOT_YET = "check not built yet in this round (see DESIGN.md section 11 for the build order); no claim is made"
ALL = ["C%02d" % i for i in range(1, 21)]

NOTE = ("Trusted base: TLC 1.8.0 + CommunityModules, g++ 12/clang 14 with ASan/UBSan, the script interpreters under harness/ (they record, they do "
        "not judge), sequential consistency. Bounds are stated in each evidence file (models[].constants).")


def main():
    src = subprocess.run(["git", "-C", "/repo", "log", "--format=%H %s"], capture_output=True, text=True).stdout.splitlines()
    hooks = [l.split()[0] for l in src if l.split(" ", 1)[1].startswith("verif hook")]
    m = {
        "version": 1,
        "setup_cmd": "./check setup",
        "hooks": {
            "guard": "EVENTPP_VERIF",
            "enable": "harness sources are compiled with -DEVENTPP_VERIF -I/verif/harness -I/repo/include (header-only library; no separate build of /repo)",
            "baseline_off_cmd": "./check baseline-off",
            "source_commits": hooks,
            "add_only": True,
        },
        "engines": [
            {"name": "seq", "path": "lib/seqengine.py", "serves_properties": sorted(k for k, v in CHECKS.items() if v[2] == "seq"),
             "kind_free_text": "TLC model checking of implementation-shaped TLA+ specs, transition-cover scripts replayed on the real headers, TLC trace validation against abstract specs"},
            {"name": "conc", "path": "lib/concengine.py", "serves_properties": sorted(k for k, v in CHECKS.items() if v[2] == "conc"),
             "kind_free_text": "TLC model checking of threads x micro-steps TLA+ models, controlled-scheduler exploration of the real code (dfs with preemption bound, random, TLC counterexample replay), TLC trace validation against the abstract concurrent oracle"},
        ],
        "checks": [],
        "not_applicable": [],
        "notes": NOTE,
    }
    for pid in ALL:
        if pid in CHECKS:
            level, ref, engine, text, tech = CHECKS[pid]
            m["checks"].append({
                "property_id": pid,
                "quick_cmd": "./check %s quick" % pid,
                "thorough_cmd": "./check %s thorough" % pid,
                "evidence_file": "evidence/%s.json" % pid,
                "replay_cmd_template": "./check replay {path}",
                "engine": engine,
                "level_claimed": {"category": level, "text": text, "design_ref": ref},
                "level_note": NOTE,
                "technique": tech,
            })
        else:
            m["not_applicable"].append({"property_id": pid, "reason": NOT_YET})
    with open(os.path.join(VERIF, "MANIFEST.json"), "w") as f:
        json.dump(m, f, indent=1)
        f.write("\n")


if __name__ == "__main__":
    main()
