# Plans for whole-object operations: C10 (copy / move / swap) and C08 (lifetime ledger), DESIGN.md section 7.
from core import *
import props_cl

OINV = ["Ok", "Independent", "FreshQueue"]
QOPS = {"al", "rl", "af", "dp", "nq", "pa", "eq", "cc", "mc", "ca", "ma", "sw", "de"}
RH = {"rh"}      # removal through the handle kept from the addition (also probed by every script's epilogue)


def oconsts(objs=2, cbs=2, enq=1, filters=1, ops=QOPS, defects=()):
    return {"MaxObjs": objs, "MaxCbs": cbs, "MaxEnq": enq, "MaxFilters": filters, "Ops": set(ops), "Defects": set(defects)}


def oworld(name, kind, threading=1, fill="0xAB", fraction=1.0, compiler="g++", std="c++11", opt="-O1", only_tags=None, sanitize=True):
    w = {"name": name, "source": "obj_interp.cpp", "defines": ["W_KIND=%d" % kind, "W_THREADING=%d" % threading, "W_FILL=%s" % fill],
         "fraction": fraction, "compiler": compiler, "std": std, "opt": opt, "sanitize": sanitize, "trace_env": {"HETER": "1" if kind >= 2 else "0"}}
    if only_tags:
        w["only_tags"] = only_tags
    return w


ASSUME = ["TLC and the CommunityModules JSON reader are correct", "harness/obj_interp.cpp records what the real classes did (it contains no expected values)",
          "callbacks change nothing in these histories (re-entrancy of copies is covered by the two-list configuration of CLImpl in the same check)",
          "MixinHeterFilter cannot be instantiated over HeterEventQueue (PrototypeList is private there), so the heterogeneous queue world has no filters"]


def c10_objgen(tier, seed):
    quick = tier == "quick"
    q = {"module": "ObjGen", "tag": "queue", "invariants": OINV, "constants": oconsts(objs=2 if quick else 3, cbs=2, enq=1, filters=1, ops=QOPS)}
    qwf = {"module": "ObjGen", "tag": "queue-wf", "invariants": OINV, "constants": oconsts(objs=2, cbs=1, enq=1, filters=0, ops={"al", "nq", "pa", "eq", "wf", "cc", "mc", "ca", "ma", "sw"})}
    qnf = {"module": "ObjGen", "tag": "queue-nofilter", "invariants": OINV, "constants": oconsts(objs=2 if quick else 3, cbs=2 if quick else 3, enq=1, filters=0, ops=(QOPS | RH) - {"af"} if quick else QOPS - {"af"})}
    d = {"module": "ObjGen", "tag": "disp", "invariants": OINV, "constants": oconsts(objs=2 if quick else 3, cbs=3, enq=0, filters=1, ops={"al", "rl", "af", "dp", "cc", "mc", "ca", "ma", "sw", "de"})}
    # thorough: kept handles as generated operations too (two objects, three callbacks)
    dh = {"module": "ObjGen", "tag": "disp-handles", "invariants": OINV, "constants": oconsts(objs=2, cbs=3, enq=0, filters=1, ops={"al", "rl", "rh", "af", "dp", "cc", "mc", "ca", "ma", "sw", "de"})}
    worlds = [oworld("o_queue_single_ab", 0, threading=0, fill="0xAB", only_tags=["queue"]),
              oworld("o_queue_multi_ff", 0, threading=1, fill="0xFF", only_tags=["queue", "queue-wf"], fraction=0.3, std="c++17"),
              oworld("o_disp_spin_00", 1, threading=2, fill="0x00", only_tags=["disp"], fraction=0.5),
              oworld("o_hqueue_multi_ab", 2, threading=1, fill="0xAB", only_tags=["queue-nofilter", "queue-wf"], std="c++14"),
              oworld("o_hdisp_single_a5", 3, threading=0, fill="0xA5", only_tags=["disp"], fraction=0.5),
              oworld("o_queue_multi_clang20", 0, threading=1, fill="0xAB", only_tags=["queue-wf"], compiler="clang++", std="c++20", opt="-O2"),
              # tracked mutexes / atomics / condition variable: every one of them constructed exactly once, destroyed exactly once, never used afterwards
              oworld("o_queue_tracked_ff", 0, threading=3, fill="0xFF", only_tags=["queue", "queue-wf"], fraction=0.3),
              oworld("o_hqueue_tracked_a5", 2, threading=3, fill="0xA5", only_tags=["queue-nofilter", "queue-wf"], fraction=0.3),
              oworld("o_disp_tracked_ab", 1, threading=3, fill="0xAB", only_tags=["disp"], fraction=0.3)]
    for w in worlds:
        if "disp" in w.get("only_tags", []):
            w["only_tags"] = w["only_tags"] + ["disp-handles"]
    return ([q, qwf, qnf, d] if quick else [q, qwf, qnf, d, dh]), worlds
