#!/usr/bin/env python3
# usage: mk_seed_prompt.py <Cxx> <worktree-name> [avoid-text-file]  -- creates a scratch worktree /tmp/seedwt/<name> of /repo and prints the prompt for a fresh sub-agent
import json, os, subprocess, sys
pid, name = sys.argv[1], sys.argv[2]
wt = "/tmp/seedwt/" + name
os.makedirs("/tmp/seedwt", exist_ok=True)
if not os.path.exists(wt):
    subprocess.check_call(["git", "-C", "/repo", "worktree", "add", "--detach", wt, "HEAD", "-q"])
here = os.path.dirname(os.path.abspath(__file__))
p = [json.loads(l) for l in open(os.path.join(here, "..", "properties.jsonl")) if json.loads(l)["id"] == pid][0]
t = open(os.path.join(here, "agent_prompt.txt")).read()
t = t.replace("__WT__", wt).replace("__ID__", pid).replace("__TITLE__", p["title"]).replace("__STATEMENT__", p["statement"]).replace("__QUANT__", p["quantifier"]["text"])
t += "\n\nFiles the property is anchored in (the change should be in one of them, any of them is fair game): " + ", ".join(p.get("anchors", {}).get("files", []))
if len(sys.argv) > 3:
    t += "\n\nIdeas that were already used by others for this property (pick something DIFFERENT, in a different function or mechanism if possible):\n" + open(sys.argv[3]).read()
print(t)
