# Shared machinery for the eventpp verification driver (see DESIGN.md sections 4 and 9).
import hashlib, json, os, re, shutil, subprocess, sys, time, glob

VERIF = os.path.dirname(os.path.dirname(os.path.abspath(__file__)))
REPO = os.environ.get("VERIF_REPO", "/repo")
CACHE = os.path.join(VERIF, ".cache")
SPEC = os.path.join(VERIF, "spec")
HARNESS = os.path.join(VERIF, "harness")
OUT = os.path.join(VERIF, "out")
# evidence describes /repo; a run against a scratch copy (VERIF_REPO: seeded changes, reverted fixes) writes elsewhere
EVID = os.path.join(VERIF, "evidence") if os.path.realpath(os.environ.get("VERIF_REPO", "/repo")) == "/repo" else os.path.join(VERIF, "out", "evidence-scratch")
NCPU = os.cpu_count() or 4
TLA_CP = "/opt/veriftools/tla/tla2tools.jar:/opt/veriftools/tla/CommunityModules-deps.jar"


class MachineryError(Exception):
    """Something in the verification machinery itself failed (exit 2, never a VIOLATION)."""


def log(*a):
    print("[check]", *a, file=sys.stderr, flush=True)


def sh(cmd, timeout=None, env=None, cwd=None, stdout=subprocess.PIPE, stderr=subprocess.STDOUT, text=True):
    e = dict(os.environ)
    if env:
        e.update(env)
    return subprocess.run(cmd, timeout=timeout, env=e, cwd=cwd, stdout=stdout, stderr=stderr, text=text)


# ---------------------------------------------------------------- hashing / build cache
def _hash_files(paths):
    h = hashlib.sha256()
    for p in sorted(paths):
        h.update(p.encode())
        with open(p, "rb") as f:
            h.update(f.read())
    return h


def repo_include_files():
    res = []
    for root, _, files in os.walk(os.path.join(REPO, "include")):
        for f in files:
            res.append(os.path.join(root, f))
    return res


_repo_hash = None


def repo_hash():
    global _repo_hash
    if _repo_hash is None:
        _repo_hash = _hash_files(repo_include_files()).hexdigest()[:16]
    return _repo_hash


def harness_files():
    res = []
    for root, _, files in os.walk(HARNESS):
        for f in files:
            if f.endswith((".h", ".cpp", ".hpp")):
                res.append(os.path.join(root, f))
    return res


BASE_FLAGS = ["-DEVENTPP_VERIF", "-I" + HARNESS, "-I" + os.path.join(REPO, "include"), "-pthread", "-g", "-fno-omit-frame-pointer"]
SAN_FLAGS = ["-fsanitize=address,undefined", "-fno-sanitize-recover=undefined"]


def build(source, defines=(), compiler="g++", std="c++11", opt="-O1", sanitize=True, extra=(), name=None):
    """Compile harness/<source> against /repo's current headers; cached by content hash."""
    src = os.path.join(HARNESS, source)
    san = ["-fsanitize=thread"] if sanitize == "thread" else (SAN_FLAGS if sanitize else [])
    flags = [compiler, "-std=" + std, opt] + BASE_FLAGS + san + ["-D" + d for d in defines] + list(extra)
    h = _hash_files(harness_files())
    h.update(repo_hash().encode())
    h.update(" ".join(flags).encode())
    key = h.hexdigest()[:20]
    bdir = os.path.join(CACHE, "bin")
    os.makedirs(bdir, exist_ok=True)
    base = name or os.path.splitext(os.path.basename(source))[0]
    exe = os.path.join(bdir, "%s-%s" % (base, key))
    if os.path.exists(exe):
        return exe
    t0 = time.time()
    tmp = exe + ".tmp%d" % os.getpid()
    r = sh(flags + [src, "-o", tmp], timeout=900)
    if r.returncode != 0:
        raise MachineryError("harness build failed (%s):\n%s" % (" ".join(flags + [src]), r.stdout[-6000:]))
    os.replace(tmp, exe)
    log("built %s in %.1fs" % (os.path.basename(exe), time.time() - t0))
    return exe


def build_many(jobs):
    """jobs: list of kwargs for build(); compile in parallel, return list of exes."""
    from concurrent.futures import ThreadPoolExecutor
    with ThreadPoolExecutor(max_workers=min(NCPU, max(1, len(jobs)))) as ex:
        futs = [ex.submit(build, **j) for j in jobs]
        return [f.result() for f in futs]


def prune_cache(keep_days=2):
    bdir = os.path.join(CACHE, "bin")
    if not os.path.isdir(bdir):
        return
    now = time.time()
    for f in os.listdir(bdir):
        p = os.path.join(bdir, f)
        try:
            if now - os.path.getatime(p) > keep_days * 86400:
                os.remove(p)
        except OSError:
            pass


# ---------------------------------------------------------------- TLC
class TlcResult:
    def __init__(self, rc, out, wall):
        self.rc, self.out, self.wall = rc, out, wall
        m = re.search(r"(\d+) states generated, (\d+) distinct states found", out)
        self.generated = int(m.group(1)) if m else 0
        self.distinct = int(m.group(2)) if m else 0
        m = re.search(r"The depth of the complete state graph search is (\d+)", out)
        self.depth = int(m.group(1)) if m else 0

    @property
    def ok(self):
        return self.rc == 0

    def violated_invariant(self):
        m = re.search(r"Invariant (\S+) is violated", self.out) or re.search(r"Temporal property (\S+) was violated", self.out)
        return m.group(1) if m else None


_run_seq = [0]


def scratch(tag):
    _run_seq[0] += 1
    d = os.path.join(CACHE, "run", "%s-%d-%d" % (tag, os.getpid(), _run_seq[0]))
    shutil.rmtree(d, ignore_errors=True)
    os.makedirs(d)
    return d


def apalache(module, init, inv, length, workdir, timeout=600):
    """One Apalache bounded check of spec/<module>.tla (used for inductive invariants: base step and induction step). Returns (ok, output)."""
    out = os.path.join(workdir, "apalache-%s-%s-%s" % (module, init, inv))
    os.makedirs(out, exist_ok=True)
    cmd = ["apalache-mc", "check", "--init=" + init, "--inv=" + inv, "--length=%d" % length, "--out-dir=" + out, os.path.join(SPEC, module + ".tla")]
    try:
        p = subprocess.run(cmd, cwd=out, capture_output=True, text=True, timeout=timeout)
    except subprocess.TimeoutExpired:
        raise MachineryError("apalache-mc timed out on %s (%s => %s)" % (module, init, inv))
    txt = p.stdout + p.stderr
    shutil.rmtree(out, ignore_errors=True)
    if "EXITCODE: OK" in txt:
        return True, txt
    if "EXITCODE: ERROR (12)" in txt or "violation" in txt.lower():
        return False, txt
    raise MachineryError("apalache-mc failed on %s:\n%s" % (module, txt[-2000:]))


def tlc(module, cfg, workdir, workers=NCPU, env=None, timeout=1800, heap="8g", extra=(), stdout_file=None, dfs=False, simulate=None):
    """Run TLC on spec/<module>.tla with config text `cfg` (a string) inside workdir."""
    cfgp = os.path.join(workdir, module + ".cfg")
    with open(cfgp, "w") as f:
        f.write(cfg)
    meta = os.path.join(workdir, "meta")
    jopts = ["-XX:+UseSerialGC" if workers == 1 else "-XX:+UseParallelGC", "-Xmx" + heap, "-XX:TieredStopAtLevel=4"]
    if dfs:
        jopts.append("-Dtlc2.tool.queue.IStateQueue=StateDeque")
    cmd = ["java"] + jopts + ["-cp", TLA_CP, "tlc2.TLC", "-workers", str(workers), "-metadir", meta,
                              "-config", cfgp, "-noGenerateSpecTE"] + list(extra)
    if simulate:
        cmd += ["-simulate", simulate]
    cmd += [os.path.join(SPEC, module + ".tla")]
    t0 = time.time()
    e = dict(os.environ)
    if env:
        e.update({k: str(v) for k, v in env.items()})
    if stdout_file:
        with open(stdout_file, "w") as fo:
            try:
                p = subprocess.run(cmd, cwd=SPEC, env=e, stdout=fo, stderr=subprocess.STDOUT, timeout=timeout)
                rc = p.returncode
            except subprocess.TimeoutExpired:
                raise MachineryError("TLC timed out after %ss on %s" % (timeout, module))
        # only the non-script lines are kept in memory
        keep = []
        with open(stdout_file) as fi:
            for line in fi:
                if not line.startswith('"['):
                    keep.append(line)
        out = "".join(keep)
    else:
        try:
            p = subprocess.run(cmd, cwd=SPEC, env=e, stdout=subprocess.PIPE, stderr=subprocess.STDOUT, text=True, timeout=timeout)
        except subprocess.TimeoutExpired:
            raise MachineryError("TLC timed out after %ss on %s" % (timeout, module))
        rc, out = p.returncode, p.stdout
    shutil.rmtree(meta, ignore_errors=True)
    return TlcResult(rc, out, time.time() - t0)


def sany(module):
    r = sh(["java", "-cp", TLA_CP, "tla2sany.SANY", os.path.join(SPEC, module + ".tla")], cwd=SPEC, timeout=120)
    return r.returncode == 0 and "Semantic errors" not in r.stdout and "Parsing or semantic analysis failed" not in r.stdout, r.stdout


def cfg_text(constants, invariants=(), init="Init", next_="Next", view=None, action_constraints=(), constraints=(),
             postcondition=None, deadlock=False, properties=(), specification=None):
    lines = []
    if specification:
        lines.append("SPECIFICATION " + specification)
    else:
        lines += ["INIT " + init, "NEXT " + next_]
    if constants:
        lines.append("CONSTANTS")
        for k, v in constants.items():
            lines.append("  %s = %s" % (k, tla_value(v)))
    for i in invariants:
        lines.append("INVARIANT " + i)
    for p in properties:
        lines.append("PROPERTY " + p)
    if view:
        lines.append("VIEW " + view)
    for a in action_constraints:
        lines.append("ACTION_CONSTRAINT " + a)
    for c in constraints:
        lines.append("CONSTRAINT " + c)
    if postcondition:
        lines.append("POSTCONDITION " + postcondition)
    lines.append("CHECK_DEADLOCK " + ("TRUE" if deadlock else "FALSE"))
    return "\n".join(lines) + "\n"


def tla_value(v):
    if isinstance(v, bool):
        return "TRUE" if v else "FALSE"
    if isinstance(v, int):
        return str(v)
    if isinstance(v, str):
        return '"%s"' % v
    if isinstance(v, (set, frozenset)):
        return "{" + ", ".join(sorted(tla_value(x) for x in v)) + "}"
    if isinstance(v, (list, tuple)):
        return "<<" + ", ".join(tla_value(x) for x in v) + ">>"
    raise ValueError(v)


# ---------------------------------------------------------------- known findings / reporting
def known_findings():
    res = []
    p = os.path.join(VERIF, "known_findings.txt")
    if os.path.exists(p):
        for line in open(p):
            line = line.strip()
            if line.startswith("finding:"):
                m = re.match(r"finding:\s+property=(\S+)\s+key=(\S+)\s*(.*)", line)
                if m:
                    res.append({"property": m.group(1), "key": m.group(2), "text": m.group(3)})
    return res


def write_replay(pid, obj):
    d = os.path.join(OUT, pid)
    os.makedirs(d, exist_ok=True)
    n = len(os.listdir(d)) + 1
    p = os.path.join(d, "%03d.json" % n)
    with open(p, "w") as f:
        json.dump(obj, f, indent=1)
    return p


def write_evidence(pid, tier, seed, level, coverage, wall, violations=0, assumptions=()):
    # evidence describes /repo; a run against a scratch copy (VERIF_REPO: seeded changes, reverted fixes) leaves it alone
    evid = EVID
    os.makedirs(evid, exist_ok=True)
    ev = {"property_id": pid, "tier": tier, "seed": int(seed), "level": level, "coverage": coverage,
          "assumptions": list(assumptions), "wall_s": round(wall, 2), "violations": int(violations)}
    p = os.path.join(evid, pid + ".json")
    tmp = p + ".tmp"
    with open(tmp, "w") as f:
        json.dump(ev, f, indent=1)
    os.replace(tmp, p)
    return p
