# Plan for C18: AnyId keys are coherent (include/eventpp/utilities/anyid.h), DESIGN.md section 7.
from core import *

AINV = ["EqEquivalence", "LtStrictWeak", "EqSameHash", "MapsFind", "Collisions"]


def aconsts(hascmp, vals=range(9), types=(0, 1, 2), defects=()):
    return {"HasCmp": bool(hascmp), "Vals": set(vals), "Types": set(types), "Defects": set(defects)}


def aworld(name, storage, spread=0, fraction=1.0, compiler="g++", std="c++11", opt="-O1", sanitize=True, typedig=0):
    return {"name": name, "source": "anyid_run.cpp", "defines": ["W_STORAGE=%d" % storage, "W_SPREAD=%d" % spread, "W_TYPEDIG=%d" % typedig],
            "fraction": fraction, "compiler": compiler, "std": std, "opt": opt, "sanitize": sanitize,
            "trace_env": {"HASCMP": "1" if storage else "0", "TYPEDIG": str(typedig)}}


ASSUME = ["TLC and the CommunityModules JSON reader are correct",
          "harness/anyid_run.cpp records what the real operators, std::hash and dispatchers did (it contains no expected values)",
          "size_t is 64 bits wide; 'arbitrary values of arbitrary types' is sampled by the 9 values 0..8 as int, long and std::string, three values "
          "per digest, with three sets of real digest values (spread, extremes, high-half-only)",
          "Storage types sampled: eventpp::EmptyAnyStorage (neither == nor <) and a value-storing struct with both (ascending / descending by value); "
          "a Storage with only one of the two operators is outside the property",
          "the laws involve at most three ids, so all triples decide them for the sampled universe"]


def c18(tier, seed):
    quick = tier == "quick"
    models = [{"module": "AnyId", "tag": "cmp", "invariants": AINV, "constants": aconsts(True)},
              {"module": "AnyId", "tag": "nocmp", "role": "check", "invariants": AINV, "constants": aconsts(False)}]
    fq = 0.25 if quick else 1.0
    worlds = [aworld("a_val_spread", 1, 0),
              aworld("a_empty_spread", 0, 0),
              aworld("a_valdesc_extremes", 2, 1, fraction=fq),
              aworld("a_val_typedigest", 1, 0, fraction=fq * 2, typedig=1),       # one value under two digests (digest depends on the C++ type)
              aworld("a_empty_typedigest", 0, 1, fraction=fq, typedig=1),
              aworld("a_empty_high32", 0, 2, fraction=fq)]
    if not quick:
        worlds += [aworld("a_val_high32_clang17", 1, 2, compiler="clang++", std="c++17", opt="-O2"),
                   aworld("a_empty_extremes_gxx20", 0, 1, std="c++20", opt="-O2")]
    small = dict(vals=(0, 1, 3, 8), types=(0, 2))
    return {"interp": "harness/anyid_run.cpp", "trace_module": "TraceAnyId", "models": models, "worlds": worlds,
            "defects": [{"module": "AnyId", "constants": aconsts(True, **small), "invariants": AINV, "defect": "eqnoval"},
                        {"module": "AnyId", "constants": aconsts(True, **small), "invariants": AINV, "defect": "signed"},
                        {"module": "AnyId", "constants": aconsts(False, **small), "invariants": AINV, "defect": "hashval"}],
            "nontrivial_key": "digest_collisions",
            "rule": "TLC checks the laws (== equivalence; < strict weak ordering with incomparability = ==; == implies equal hash; std::map / "
                    "std::unordered_map lookup finds exactly the == ids; collisions distinct with a comparing Storage, merged without) on the reference "
                    "operators of AnyId.tla over all 27 records [digest 0..2, value 0..8] for HasCmp TRUE and FALSE; every transition of the generator = "
                    "one ordered triple of (value 0..8, C++ type int/long/std::string) probes (27^3 = 19683), replayed on eventpp::AnyId with a Digester "
                    "mapping value/3 to widely spread 64-bit digests: all 9 ordered pairs of ==, <, hash equality, then one listener per id in an "
                    "EventDispatcher over std::map and one over std::unordered_map and a dispatch of each id; TraceAnyId.tla requires == to be the "
                    "reference Eq, < to satisfy the strict-weak-order laws against Eq on the triple, Eq ids to hash equally, and every dispatch to run "
                    "exactly the listeners registered under an Eq id; non-trivial = the triple contains two different values with the same digest",
            "assumptions": ASSUME}


PLANS = {"C18": c18}
