# Generic "plan" runner for the sequential engine: a property check = models (TLC) + worlds (real builds) + oracle.
import json, os, shutil, time
from core import *
import seqengine as se


MAX_SCRIPTS_PER_WORLD = 1500000

def finding_key(pid, rej):
    # identifies a failing history independently of run-time details
    import hashlib
    return hashlib.sha1(((rej.get("script") or "") + "|" + rej.get("world", "")).encode()).hexdigest()[:12]


def run_composite(pid, tier, seed, plans):
    """Several plans (different interpreters / trace specs) decide one property: run each, merge the evidence."""
    t0 = time.time()
    rc = 0
    parts = []
    for i, plan in enumerate(plans):
        r = run_plan(pid, tier, seed, plan, evidence_name="%s.part%d" % (pid, i))
        rc = max(rc, r)
        ep = os.path.join(EVID, "%s.part%d.json" % (pid, i))
        parts.append(json.load(open(ep)))
        os.remove(ep)
    cov = {"states": 0, "transitions": 0, "traces_validated_against_impl": 0, "evaluations": 0, "distinct_nontrivial": 0, "rule": "", "samples": [],
           "exhaustive": True, "models": [], "worlds": [], "defect_sensitivity": [], "parts": []}
    for e in parts:
        c = e["coverage"]
        for k in ("states", "transitions", "traces_validated_against_impl", "evaluations", "distinct_nontrivial"):
            cov[k] += c.get(k, 0)
        cov["rule"] += (" || " if cov["rule"] else "") + c["rule"]
        cov["samples"] += c["samples"][:3]
        cov["exhaustive"] = cov["exhaustive"] and c.get("exhaustive", False)
        for k in ("models", "worlds", "defect_sensitivity"):
            cov[k] += c.get(k, [])
        for k, v in c.get("interp_stats", {}).items():
            cov.setdefault("interp_stats", {})
            cov["interp_stats"][k] = cov["interp_stats"].get(k, 0) + v
        cov["repo_include_hash"] = c.get("repo_include_hash")
        for k in ("cross_configuration_groups_compared", "cross_configuration_differences"):
            cov[k] = cov.get(k, 0) + c.get(k, 0)
    assumptions = []
    for e in parts:
        for a in e.get("assumptions", []):
            if a not in assumptions:
                assumptions.append(a)
    write_evidence(pid, tier, seed, parts[0]["level"], cov, time.time() - t0, sum(e.get("violations", 0) for e in parts), assumptions)
    return rc


def run_plan(pid, tier, seed, plan, evidence_name=None):
    """plan keys: level, models[], worlds[], interp, trace_module, rule, assumptions, defects[], reset_event"""
    t0 = time.time()
    wd = scratch(pid)
    states = transitions = 0
    model_notes = []
    script_sets = []   # (tag, file, n)
    try:
        # 1. the specification side: model-check the implementation-shaped spec, emit the transition cover
        for m in plan["models"]:
            role = m.get("role", "cover")
            if role == "cover":
                res, scripts, n = se.emit_cover(m["module"], m["constants"], m["invariants"], wd, m["tag"], heap=m.get("heap", "8g"),
                                                extra_constraints=m.get("constraints", ()))
                if m.get("last_ops"):
                    scripts, n = se.filter_last_op(scripts, m["last_ops"])
                script_sets.append((m["tag"], scripts, n, m.get("fraction", 1.0)))
            elif role == "simulate":
                res, scripts, n = se.emit_cover(m["module"], m["constants"], m["invariants"], wd, m["tag"], simulate=m["simulate"] % {"seed": seed},
                                                workers=m.get("workers", 4), timeout=m.get("timeout", 600), simdepth=m.get("simdepth", 30))
                if res.violated_invariant():
                    raise MachineryError("model %s violates %s in simulation:\n%s" % (m["module"], res.violated_invariant(), res.out[-3000:]))
                script_sets.append((m["tag"], scripts, n, m.get("fraction", 1.0)))
            else:
                res = se.model_check(m["module"], m["constants"], m["invariants"], wd, heap=m.get("heap", "8g"), constraints=m.get("constraints", ()))
                if not res.ok:
                    raise MachineryError("model %s (%s) failed under TLC: rc=%d\n%s" % (m["module"], m["tag"], res.rc, res.out[-3000:]))
                n = 0
            states += res.distinct
            transitions += res.generated
            model_notes.append({"model": m["module"], "config": m["tag"], "role": role, "constants": {k: (sorted(v) if isinstance(v, (set, frozenset)) else v) for k, v in m["constants"].items()},
                                "distinct_states": res.distinct, "transitions": res.generated, "scripts": n, "tlc_wall_s": round(res.wall, 1)})
            log("%s model %s/%s: %d states, %d transitions, %d scripts (%.1fs)" % (pid, m["module"], m["tag"], res.distinct, res.generated, n, res.wall))
        # 2. sensitivity of the model itself: each named defect must make TLC fail
        defect_notes = []
        for d in plan.get("defects", []):
            inv = se.expect_defect(d["module"], d["constants"], d["invariants"], wd, d["defect"])
            defect_notes.append({"defect": d["defect"], "violates": inv})
            log("%s model %s with defect %s violates %s" % (pid, d["module"], d["defect"], inv))
            if not inv:
                raise MachineryError("model %s does not notice defect %s (vacuous model?)" % (d["module"], d["defect"]))
        # 3. the code side: build every world against /repo's current headers
        worlds = plan["worlds"](tier, seed) if callable(plan["worlds"]) else plan["worlds"]
        exes = build_many([dict(source=w["source"], defines=w.get("defines", ()), compiler=w.get("compiler", "g++"), std=w.get("std", "c++11"),
                                opt=w.get("opt", "-O1"), sanitize=w.get("sanitize", True), name=w["name"]) for w in worlds])
        # 4. replay and validate: all (world, script set, chunk) tasks share one pool
        total_exec = total_events = 0
        rejections = []
        stats = {}
        samples = []
        world_notes = []
        tasks = []
        exe_of = {}
        capped = []
        for wi, (w, exe) in enumerate(zip(worlds, exes)):
            exe_of[w["name"]] = (exe, w)
            for tag, scripts, n, mfrac in script_sets:
                if w.get("only_tags") and tag not in w["only_tags"]:
                    continue
                frac = w.get("fraction", 1.0) * mfrac
                # a cap per (world, script set): the thorough covers reach tens of millions of scripts, which no world can replay in hours;
                # beyond the cap the set is sampled (seeded), and the evidence says so (exhaustive = false, scripts run < scripts generated)
                cap = plan.get("max_scripts_per_world", MAX_SCRIPTS_PER_WORLD)
                if n * frac > cap:
                    frac = cap / float(n)
                    capped.append("%s/%s" % (w["name"], tag))
                use = scripts
                nuse = n
                if w.get("without_ops"):      # operations this world's types do not have (peekEvent needs copyable arguments): scripts using them are left out
                    keep = os.path.join(wd, "%s.%s.kept" % (w["name"], tag))
                    pats = ['\\"%s\\"' % o for o in w["without_ops"]] + ['"%s"' % o for o in w["without_ops"]]
                    nuse = 0
                    with open(use) as fi, open(keep, "w") as fo:
                        for line in fi:
                            if not any(pt in line for pt in pats):
                                fo.write(line)
                                nuse += 1
                    use = keep
                    n = nuse
                    if nuse == 0:
                        continue
                if frac < 1.0:
                    src = use
                    use = os.path.join(wd, "%s.%s.sample" % (w["name"], tag))
                    nuse = se.sample_file(src, n, max(1, int(n * frac)), w.get("sample_seed", seed * 7919 + wi), use)
                tasks += se.make_tasks(exe, w["name"], use, nuse, plan["trace_module"], wd, "%s-%s" % (w["name"], tag),
                                       interp_args=w.get("args", ()), reset_event=plan.get("reset_event", '"e":"rs"'), max_rej=1,
                                       trace_env=w.get("trace_env"))
        results = se.run_tasks(tasks)
        per_world = {}
        by_set = {}    # script set -> world -> [executions, stats]; distinct scripts are counted once: from the world that ran most of the set
        for r in results:
            exe, w = exe_of[r["world"]]
            pw = per_world.setdefault(r["world"], [0, 0])
            pw[0] += r["executions"]
            pw[1] += r["events"]
            for rej in r["rejections"]:
                rej["exe"] = exe
                rej["interp_args"] = list(w.get("args", ()))
                rej["trace_env"] = w.get("trace_env")
            rejections += r["rejections"]
            settag = r["tag"][len(r["world"]) + 1:]
            slot = by_set.setdefault(settag, {}).setdefault(r["world"], [0, {}])
            slot[0] += r["executions"]
            for k, v in r["stats"].items():
                slot[1][k] = slot[1].get(k, 0) + v
            if r["sample"] and len(samples) < 1:
                samples.append({"world": r["world"], "first_events_of_trace": r["sample"]})
        for settag, ws in by_set.items():
            best = max(ws.values(), key=lambda x: x[0])
            for k, v in best[1].items():
                stats[k] = stats.get(k, 0) + v
        # configuration independence (C20): worlds of one equivalence group ran the same scripts and must have produced identical traces
        groups = {}
        for r in results:
            exe, w = exe_of[r["world"]]
            if w.get("equiv_group") and not r["rejections"]:
                groups.setdefault((w["equiv_group"], r["tag"][len(r["world"]) + 1:], r["idx"]), []).append((r["world"], r["digest"]))
        cross = []
        for key, lst in groups.items():
            if len(set(d for _, d in lst)) > 1:
                cross.append({"group": key[0], "script_set": key[1], "chunk": key[2], "digests": lst})
        for w in worlds:
            pw = per_world.get(w["name"], [0, 0])
            world_notes.append({"world": w["name"], "executions": pw[0], "events": pw[1]})
            total_exec += pw[0]
            total_events += pw[1]
            log("%s world %s: %d executions, %d events" % (pid, w["name"], pw[0], pw[1]))
        log("%s: %d rejections" % (pid, len(rejections)))
        # 5. report
        known = [k for k in known_findings() if k["property"] == pid]
        violations = 0
        seen = set()
        extra_rejections = max(0, len(rejections) - 3)
        # a rejection is reported only if it repeats when its script runs alone; one that does not (what a script observes can depend on what earlier
        # scripts of the chunk left in memory - seed S127) is skipped as long as another one repeats; none repeating is a machinery error
        confirmed, unrepeated = 0, []
        for r in rejections[:8]:
            if confirmed >= 3:
                break
            if not se.confirm_rejection(r["exe"], r, plan["trace_module"], wd, interp_args=r.get("interp_args", ()), trace_env=r.get("trace_env")):
                unrepeated.append(r.get("script"))
                log("%s: a rejection did not repeat in isolation: %s" % (pid, r.get("script"),))
                continue
            confirmed += 1
            key = finding_key(pid, r)
            if key in seen:
                continue
            seen.add(key)
            kf = [k for k in known if k["key"] == key]
            if kf:
                print("KNOWN-FINDING: property=%s %s" % (pid, kf[0]["text"]))
                continue
            ex = r.get("execution") or []
            ln = r.get("trace_line") or 0
            replay = write_replay(pid, {"property": pid, "engine": "seq", "world": r["world"], "interp": plan["interp"], "script": r.get("script"),
                                       "trace_module": plan["trace_module"], "first_unmatched_event": ex[ln - 1] if 0 < ln <= len(ex) else None,
                                       "trace": ex, "interp_rc": r.get("interp_rc"), "interp_err": r.get("interp_err", ""), "finding_key": key})
            print("VIOLATION property=%s replay=%s" % (pid, replay))
            violations += 1
        if rejections and confirmed == 0:
            raise MachineryError("rejection did not repeat in isolation: %s" % (unrepeated[0],))
        for c in cross[:3]:
            replay = write_replay(pid, {"property": pid, "engine": "cross", "what": "worlds that differ only in compiler / standard / optimisation / threading / map / storage "
                                       "pre-fill produced different traces for the same scripts", "detail": c})
            print("VIOLATION property=%s replay=%s" % (pid, replay))
            violations += 1
        script_samples = []
        for tag, scripts, n, _ in script_sets:
            with open(scripts) as f:
                lines = f.readlines()
            for i in (len(lines) // 3, (2 * len(lines)) // 3):
                if 0 <= i < len(lines):
                    try:
                        script_samples.append({"config": tag, "script": json.loads(json.loads(lines[i]))})
                    except ValueError:
                        pass
        nontrivial = stats.get(plan.get("nontrivial_key", "nontrivial"), 0)
        cov = {"states": states, "transitions": transitions, "traces_validated_against_impl": total_exec,
               "evaluations": total_events, "distinct_nontrivial": nontrivial,
               "rule": plan["rule"], "samples": script_samples[:4] + samples[:1],
               "exhaustive": not capped and all(w.get("fraction", 1.0) >= 1.0 for w in worlds[:1]) and all(m.get("role", "cover") != "simulate" for m in plan["models"][:1]),
               "sampled_because_of_size": capped,
               "models": model_notes, "worlds": world_notes, "defect_sensitivity": defect_notes, "interp_stats": stats,
               "repo_include_hash": repo_hash(), "further_rejections_not_individually_reported": extra_rejections,
               "cross_configuration_groups_compared": len(groups), "cross_configuration_differences": len(cross)}
        write_evidence(evidence_name or pid, tier, seed, plan.get("level", "model_checking"), cov, time.time() - t0, violations, plan.get("assumptions", ()))
        if evidence_name:
            ep = os.path.join(EVID, evidence_name + ".json")
            e = json.load(open(ep)); e["property_id"] = pid; json.dump(e, open(ep, "w"), indent=1)
        return 1 if violations else 0
    finally:
        shutil.rmtree(wd, ignore_errors=True)
