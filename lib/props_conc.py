# Plans for the concurrent properties of the queue: C06, C07, C11 (DESIGN.md section 7).
from core import *

RUNNER_CQ = {"source": "cq_run.cpp", "name": "cq_run", "defines": [], "sanitize": True}


def mc_cfg(threads, scen, defects=(), invariants=("Ledger", "OnePlace", "NoLostWakeup", "NoDeadlock")):
    return ("INIT Init\nNEXT Next\nCONSTANTS Threads = {%s}\n Scenarios <- %s\n Defects = %s\n%sCHECK_DEADLOCK FALSE\n"
            % (", ".join(map(str, threads)), scen, tla_value(set(defects)), "".join("INVARIANT %s\n" % i for i in invariants)))


ASSUME = ["TLC and the CommunityModules JSON reader are correct",
          "harness/vsched.h serialises the real code at every mutex / atomic / condition-variable operation and at the EVENTPP_VERIF_POINT markers; "
          "behaviour that needs weaker-than-sequentially-consistent memory is not explored",
          "harness/cq_run.cpp records what the real EventQueue did (it contains no expected values)",
          "schedules: exhaustive up to the stated preemption bound where the evidence says dfs_exhausted_within_bound, sampled otherwise"]

CORPUS_D5 = {"module": "ConcQueueMC", "cfg": mc_cfg([1, 2], "SDqnWaiter", defects=["dqn_unlocked"]), "defect": "dqn_unlocked", "scenario": "don,nq,dof|w,pa"}
CORPUS_EO = {"module": "ConcQueueMC", "cfg": mc_cfg([1, 2, 3], "SEmptyOrder", defects=["empty_order"]), "defect": "empty_order", "scenario": "nq,pa|eq"}


def c06(tier, seed):
    quick = tier == "quick"
    sc2 = ["nq,nq|pa", "nq,nq|po,po", "nq,nq|tk,pa", "nq,nq,nq|pi,pa", "nq,nq,nq|pu,pa", "nq,nq,nq,nq|pu,pa", "nq,nq|cl,pa", "nq,nq|pk,tk", "nq,pa|nq,po", "nq,nq|pa,pa"]
    sc3 = ["nq,nq|nq|pa,pa", "nq,nq|po,po|pa", "nq,nq,nq|pi|pu", "nq,nq|tk|pa", "nq,nq|cl|po,po", "nq|nq,pa|pi,pa"]
    scen = [{"scenario": s} for s in sc2] + [{"scenario": s, "max": 2500 if quick else 80000} for s in sc3]
    models = [{"module": "ConcQueueMC", "tag": "2threads", "cfg": mc_cfg([1, 2], "Scen2")}]
    if not quick:
        models.append({"module": "ConcQueueMC", "tag": "3threads", "cfg": mc_cfg([1, 2, 3], "Scen3"), "heap": "16g"})
    return {"models": models, "runner": RUNNER_CQ, "trace_module": "TraceCQ", "scenarios": scen, "corpus": [],
            "rule": "ConcQueue.tla model-checked over all interleavings of the scenario sets; on the real EventQueue each scenario (producers x consumers "
                    "process/processOne/processIf/processUntil/takeEvent/peekEvent/clearEvents) is explored by depth-first schedule enumeration with a "
                    "preemption bound plus seeded random schedules under the controlled scheduler; every execution's API history is validated by "
                    "TraceCQ.tla (ledger, payload, per-producer order, drain, no deadlock, no unlocked structural access); non-trivial = distinct "
                    "schedules that switch threads at a decision point",
            "assumptions": ASSUME}


def c07(tier, seed):
    quick = tier == "quick"
    sc = ["w,pa|nq", "w,pa|don,nq,dof", "w,pa|don,don,nq,dof,dof", "w,pa|don,nq,nq,dof", "wf,pa|nq", "wf,pa|don,nq,dof", "w,pa|don,nq", "w|don,nq,dof,pa",
          "w,pa|nq,don,dof"]
    sc3 = ["w,pa|w,pa|nq,nq", "w,pa|nq|don,nq,dof", "w,pa|don,nq,dof|pa", "w,pa|wf,pa|don,nq,dof"]
    # an enqueue racing with the destruction of somebody else's DisableQueueNotify (needs two preemptions)
    sc3b = ["w,pa|don,dof|nq", "w,pa|don,don,dof,dof|nq,nq"]
    scen = ([{"scenario": s} for s in sc] + [{"scenario": s, "max": 2500 if quick else 80000} for s in sc3]
            + [{"scenario": s, "bound": 2, "max": 12000 if quick else 200000, "rand": 1500 if quick else 20000} for s in sc3b])
    models = [{"module": "ConcQueueMC", "tag": "wakeup", "cfg": mc_cfg([1, 2], "W2")},
              {"module": "ConcQueueMC", "tag": "2threads", "cfg": mc_cfg([1, 2], "Scen2")}]
    return {"models": models, "runner": RUNNER_CQ, "trace_module": "TraceCQ", "scenarios": scen, "corpus": [CORPUS_D5],
            "rule": "ConcQueue.tla (predicate under the mutex, atomic unlock+sleep, notify_one, DisableQueueNotify ctor/dtor steps) model-checked with the "
                    "NoLostWakeup invariant; with the D5 defect switched on TLC prints the lost wake-up schedule, which is replayed on the real code; "
                    "waiter/producer/DisableQueueNotify scenarios explored on the real EventQueue under the controlled scheduler (dfs with preemption "
                    "bound incl. the window between predicate and blocking, random); TraceCQ.tla: stuck = lost wake-up when an event is surely pending "
                    "and no DisableQueueNotify can be alive, wait returns only if the predicate could have held, waitFor false only after its time-out",
            "assumptions": ASSUME}


def c11(tier, seed):
    quick = tier == "quick"
    sc = ["nq,pa|eq", "nq,po|eq,eq", "nq,nq,pa|eq", "nq,tk|eq", "nq,cl|eq", "nq,pa|wf", "nq,po,po|eq,eq", "nq,nq,po|eq"]
    sc3 = ["nq|pa|eq", "nq,nq|po,po|eq,eq", "nq|tk|eq", "nq,pa|nq|eq"]
    scen = [{"scenario": s, "bound": 3} for s in sc] + [{"scenario": s, "bound": 2, "max": 6000 if quick else 150000} for s in sc3]
    models = [{"module": "ConcQueueMC", "tag": "2threads", "cfg": mc_cfg([1, 2], "Scen2")}]
    if not quick:
        models.append({"module": "ConcQueueMC", "tag": "3threads", "cfg": mc_cfg([1, 2, 3], "Scen3"), "heap": "16g"})
    return {"models": models, "runner": RUNNER_CQ, "trace_module": "TraceCQ", "scenarios": scen, "corpus": [CORPUS_EO],
            "rule": "ConcQueue.tla with emptyQueue as two reads and the history variable 'enqueues finished before the call began'; observer scenarios "
                    "(emptyQueue / waitFor time-out against enqueue + process/processOne/takeEvent/clearEvents) explored on the real EventQueue with "
                    "preemption at every atomic operation and unlocked read; TraceCQ.tla demands: true (or time-out with no DisableQueueNotify) implies "
                    "every event enqueued before the call began is completely consumed; the sequential form (observer = listener) is part of C05's cover",
            "assumptions": ASSUME}


PLANS = {"C06": c06, "C07": c07, "C11": c11}
