# Plans for the concurrent properties of the queue: C06, C07, C11 (DESIGN.md section 7).
from core import *

RUNNER_CQ = {"source": "cq_run.cpp", "name": "cq_run", "defines": [], "sanitize": True}
# HeterEventQueue under the controlled scheduler: its own copy of enqueue / process / processOne / processIf / clearEvents / emptyQueue / wait / waitFor
RUNNER_HQ = {"source": "cq_run.cpp", "name": "cq_run_heter", "defines": ["W_HETER=1"], "sanitize": True, "lacks": ["tk", "pk", "pu", "don", "dof"]}


def mc_cfg(threads, scen, defects=(), invariants=("Ledger", "OnePlace", "NoLostWakeup", "NoDeadlock", "ProducerOrder")):
    return ("INIT Init\nNEXT Next\nCONSTANTS Threads = {%s}\n Scenarios <- %s\n Defects = %s\n%sCHECK_DEADLOCK FALSE\n"
            % (", ".join(map(str, threads)), scen, tla_value(set(defects)), "".join("INVARIANT %s\n" % i for i in invariants)))


def live_cfg(threads, scen, defects=()):
    """liveness: weak fairness of every thread's next step; every behaviour ends quiescent with only legitimately sleeping waiters"""
    return ("SPECIFICATION FairSpec\nCONSTANTS Threads = {%s}\n Scenarios <- %s\n Defects = %s\nPROPERTY Progress\nCHECK_DEADLOCK FALSE\n"
            % (", ".join(map(str, threads)), scen, tla_value(set(defects))))


def slots_cfg(threads, scen, defects=(), maxslots=4):
    return ("INIT Init\nNEXT Next\nCONSTANTS Threads = {%s}\n Scenarios <- %s\n Defects = %s\n MaxSlots = %d\n%sCHECK_DEADLOCK FALSE\n"
            % (", ".join(map(str, threads)), scen, tla_value(set(defects)), maxslots,
               "".join("INVARIANT %s\n" % i for i in ("Ledger", "SlotOnePlace", "FreeSlotsEmpty", "QueuedSlotsFull", "EventOnePlace", "AtRest", "SlotsBounded", "NoDeadlock"))))


SLOT_DEFECTS = [{"module": "ConcSlotsMC", "cfg": slots_cfg([1, 2], sc, defects=[d]), "defect": d}
                for d, sc in (("no_recheck_free", "SFree"), ("no_recheck_queue", "SQueue"), ("recycle_wrong_mutex", "SRecycle"), ("recycle_before_clear", "SClear"))]


# EventQueue with the OrderedQueueList policy (sorting splices under contention; ordered by position in the producer's program, which keeps TraceCQ's
# per-producer order rule valid)
RUNNER_OQ = {"source": "cq_run.cpp", "name": "cq_run_ordered", "defines": ["W_ORDERED=1"], "sanitize": True, "every": 2, "trace_env": {"ORDERED": "1"}}


ASSUME = ["TLC and the CommunityModules JSON reader are correct",
          "harness/vsched.h serialises the real code at every mutex / atomic / condition-variable operation and at the EVENTPP_VERIF_POINT markers; "
          "behaviour that needs weaker-than-sequentially-consistent memory is not explored",
          "harness/cq_run.cpp records what the real EventQueue did (it contains no expected values)",
          "schedules: exhaustive up to the stated preemption bound where the evidence says dfs_exhausted_within_bound, sampled otherwise",
          "stress runs (real threads, shipped std::mutex / SpinLock, ThreadSanitizer) add what the OS scheduler happens to produce; TSan reports other than the "
          "library's documented unlocked reads (harness/tsan.supp) end the execution with a record no specification accepts"]

STRESS_CQ = [{"source": "cq_stress.cpp", "name": "cq_stress_mutex", "defines": ["W_MUTEX=0"]},
             {"source": "cq_stress.cpp", "name": "cq_stress_spin", "defines": ["W_MUTEX=1"]},
             # HeterEventQueue: its own copy of the queue logic, two prototypes interleaved in one queue
             {"source": "cq_stress.cpp", "name": "cq_stress_heter_mutex", "defines": ["W_MUTEX=0", "W_HETER=1"], "lacks": ["tk", "pk", "pu"]}]

CORPUS_D5 = {"module": "ConcQueueMC", "cfg": mc_cfg([1, 2], "SDqnWaiter", defects=["dqn_unlocked"]), "defect": "dqn_unlocked", "scenario": "don,nq,dof|w,pa"}
CORPUS_PB = {"module": "ConcQueueMC", "cfg": mc_cfg([1, 2], "SPutBack", defects=["putback_end"]), "defect": "putback_end", "scenario": "nq,nq|pi,pa"}
CORPUS_EO = {"module": "ConcQueueMC", "cfg": mc_cfg([1, 2, 3], "SEmptyOrder", defects=["empty_order"]), "defect": "empty_order", "scenario": "nq,pa|eq"}


# ---- generated scenarios: the harness explores the very scenario sets the interleaving model is checked on (ConcQueueMC.Scen2 / Scen3)
CQ_PRODUCER = ["nq", "don,nq,dof"]
CQ_CONSUMER = ["pa", "po,po", "tk,pa", "cl", "pi,pa", "pk,tk", "pu,pa"]
CQ_WAITER = ["w,pa", "wf,pa"]
CQ_OBSERVER = ["eq", "eq,eq"]
CQ_P1 = CQ_PRODUCER + ["nq,pa", "nq,nq,po", "nq,nq", "don,nq,nq,dof"]
CQ_ANY2 = CQ_CONSUMER + CQ_WAITER + CQ_OBSERVER + CQ_PRODUCER
CQ_ANY3 = CQ_CONSUMER + CQ_WAITER + CQ_OBSERVER


def cq_class(s):
    """which property's run takes a generated scenario: observers -> C11, waiting / DisableQueueNotify -> C07, the rest -> C06"""
    ops = set(op for th in s.split("|") for op in th.split(","))
    if ops & {"eq", "wf"}:
        return "C11"
    if ops & {"w", "don"}:
        return "C07"
    return "C06"


def cq_generated(pid, tier, seed, have):
    import random
    quick = tier == "quick"
    s2 = [a + "|" + b for a in CQ_P1 for b in CQ_ANY2]
    s3 = [a + "|" + b + "|" + c for a in CQ_P1 for b in CQ_ANY2 for c in CQ_ANY3]
    s2 = [s for s in s2 if cq_class(s) == pid and s not in have]
    s3 = [s for s in s3 if cq_class(s) == pid and s not in have]
    rnd = random.Random(seed * 7919 + int(pid[1:]))
    rnd.shuffle(s2)
    rnd.shuffle(s3)
    if quick:
        s2, s3 = s2[:10], s3[:8]
    else:
        s3 = s3[:120]
    return ([{"scenario": s, "max": 1500 if quick else 30000, "rand": 100 if quick else 1500, "generated": True} for s in s2]
            + [{"scenario": s, "bound": 1, "max": 1500 if quick else 30000, "rand": 150 if quick else 2000, "generated": True} for s in s3])


def c06(tier, seed):
    quick = tier == "quick"
    sc2 = ["nq,nq|pa", "nq,nq|po,po", "nq,nq|tk,pa", "nq,nq,nq|pi,pa", "nq,nq,nq|pu,pa", "nq,nq,nq,nq|pu,pa", "nq,nq|cl,pa", "nq,nq|pk,tk", "nq,pa|nq,po", "nq,nq|pa,pa"]
    sc3 = ["nq,nq|nq|pa,pa", "nq,nq|po,po|pa", "nq,nq,nq|pi|pu", "nq,nq|tk|pa", "nq,nq|cl|po,po", "nq|nq,pa|pi,pa"]
    scen = [{"scenario": s} for s in sc2] + [{"scenario": s, "max": 2500 if quick else 80000} for s in sc3]
    # slot re-use: enqueues that find recycled slots in the free list while another producer / consumer works on it (ConcSlotsMC's scenario shapes; seed S109)
    for sx in ["nq,nq,pa,nq|nq", "nq,nq,pa,nq|pa,nq", "nq,po,nq|po,nq", "nq,nq,pa,nq,nq|nq,nq"]:
        scen.append({"scenario": sx, "bound": 2, "max": 3000 if quick else 60000})
    scen += cq_generated("C06", tier, seed, set(x["scenario"] for x in scen))
    models = [{"module": "ConcQueueMC", "tag": "2threads", "cfg": mc_cfg([1, 2], "Scen2")},
              # the slot protocol ConcQueue abstracts away: queueList / freeList / private lists, double-checked pops, clear before recycle
              {"module": "ConcSlotsMC", "tag": "slots-2threads", "cfg": slots_cfg([1, 2], "S2")}]
    if not quick:
        models.append({"module": "ConcQueueMC", "tag": "3threads", "cfg": mc_cfg([1, 2, 3], "Scen3"), "heap": "16g"})
        models.append({"module": "ConcSlotsMC", "tag": "slots-3threads", "cfg": slots_cfg([1, 2, 3], "S3", maxslots=5), "heap": "24g", "timeout": 3600})
    stress_sc = [{"scenario": s} for s in ["nq,nq|pa,pa", "nq,nq,nq|pi,pa", "nq,nq|tk|po,po", "nq,nq|cl|pa", "nq,nq,nq,nq|pu,pa", "nq|nq,tk|pa,pk", "nq,nq,nq|po,pi|pa"]]
    return {"models": models, "runner": RUNNER_CQ, "trace_module": "TraceCQ", "scenarios": scen, "corpus": [CORPUS_PB], "extra_runners": [RUNNER_HQ, RUNNER_OQ], "model_defects": SLOT_DEFECTS,
            "stress_runners": STRESS_CQ, "stress_scenarios": stress_sc,
            "rule": "ConcQueue.tla and ConcSlots.tla (slot protocol) model-checked over all interleavings of their scenario sets; scenarios = regression list + seeded sample "
                    "of ConcQueueMC's sets + slot re-use shapes, run on EventQueue, HeterEventQueue and EventQueue with OrderedQueueList (sorted-batch rule); "
                    "on the real EventQueue each scenario (producers x consumers "
                    "process/processOne/processIf/processUntil/takeEvent/peekEvent/clearEvents) is explored by depth-first schedule enumeration with a "
                    "preemption bound plus seeded random schedules under the controlled scheduler; every execution's API history is validated by "
                    "TraceCQ.tla (ledger, payload, per-producer order, drain, no deadlock, no unlocked structural access); non-trivial = distinct "
                    "schedules that switch threads at a decision point",
            "assumptions": ASSUME}


def c07(tier, seed):
    quick = tier == "quick"
    sc = ["w,pa|nq", "w,pa|don,nq,dof", "w,pa|don,don,nq,dof,dof", "w,pa|don,nq,nq,dof", "wf,pa|nq", "wf,pa|don,nq,dof", "w,pa|don,nq", "w|don,nq,dof,pa",
          "w,pa|nq,don,dof"]
    sc3 = ["w,pa|w,pa|nq,nq", "w,pa|nq|don,nq,dof", "w,pa|don,nq,dof|pa", "w,pa|wf,pa|don,nq,dof"]
    # an enqueue racing with the destruction of somebody else's DisableQueueNotify (needs two preemptions)
    # ... and two threads holding overlapping (not nested) DisableQueueNotify scopes: "opened first" is not "closed last"
    sc3b = ["w,pa|don,dof|nq", "w,pa|don,don,dof,dof|nq,nq", "w,pa|don,dof|don,nq,dof"]
    scen = ([{"scenario": s} for s in sc] + [{"scenario": s, "max": 2500 if quick else 80000} for s in sc3]
            + [{"scenario": s, "bound": 2, "max": 12000 if quick else 200000, "rand": 1500 if quick else 20000} for s in sc3b])
    scen += cq_generated("C07", tier, seed, set(x["scenario"] for x in scen))
    models = [{"module": "ConcQueueMC", "tag": "wakeup", "cfg": mc_cfg([1, 2], "W2")},
              {"module": "ConcQueueMC", "tag": "2threads", "cfg": mc_cfg([1, 2], "Scen2")},
              # liveness under weak fairness (the statement's "blocked for ever"): also excludes livelock
              {"module": "ConcQueueMC", "tag": "wakeup-liveness", "cfg": live_cfg([1, 2], "W2")},
              {"module": "ConcQueueMC", "tag": "2threads-liveness", "cfg": live_cfg([1, 2], "Scen2")}]
    if not quick:
        models.append({"module": "ConcQueueMC", "tag": "wakeup3-liveness", "cfg": live_cfg([1, 2, 3], "W3"), "heap": "16g"})
    return {"models": models, "runner": RUNNER_CQ, "trace_module": "TraceCQ", "scenarios": scen, "corpus": [CORPUS_D5],
            "model_defects": [{"module": "ConcQueueMC", "cfg": live_cfg([1, 2], "SDqnWaiter", defects=["dqn_unlocked"]), "defect": "dqn_unlocked (liveness form)"}], "extra_runners": [RUNNER_HQ],
            "rule": "ConcQueue.tla (predicate under the mutex, atomic unlock+sleep, notify_one, DisableQueueNotify ctor/dtor steps) model-checked with the "
                    "NoLostWakeup invariant and, under weak fairness, the liveness property Progress; scenarios = regression list + seeded sample of ConcQueueMC's sets, "
                    "on EventQueue and (without DisableQueueNotify) HeterEventQueue; with the D5 defect switched on TLC prints the lost wake-up schedule, which is replayed on the real code; "
                    "waiter/producer/DisableQueueNotify scenarios explored on the real EventQueue under the controlled scheduler (dfs with preemption "
                    "bound incl. the window between predicate and blocking, random); TraceCQ.tla: stuck = lost wake-up when an event is surely pending "
                    "and no DisableQueueNotify can be alive, wait returns only if the predicate could have held, waitFor false only after its time-out",
            "assumptions": ASSUME}


def c11(tier, seed):
    quick = tier == "quick"
    sc = ["nq,pa|eq", "nq,po|eq,eq", "nq,nq,pa|eq", "nq,tk|eq", "nq,cl|eq", "nq,pa|wf", "nq,po,po|eq,eq", "nq,nq,po|eq", "nq,po|wf", "nq,tk|wf"]
    sc3 = ["nq|pa|eq", "nq,nq|po,po|eq,eq", "nq|tk|eq", "nq,pa|nq|eq", "nq|pa|wf"]
    # two processing calls that overlap without nesting (the one that began first ends first) while somebody asks (seed S51)
    sc += ["nq,nq,po,eq|po", "nq,pa,eq|nq,pa", "nq,nq,po,wf|po"]
    sc3 += ["nq,nq|po,eq|po", "nq,nq,nq|po|pi,eq"]
    # DisableQueueNotify objects of two threads coming and going, then an event and a waitFor that must see it: the counter must count the objects (seed S111)
    sc += ["don,dof|don,dof,nq,wf", "don,dof,nq,wf|don,dof"]
    sc3 += ["don,dof|don,dof|nq,wf"]
    scen = [{"scenario": s, "bound": 3} for s in sc] + [{"scenario": s, "bound": 2, "max": 6000 if quick else 150000} for s in sc3]
    scen += cq_generated("C11", tier, seed, set(x["scenario"] for x in scen))
    models = [{"module": "ConcQueueMC", "tag": "2threads", "cfg": mc_cfg([1, 2], "Scen2")},
              {"module": "ConcQueueMC", "tag": "waitfor-2threads", "cfg": mc_cfg([1, 2], "WF2")},
              {"module": "ConcQueueMC", "tag": "two-dqn-waitfor", "cfg": mc_cfg([1, 2], "STwoDqn")}]
    if not quick:
        models.append({"module": "ConcQueueMC", "tag": "3threads", "cfg": mc_cfg([1, 2, 3], "Scen3"), "heap": "16g"})
        models.append({"module": "ConcQueueMC", "tag": "waitfor-3threads", "cfg": mc_cfg([1, 2, 3], "WF3"), "heap": "16g"})
    stress_sc = [{"scenario": s} for s in ["nq,pa|eq,eq", "nq,nq,po,po|eq,eq", "nq|pa|eq", "nq,tk|eq"]]
    return {"models": models, "runner": RUNNER_CQ, "trace_module": "TraceCQ", "scenarios": scen, "corpus": [CORPUS_EO], "extra_runners": [RUNNER_HQ],
            "model_defects": [{"module": "ConcQueueMC", "cfg": mc_cfg([1, 2], "SOverlap", defects=["guard_restore"]), "defect": "guard_restore"},
                              {"module": "ConcQueueMC", "cfg": mc_cfg([1, 2], "SLastOnly", defects=["guard_if_last"]), "defect": "guard_if_last"},
                              {"module": "ConcQueueMC", "cfg": mc_cfg([1, 2], "STwoDqn", defects=["dqn_dec_split"]), "defect": "dqn_dec_split"}],
            "stress_runners": STRESS_CQ, "stress_scenarios": stress_sc,
            "rule": "ConcQueue.tla with emptyQueue as two reads and the history variable 'enqueues finished before the call began' (events held by a selective call are "
                    "outside the promise); scenarios = regression list + seeded sample of ConcQueueMC's sets, on EventQueue and HeterEventQueue; observer scenarios "
                    "(emptyQueue / waitFor time-out against enqueue + process/processOne/takeEvent/clearEvents) explored on the real EventQueue with "
                    "preemption at every atomic operation and unlocked read; TraceCQ.tla demands: true (or time-out with no DisableQueueNotify) implies "
                    "every event enqueued before the call began is completely consumed; the sequential form (observer = listener) is part of C05's cover",
            "assumptions": ASSUME}


RUNNERS_CC = [{"source": "cc_run.cpp", "name": "cc_run_list", "defines": ["W_OBJ=0"]},
              {"source": "cc_run.cpp", "name": "cc_run_map", "defines": ["W_OBJ=1"]},
              {"source": "cc_run.cpp", "name": "cc_run_umap", "defines": ["W_OBJ=2"]}]


# the heterogeneous classes under the controlled scheduler: the per-prototype slot is created lazily by whichever thread comes first
RUNNERS_HC = [{"source": "cc_run.cpp", "name": "cc_run_hlist", "defines": ["W_OBJ=3"], "lacks_kinds": ["o", "x", "y", "z"]},
              {"source": "cc_run.cpp", "name": "cc_run_hdisp", "defines": ["W_OBJ=4"], "lacks_kinds": ["o"]}]


STRESS_CC = [{"source": "cc_stress.cpp", "name": "cc_stress_list_mutex", "defines": ["W_OBJ=0", "W_MUTEX=0"]},
             {"source": "cc_stress.cpp", "name": "cc_stress_list_spin", "defines": ["W_OBJ=0", "W_MUTEX=1"]},
             {"source": "cc_stress.cpp", "name": "cc_stress_umap_mutex", "defines": ["W_OBJ=2", "W_MUTEX=0"]},
             {"source": "cc_stress.cpp", "name": "cc_stress_map_spin", "defines": ["W_OBJ=1", "W_MUTEX=1"]},
             # the shipped mutexes against the `mtx` abstraction of the interleaving models (TraceLock.tla)
             {"source": "lock_stress.cpp", "name": "lock_stress_spin", "defines": ["W_MUTEX=1"], "trace_module": "TraceLock", "own_scenarios": True},
             {"source": "lock_stress.cpp", "name": "lock_stress_mutex", "defines": ["W_MUTEX=0"], "trace_module": "TraceLock", "own_scenarios": True}]


def cc_cfg(threads, scen, defects=(), initlen=2, maxnodes=6, initcurs=(2, 10, 11, 12)):
    # generations live in 0..12: starting at 2 no scenario reaches the wrap, starting at 10, 11, 12 it happens at the third, second, first addition
    return ("INIT Init\nNEXT Next\nCONSTANTS Threads = {%s}\n Scenarios <- %s\n InitLen = %d\n MaxNodes = %d\n Defects = %s\n MaxGen = 12\n InitCurs = {%s}\n"
            "INVARIANT Linearizable\nINVARIANT RefinesList\nINVARIANT NoLeakAtEnd\nINVARIANT NoDeadlock\nINVARIANT Reachable\nCHECK_DEADLOCK FALSE\n"
            % (", ".join(map(str, threads)), scen, initlen, maxnodes, tla_value(set(defects)), ", ".join(map(str, initcurs))))


def sl_cfg(threads, rounds, defects=()):
    return ("INIT Init\nNEXT Next\nCONSTANTS Threads = {%s}\n Rounds = %d\n Defects = %s\nINVARIANT MutualExclusion\nINVARIANT HolderIsMtx\n"
            "INVARIANT FlagMeansHeld\nINVARIANT NoDeadlock\nCHECK_DEADLOCK FALSE\n" % (", ".join(map(str, threads)), rounds, tla_value(set(defects))))


# generated scenarios: the scenario sets of ConcCLMC (ScenSet = [Threads -> Progs], ScenSet1 = single calls, InitLen = 2) in the runner's syntax
CC_OPS = ["a", "v", "p", "e", "f", "o1", "i1", "i2", "r1", "r2"]
CC_PROGS = CC_OPS + [x + "," + y for x in ("a", "r1") for y in ("v", "r1", "i1")] + ["a,a", "a,a,v", "p,a,f"]     # (the last three: harness only)


def cc_generated(tier, seed, have):
    import random
    quick = tier == "quick"
    s2 = ["2:%s|%s" % (a, b) for a in CC_PROGS for b in CC_PROGS]
    s3 = ["2:%s|%s|%s" % (a, b, c) for a in CC_OPS for b in CC_OPS for c in CC_OPS]
    # a scenario of queries only has nothing to race with
    busy = lambda s: any(op[0] in "apir" for th in s.split(":")[1].split("|") for op in th.split(","))
    s2 = [s for s in s2 if s not in have and busy(s)]
    s3 = [s for s in s3 if s not in have and busy(s)]
    rnd = random.Random(seed * 104729 + 3)
    rnd.shuffle(s2)
    rnd.shuffle(s3)
    if quick:
        s2, s3 = s2[:18], s3[:9]
    else:
        s3 = s3[:200]
    return ([{"scenario": s, "bound": 2, "max": 1500 if quick else 30000, "rand": 100 if quick else 1500, "generated": True} for s in s2]
            + [{"scenario": s, "bound": 1, "max": 1500 if quick else 30000, "rand": 150 if quick else 2000, "generated": True} for s in s3])


def lazy_cfg(threads, defects=()):
    return ("INIT Init\nNEXT Next\nCONSTANTS Threads = {%s}\n Scenarios <- Scen\n Defects = %s\n Protos = {1, 2}\n"
            "INVARIANT Linearizable\nINVARIANT NothingLost\nINVARIANT OneListPerProto\nINVARIANT NoDeadlock\nCHECK_DEADLOCK FALSE\n"
            % (", ".join(map(str, threads)), tla_value(set(defects))))


def disp_cfg(threads, defects=()):
    return ("INIT Init\nNEXT Next\nCONSTANTS Threads = {%s}\n Scenarios <- Scen\n Defects = %s\n Keys = {1, 2}\n"
            "INVARIANT Linearizable\nINVARIANT NothingLost\nINVARIANT EntriesStay\nINVARIANT NoDeadlock\nCHECK_DEADLOCK FALSE\n"
            % (", ".join(map(str, threads)), tla_value(set(defects))))


def c03(tier, seed):
    quick = tier == "quick"
    sc2 = ["2:i1|r1", "2:i2|r2,a", "2:a,v|r1", "2:r1|r1", "2:p,o1|r1,e", "2:v|r2,a", "2:i1,v|r1,a", "2:a,r10|v", "1:r1,e|a,e", "2:f|i2,r1", "0:a,r10|e,v",
           "2:i1|i1", "2:p|a", "2:o1,o2|r1,r2", "3:v|r2,r3"]
    sc3 = ["2:i1|r1|v", "2:a|p|r1", "2:r1|r1|i1", "2:v|a,r20|r2", "2:i1|r1|r1", "2:f|r1|i1"]
    scen = [{"scenario": s, "bound": 3 if len(s) < 9 else 2} for s in sc2] + [{"scenario": s, "max": 3000 if quick else 100000, "bound": 1} for s in sc3]
    # dispatcher only: calls on other events (each thread inserts its own new key into the shared map) racing calls on event 1
    for i, s in enumerate(["2:x,a|x,r1", "2:x,y,v|x,z,i1", "1:x,z|v,x|r1,x", "2:i1,x|x,y,r2"]):
        scen.append({"scenario": s, "bound": 2 if s.count("|") == 1 else 1, "max": 4000 if quick else 100000, "runner": 1 + i % 2})
    # several additions racing each other and a traversal afterwards: the generation counter is drawn before the mutex is taken (seed S92)
    for s in ["2:a|a|a", "0:a|a,a,v", "2:p|a,a|v", "1:a,v|a,a"]:
        scen.append({"scenario": s, "bound": 2 if s.count("|") == 1 else 1, "max": 4000 if quick else 100000})
    # the generation counter wraps while other threads add and traverse (the counter is placed d additions before the wrap by the hook; plain
    # CallbackList only): a traversal must never see the wrap half done, an addition must never carry a generation drawn before it (D11)
    for s in ["2w0:a|v", "2w1:a|a,v", "2w0:i1,v|r1,a", "1w0:p|f,a", "2w1:a,v|p,v", "2w0:a|a|v", "2w1:a|a|v", "2w1:a,r10|i2|f"]:
        scen.append({"scenario": s, "bound": 3 if s.count("|") == 1 else 2, "max": 5000 if quick else 100000, "runner": 0, "primary_only": True})
    scen += cc_generated(tier, seed, set(x["scenario"] for x in scen))
    # heterogeneous list / dispatcher only: first use of a prototype slot (and of an event) by several threads at once
    for s in ["0:a|a", "0:a,v|a,v", "0:a|v,e", "0:p|a,r20", "0:a|f", "0:a,r10|a|v", "0:i1|a|p", "1:a|r1,a"]:
        scen.append({"scenario": s, "bound": 3 if s.count("|") == 1 else 2, "max": 3000 if quick else 60000, "extra_only": True})
    models = [{"module": "ConcCLMC", "tag": "2threads", "cfg": cc_cfg([1, 2], "ScenSet")},
              # the SpinLock policy mutex refines the `mtx` abstraction the other models use
              {"module": "SpinLock", "tag": "spinlock", "cfg": sl_cfg([1, 2, 3], 2 if quick else 3)},
              # the lazily created per-prototype lists of the heterogeneous classes (double-checked creation under callbackListListMutex)
              {"module": "LazySlotMC", "tag": "lazy-slot", "cfg": lazy_cfg([1, 2] if quick else [1, 2, 3])},
              # the dispatcher's event -> list map: find-or-create and append under listenerMutex, lookups that hand out a pointer and release it
              {"module": "ConcDispMC", "tag": "dispatcher-map", "cfg": disp_cfg([1, 2] if quick else [1, 2, 3])}]
    if not quick:
        models.append({"module": "ConcCLMC", "tag": "3threads-1call", "cfg": cc_cfg([1, 2, 3], "ScenSet1"), "heap": "16g"})
        models.append({"module": "SpinLock", "tag": "spinlock-4threads", "cfg": sl_cfg([1, 2, 3, 4], 2)})
    stress_sc = [{"scenario": s, "every": 2} for s in ["2:i1|r1", "2:a,v|r1,p", "2:p,o1|r1,e", "2:i1,v|r1,a", "2:a,r10|v,e", "2:i1|r1|v", "2:a,f|p,e|r1,r2", "1:p,e|a,e|r1"]]
    # lock-level stress (own scenario syntax threads:rounds); and list-level contention with several rounds per thread
    stress_sc += [{"scenario": "4:300", "own": True, "count": 40 if quick else 400}, {"scenario": "8:100", "own": True, "count": 40 if quick else 400},
                  {"scenario": "3:1000", "own": True, "count": 10 if quick else 100}]
    # the generation counter wraps while real threads add and traverse (shipped std::mutex / SpinLock, TSan): D11's territory
    stress_sc += [{"scenario": s, "only_runners": ["cc_stress_list_mutex", "cc_stress_list_spin"], "count": 150 if quick else 3000}
                  for s in ["2w1:a,v|a,v|p,f", "2w2:a,a,v|i1,f|r2,a,v"]]
    stress_sc += [{"scenario": "0:a,a,r10,r11,a,r14|a,a,r20,r21,a,r24|a,e,p,o30,v|f,a,r40,e", "every": 2, "count": 100 if quick else 2000}]
    return {"models": models, "runners": RUNNERS_CC, "extra_runners": RUNNERS_HC, "extra_every": 3, "trace_module": "TraceCC", "scenarios": scen,
            "stress_runners": STRESS_CC, "stress_scenarios": stress_sc,
            "inductive": [{"module": "SpinLockInd", "steps": [("IndInit", "IndInv", 0), ("IndInv", "IndInv", 1), ("IndInv", "MutualExclusion", 0)]}],
            "corpus": [], "model_defects": [{"module": "ConcCLMC", "cfg": cc_cfg([1, 2], "ScenSet", defects=["draw_unlocked"]), "defect": "draw_unlocked"}, {"module": "SpinLock", "cfg": sl_cfg([1, 2, 3], 2, defects=["cas_stale"]), "defect": "cas_stale"},
                              {"module": "LazySlotMC", "cfg": lazy_cfg([1, 2], defects=["no_recheck"]), "defect": "no_recheck"},
                              {"module": "ConcDispMC", "cfg": disp_cfg([1, 2], defects=["erase_empty"]), "defect": "erase_empty"},
                              {"module": "ConcDispMC", "cfg": disp_cfg([1, 2], defects=["lookup_unlocked"]), "defect": "lookup_unlocked"}],
            "rule": "ConcDisp.tla (dispatcher map), LazySlot.tla (heterogeneous per-prototype lists) and ConcCL.tla (threads x micro-steps of callbacklist.h with the abstract list updated at the linearization points) model-checked over all "
                    "interleavings of the scenario sets; on the real CallbackList and EventDispatcher (std::map and std::unordered_map) every scenario "
                    "(all mixes of append/prepend/insert/remove/ownsHandle/empty/invoke/forEach with shared handles) is explored by depth-first "
                    "schedule enumeration with a preemption bound plus seeded random schedules; TraceCC.tla decides linearizability of results and of "
                    "the final order by tracking the set of consistent abstract configurations, the traversal visit rules, no deadlock and no unlocked "
                    "structural access; SpinLock.tla (test_and_set loop) is model-checked to refine the mutex abstraction, and the shipped SpinLock / std::mutex "
                    "are hammered by real threads with acquisitions logged from inside the critical section and validated by TraceLock.tla; "
                    "non-trivial = distinct schedules that switch threads at a decision point",
            "assumptions": ASSUME + ["the controlled runs replace the shipped std::mutex / SpinLock by the scheduler's mutex; the stress runs use the shipped ones with real "
                                     "threads under ThreadSanitizer (data races are reported by TSan, not specified)"]}


PLANS = {"C03": c03, "C06": c06, "C07": c07, "C11": c11}
