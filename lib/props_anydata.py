# Plan for C17 (AnyData holds, moves and destroys its value like the value itself), DESIGN.md section 7.
# The TLA+ side (AnyData.tla) enumerates box histories; the size / kind of the stored type is the harness's type matrix:
# every script is replayed for every Obj<N, kind>, N over the world's size range (template recursion in anydata_run.cpp).
from core import *

AINV = ["Ok", "Ledger", "ChainBound"]
AOPS = {"c", "r", "m", "g", "d", "q"}
CAP = 32


def aconsts(boxes=3, vals=(1, 2), qvals=(3,), moves=4, ops=AOPS, defects=()):
    return {"MaxBoxes": boxes, "Vals": set(vals), "QVals": set(qvals), "MaxMoves": moves, "Ops": set(ops), "Defects": set(defects)}


def aworld(name, kind, nmin, nmax, cap=CAP, fill="0xAB", fraction=1.0, compiler="g++", std="c++11", opt="-O1", only_tags=None):
    w = {"name": name, "source": "anydata_run.cpp",
         "defines": ["W_KIND=%d" % kind, "W_CAP=%d" % cap, "W_NMIN=%d" % nmin, "W_NMAX=%d" % nmax, "W_FILL=%s" % fill],
         "fraction": fraction, "compiler": compiler, "std": std, "opt": opt, "sanitize": True}
    if only_tags:
        w["only_tags"] = only_tags
    return w


ASSUME = ["TLC and the CommunityModules JSON reader are correct",
          "harness/anydata_run.cpp records what the real AnyData / EventQueue did (it contains no expected values); the stored types' own copy / move "
          "constructors are the harness's (a move sets the source's moved-from flag, a shared_ptr member is moved)",
          "'every type' is sampled by four kinds (trivially copyable, tracked non-trivial with a self pointer, move-only, shared_ptr owner) of alignment <= 8; "
          "over-aligned stored types are outside the property (AnyData's buffer is a byte array)",
          "kind 3 (shared_ptr owner) exists only in sizes that are multiples of 8: capacity-8, capacity, capacity+8 stand for capacity-1, capacity, capacity+1",
          "trivially copyable objects cannot be counted: for kind 0 the ledger is left to LeakSanitizer / AddressSanitizer",
          "a moved-from AnyData is 'valid but unspecified': it may keep a moved-from object or hold nothing; only boxes that still answer isType<T>() are read",
          "sequential code only; g++ 12 / clang 14 with ASan+UBSan observe memory errors on the executions driven; library asserts enabled",
          "bounds: the transition cover is exhaustive for the stated constants only"]


def c17(tier, seed):
    quick = tier == "quick"
    if quick:
        models = [{"module": "AnyData", "tag": "boxes2", "invariants": AINV, "constants": aconsts(boxes=2, vals=(1, 2), moves=4)}]
        f_lo, f_other = 0.5, 0.3
    else:
        models = [{"module": "AnyData", "tag": "boxes3", "invariants": AINV, "constants": aconsts(boxes=3, vals=(1,), moves=4)},
                  {"module": "AnyData", "tag": "boxes2", "invariants": AINV, "constants": aconsts(boxes=2, vals=(1, 2), moves=4)},
                  {"module": "AnyData", "tag": "boxes3-vals2", "invariants": AINV, "constants": aconsts(boxes=3, vals=(1, 2), moves=2), "fraction": 0.25}]
        f_lo, f_other = 0.3, 0.15
    top = CAP + 17
    worlds = [
        # the tracked non-trivial kind is the most telling one: the sizes around the capacity and above run every script
        aworld("ad_tracked_edge", 1, CAP - 1, top),
        aworld("ad_tracked_inline", 1, 1, CAP - 2, fraction=f_lo, fill="0xFF"),
        aworld("ad_shared", 3, 1, top, fill="0x00"),
        aworld("ad_moveonly_edge", 2, CAP - 1, top, fraction=f_other),
        aworld("ad_moveonly_inline", 2, 1, CAP - 2, fraction=f_other, fill="0x00"),
        aworld("ad_trivial_edge", 0, CAP - 1, top, fraction=f_other, fill="0xFF"),
        aworld("ad_trivial_inline", 0, 1, CAP - 2, fraction=f_other),
        # AnyData<8>: the capacity is the sizeof(LargeData) floor (16), sizes 15, 16, 17 straddle it
        aworld("ad_tracked_floor", 1, 10, 8 + 17, cap=8, fraction=f_other),
    ]
    if not quick:
        worlds += [aworld("ad_tracked_edge_clang17", 1, CAP - 1, top, fraction=f_other, compiler="clang++", std="c++17", opt="-O2"),
                   aworld("ad_shared_gxx20", 3, 1, top, fraction=f_other, std="c++20", opt="-O2", fill="0xFF"),
                   aworld("ad_trivial_floor", 0, 1, 8 + 17, cap=8, fraction=f_other, fill="0x00")]
    return {"interp": "harness/anydata_run.cpp", "trace_module": "TraceAnyData", "models": models, "worlds": worlds,
            "defects": [{"module": "AnyData", "constants": aconsts(boxes=2, vals=(1,), moves=1), "invariants": AINV, "defect": "relocate"}],
            "nontrivial_key": "nontrivial",
            "rule": "every transition of the bounded AnyData reference model (boxes = AnyData<32> objects in pre-filled raw storage: construct from a "
                    "const / non-const lvalue copy, from an rvalue, move-construct box to box in chains of up to 4 moves incl. moving a moved-from box, read "
                    "through get / operator T& / operator T* / getAddress twice / isType<T> / isType<other types>, destroy in every order, and a round trip "
                    "through EventQueue<int, void(const AnyData&)> enqueued from an lvalue, an rvalue and an AnyData rvalue) = one script; EVERY script "
                    "is replayed for EVERY stored type Obj<N, kind> of the world: N = every size from the kind's minimum (1 / 10 / 16) to capacity+17 "
                    "(so capacity-1, capacity, capacity+1 are hit; AnyData<8> worlds hit the sizeof(LargeData) floor), kinds trivially copyable, tracked "
                    "non-trivial with self pointer, move-only, shared_ptr owner; each execution ends by reading and destroying what is left; "
                    "TraceAnyData.tla checks every read fact and the live-object ledger; non-trivial = the script moves a box or goes through the queue",
            "assumptions": ASSUME}


PLANS = {"C17": c17}
