# Plans for the dispatcher / queue family: C04, C05, C12, C13 (and the sequential halves of C08, C11), DESIGN.md section 7.
from core import *

INV = ["Ok", "Ledger", "Fifo", "GuardBalanced", "AtRest"]
LOPS = {"al", "pl", "il", "rl", "hl", "ol", "fl"}
QOPS = {"nq", "pa", "po", "pi", "pu", "pk", "tk", "cl", "eq"}


def consts(events=(1,), nodes=1, filters=0, enq=3, disp=0, depth=5, ordered=False, ops=(), nest=(), defects=()):
    return {"Events": set(events), "MaxNodes": nodes, "MaxFilters": filters, "MaxEnq": enq, "MaxDisp": disp, "MaxDepth": depth,
            "Ordered": ordered, "Ops": set(ops), "NestOps": set(nest), "Defects": set(defects)}


def world(name, obj=1, threading=0, key=0, arg=0, mode=0, map_=0, filt=0, order=0, callback=0, fill="0xA5", fraction=1.0,
          compiler="g++", std="c++11", opt="-O1", only_tags=None, sanitize=True, cancont=0, mixins=0, moveonly=0, util=0):
    w = {"name": name, "source": "dq_interp.cpp",
         "defines": ["W_OBJ=%d" % obj, "W_THREADING=%d" % threading, "W_KEY=%d" % key, "W_ARG=%d" % arg, "W_MODE=%d" % mode, "W_MAP=%d" % map_,
                     "W_FILTER=%d" % filt, "W_ORDER=%d" % order, "W_CALLBACK=%d" % callback, "W_FILL=%s" % fill] + (["W_CANCONT=%d" % cancont] if cancont else []) + (["W_MIXINS=%d" % mixins] if mixins else []) + (["W_MOVEONLY=1"] if moveonly else []) + (["W_UTIL=1"] if util else []),
         "fraction": fraction, "compiler": compiler, "std": std, "opt": opt, "sanitize": sanitize,
         "trace_env": {"ORDER": str(order), "CANCONT": "1" if cancont else "0", "VETO": {0: "0", 1: "0", 2: "1", 3: "2", 4: "1"}[mixins]}}
    if only_tags:
        w["only_tags"] = only_tags
    if moveonly:
        w["without_ops"] = ["pk"]       # peekEvent copies the arguments
    return w


ASSUME = ["TLC and the CommunityModules JSON reader are correct", "harness/dq_interp.cpp records what the real classes did (it contains no expected values)",
          "sequential consistency; g++ 12 / clang 14 with ASan+UBSan observe memory errors on the executions driven",
          "listener lists inside the dispatcher are modelled at the level verified by CLImpl.tla (C01/C02)",
          "bounds: the transition cover is exhaustive for the stated constants only"]


def c05(tier, seed):
    quick = tier == "quick"
    nest = {"rl", "nq", "pa", "po", "pi", "tk", "cl", "eq"}
    models = [{"module": "DQImpl", "tag": "nest", "invariants": INV,
               "constants": consts(nodes=1 if quick else 2, enq=3, depth=5, ops={"al", "rl"} | QOPS, nest=nest if quick else nest | {"al", "pu"})},
              {"module": "DQImpl", "tag": "recycle", "invariants": INV,
               "constants": consts(nodes=1, enq=4 if quick else 5, depth=2, ops={"al"} | QOPS, nest={"nq", "eq"})},
              # takeEvent + dispatch(queuedEvent), also from inside a listener of such a dispatch and of a processing call
              {"module": "DQImpl", "tag": "takedispatch", "invariants": INV,
               "constants": consts(events=(1, 2), nodes=1 if quick else 2, enq=2 if quick else 3, disp=2 if quick else 3, depth=3 if quick else 4,
                                   ops={"al", "rl", "nq", "td", "tk", "po", "pa", "eq"}, nest={"td", "nq", "rl"} if quick else {"td", "nq", "rl", "po", "eq"})}]
    worlds = [world("dq_single_val", threading=0, arg=0),
              world("dq_single_val_getevent_str", threading=0, arg=0, mode=3, key=1, fraction=0.3),     # key derived by a getEvent policy from a movable argument
              world("dq_multi_cref_str", threading=1, arg=1, key=1, fill="0xFF", fraction=0.3),
              world("dq_multi_val_getevent_decoy", threading=1, arg=0, mode=5, key=0, fraction=0.15),     # enqueue(first, args...) through a policy that ignores `first`
              world("dq_multi_cref_moveonly", threading=1, arg=1, moveonly=1, fraction=0.3, fill="0xFF"),       # move-only argument type
              world("dq_spin_val_hash", threading=2, arg=0, key=3, fill="0x00", fraction=0.15, callback=1),
              world("dq_tracked_val", threading=3, arg=0, fill="0xAB", fraction=0.2)]       # tracked mutexes / atomics: relock = hang at once, use after destruction recorded
    if not quick:
        worlds += [world("dq_multi_ref_incl_clang17", threading=1, arg=2, mode=1, key=2, compiler="clang++", std="c++17", opt="-O2", fraction=0.2, only_tags=["nest", "recycle"]),
                   world("dq_single_val_getevent", threading=0, arg=0, mode=3, key=4, fraction=0.2)]
    return {"interp": "harness/dq_interp.cpp", "trace_module": "TraceDQ", "models": models, "worlds": worlds,
            "nontrivial_key": "nested",
            "rule": "every transition of the bounded DQImpl model = one script of user-level operations (enqueue, process, processOne, processIf, processUntil with "
                    "scripted predicate verdicts, peek, take, clear, emptyQueue, listener changes; also issued from listeners and predicates of a running "
                    "processing call; slot recycling over several rounds), each followed by the probe epilogue; non-trivial = an operation ran inside a "
                    "listener or predicate",
            "assumptions": ASSUME}


def c04(tier, seed):
    quick = tier == "quick"
    models = [{"module": "DQImpl", "tag": "route", "invariants": INV,
               "constants": consts(events=(1, 2), nodes=3 if quick else 4, enq=0, disp=2, depth=2, ops=LOPS | {"dp"}, nest={"al", "rl", "il", "dp"})}]
    f = 0.12 if quick else 0.5
    worlds = [world("d_int_val", obj=0, key=0, arg=0),
              world("d_str_val_incl", obj=0, key=1, arg=0, mode=1, fraction=f),                      # by-value movable key as an argument (D2)
              world("d_str_cref_excl", obj=0, key=1, arg=1, mode=2, threading=1, fraction=f),
              world("d_ord_ref_incl", obj=0, key=2, arg=2, mode=1, fraction=f, fill="0xFF"),
              world("d_hash_val_getevent", obj=0, key=3, arg=0, mode=3, fraction=f, threading=2),
              world("d_int_val_getevent_byval", obj=0, key=0, arg=0, mode=4, fraction=f),
              world("d_str_val_getevent_byval_q", obj=1, key=1, arg=0, mode=4, fraction=f, threading=1),
              world("d_int_cref_getevent_decoy", obj=0, key=0, arg=1, mode=5, fraction=f),          # policy that is not the identity on the leading argument
              world("d_str_val_getevent_decoy_q", obj=1, key=1, arg=0, mode=5, fraction=f, fill="0xFF"),
              world("d_enum_cref_usermap", obj=0, key=4, arg=1, map_=3, fraction=f, callback=1),
              world("d_int_val_stdmap_q", obj=1, key=0, arg=0, map_=1, fraction=f),
              world("d_hash_cref_umap", obj=0, key=3, arg=1, map_=2, fraction=f, fill="0x00"),
              world("d_str_val_incl_clang", obj=0, key=1, arg=0, mode=1, fraction=f, compiler="clang++", std="c++14", opt="-O2"),
              world("d_ord_val_incl_gxx20", obj=1, key=2, arg=0, mode=1, fraction=f, std="c++20", opt="-O2")]
    return {"interp": "harness/dq_interp.cpp", "trace_module": "TraceDQ", "models": models, "worlds": worlds,
            "nontrivial_key": "nested",
            "rule": "every transition of the bounded DQImpl model restricted to dispatcher operations over two event keys (per-event append/prepend/insert/"
                    "remove incl. stale handles, queries, dispatch with tracked argument and key objects whose moved-from state is observable), replayed in "
                    "type worlds {key type} x {prototype by value / const& / &} x {argument-passing mode, getEvent policy} x {map kind} x compilers; "
                    "non-trivial = an operation ran inside a listener",
            "assumptions": ASSUME + ["'any conforming compiler' is sampled by g++ 12 and clang++ 14, which evaluate call arguments in opposite orders"]}


def c12(tier, seed):
    quick = tier == "quick"
    models = [{"module": "DQImpl", "tag": "filters", "invariants": INV,
               "constants": consts(events=(1,), nodes=2 if not quick else 1, filters=2, enq=2 if quick else 3, disp=1 if quick else 2, depth=4,
                                   ops={"al", "rl", "af", "rf", "dp", "nq", "pa", "po", "pi"}, nest={"rf", "af", "rl"} if quick else {"rf", "af", "rl", "nq"})}]
    # canContinueInvoking policy, conditionalFunctor and argumentAdapter wrapped listeners, with and without filters rewriting the argument
    models.append({"module": "DQImpl", "tag": "wrappers", "invariants": INV,
                   "constants": consts(events=(1,), nodes=3, filters=1, enq=1, disp=2 if quick else 3, depth=3,
                                       ops={"al", "aw", "aa", "rl", "af", "dp", "nq", "po"}, nest={"rl"} if quick else {"rl", "dp"})})
    worlds = [world("f_val", filt=1, arg=0, only_tags=["filters"]),
              world("f_cref_multi", filt=1, arg=1, threading=1, fraction=0.3, fill="0xFF", only_tags=["filters"]),
              world("f_ref_incl_str", filt=1, arg=2, mode=1, key=1, fraction=0.3, fill="0x00", only_tags=["filters"]),
              # several mixins: one without a hook in front of MixinFilter; a second hook after / before the filters
              world("f_val_plain_first", filt=1, arg=0, mixins=1, fraction=0.4, only_tags=["filters"]),
              world("f_val_veto_after", filt=1, arg=0, mixins=2, fraction=0.4, only_tags=["filters"]),
              world("f_ref_veto_before_multi", filt=1, arg=2, mixins=3, threading=1, fraction=0.3, only_tags=["filters"]),
              world("f_cref_plain_veto", filt=1, arg=1, mixins=4, fraction=0.3, fill="0xFF", only_tags=["filters"]),
              world("w_val_cancont", filt=1, arg=0, cancont=1, only_tags=["wrappers"]),
              world("w_cref_incl_cancont", filt=1, arg=1, mode=1, key=2, cancont=1, threading=1, fraction=0.4, only_tags=["wrappers"]),
              world("w_ref_nocancont", filt=1, arg=2, fraction=0.4, only_tags=["wrappers"], fill="0xFF"),
              world("w_val_cancont_byvalue", filt=1, arg=0, cancont=2, fraction=0.5, only_tags=["wrappers"]),          # the policy takes the arguments by value
              world("w_val_incl_cancont_byvalue", filt=1, arg=0, mode=1, key=1, cancont=2, fraction=0.3, only_tags=["wrappers"], fill="0x00"),
              world("w_ref_cancont_byref", filt=1, arg=2, cancont=3, fraction=0.5, only_tags=["wrappers"], fill="0xAB")]       # prototype and policy take Payload &
    return {"interp": "harness/dq_interp.cpp", "trace_module": "TraceDQ", "models": models, "worlds": worlds,
            "nontrivial_key": "nested",
            "rule": "every transition of the bounded DQImpl model with MixinFilter: filters added/removed (also from inside filters and listeners), scripted "
                    "filter verdicts and argument rewrites, dispatch direct and through process/processOne/processIf; plus listeners wrapped by "
                    "conditionalFunctor (condition: argument value even) and argumentAdapter (argument converted to the listener's own type) in worlds "
                    "whose Policies have canContinueInvoking (stop when the value is 2), argument values 0..2 rewritten by filters; non-trivial = an "
                    "operation ran inside a filter, listener or predicate",
            "assumptions": ASSUME}


def c13(tier, seed):
    quick = tier == "quick"
    models = [{"module": "DQImpl", "tag": "ordered", "invariants": INV,
               "constants": consts(events=(1, 2), nodes=1, enq=3 if quick else 4, depth=5, ordered=True,
                                   ops={"al", "nq", "pa", "po", "pi", "pu", "pk", "tk", "cl"}, nest={"nq", "po", "tk"})}]
    worlds = [world("o_asc", order=1), world("o_desc_multi", order=2, threading=1, fraction=0.3, arg=1), world("o_byarg", order=3, fraction=0.3, key=2)]
    return {"interp": "harness/dq_interp.cpp", "trace_module": "TraceDQ", "models": models, "worlds": worlds,
            "nontrivial_key": "nested",
            "rule": "every transition of the bounded DQImpl model with Ordered = TRUE over key sequences with duplicates from {1,2} (all C05 operations incl. "
                    "put-back by processIf/processUntil and enqueue during processing), replayed with OrderedQueueList ascending / descending / by-argument "
                    "comparators; the trace specification keeps `pending` stably sorted by the world's comparator; non-trivial = an operation ran inside a "
                    "listener or predicate",
            "assumptions": ASSUME}


RINV = ["Responsible", "Exclusive", "OnTarget", "CtrLeft", "Ok"]


def rconsts(nodes=3, removers=2, disp=1, enq=0, depth=1, counts=(1,), ops=(), nest=(), defects=(), evkeys=(1, 2)):
    return {"MaxNodes": nodes, "MaxRemovers": removers, "MaxDisp": disp, "MaxEnq": enq, "MaxDepth": depth, "Counts": set(c if c >= 0 else 100 - c for c in counts),
            "Ops": set(ops), "NestOps": set(nest), "Defects": set(defects), "EvKeys": set(evkeys)}


def c15(tier, seed):
    quick = tier == "quick"
    sops = {"al", "rl", "sa", "sp", "sr", "sx", "st", "sc", "sm", "ss", "sd", "sn", "dp"}
    models = [{"module": "RemGen", "tag": "scoped", "invariants": RINV,
               "constants": rconsts(nodes=2 if quick else 3, removers=2 if quick else 3, disp=1, ops=sops if not quick else sops - {"sp"},
                                    nest={"sr", "sx", "rl"} if quick else {"sr", "sx", "sd", "rl"})}]
    models.append({"module": "RemGen", "tag": "scoped-lists", "invariants": RINV,
                   "constants": rconsts(nodes=2 if quick else 3, removers=2, disp=1, ops=sops - {"sp"} if quick else sops, nest={"sr", "sx", "rl"}, evkeys=(1,))})
    worlds = [world("r_disp", obj=0, only_tags=["scoped"]), world("r_queue_multi_str", obj=1, threading=1, key=1, arg=1, fraction=0.35, fill="0xFF", only_tags=["scoped"]),
              world("r_disp_spin_incl", obj=0, threading=2, mode=1, key=2, fraction=0.2, fill="0x00", only_tags=["scoped"]),
              world("r_list_multi", obj=2, threading=1, only_tags=["scoped-lists"]),                 # ScopedRemover<CallbackList>
              world("r_list_single_cref", obj=2, threading=0, arg=1, fraction=0.4, fill="0xFF", only_tags=["scoped-lists"])]
    return {"interp": "harness/dq_interp.cpp", "trace_module": "TraceDQ", "models": models, "worlds": worlds,
            "defects": [{"module": "RemGen", "constants": rconsts(nodes=2, removers=2, ops=sops, nest=set()), "invariants": RINV, "defect": "orphan"}],
            "nontrivial_key": "scripts",
            "rule": "every transition of the bounded RemGen reference model: listeners added directly and through up to 2-3 ScopedRemovers over two "
                    "dispatchers, remove through a remover (own / foreign / stale handles), reset, setDispatcher, move construction, move assignment "
                    "into empty and non-empty removers, swap, destruction in every order, with dispatches in between and remover operations issued "
                    "from listeners; every script ends by destroying all removers and probing both dispatchers; TraceDQ.tla keeps who answers for "
                    "which listener; non-trivial: every script (each is a distinct history ending in a different operation)",
            "assumptions": ASSUME}


def c16(tier, seed):
    quick = tier == "quick"
    ops = {"al", "rl", "ac", "ak", "dp", "nq", "po"}
    pos = {"pc", "ic", "qk", "ik"}      # the helpers' prepend / insert-before forms
    models = [{"module": "RemGen", "tag": "counter-cond", "invariants": RINV,
               "constants": rconsts(nodes=2 if quick else 3, removers=1, disp=2 if quick else 3, enq=1 if quick else 2, depth=2,
                                    counts=(-1, 0, 1, 2, 3) if not quick else (0, 2),
                                    ops=ops, nest={"dp", "rl", "al"} if not quick else {"dp", "rl"})}]
    models.append({"module": "RemGen", "tag": "counter-cond-lists", "invariants": RINV,
                   "constants": rconsts(nodes=2 if quick else 3, removers=1, disp=3 if quick else 4, enq=0, depth=2, counts=(-1, 0, 1, 2, 3) if not quick else (0, 1, 2),
                                        ops={"al", "rl", "ac", "ak", "dp"} | pos, nest={"dp", "rl"}, evkeys=(1,))})
    models.append({"module": "RemGen", "tag": "counter-cond-pos", "invariants": RINV,
                   "constants": rconsts(nodes=2 if quick else 3, removers=1, disp=2 if quick else 3, enq=0 if quick else 1, depth=2, counts=(-1, 0, 1, 2) if not quick else (0, 2),
                                        ops={"al", "rl", "dp", "po", "nq"} | pos, nest={"dp", "rl", "ic"} if quick else {"dp", "rl", "ic", "qk"}, evkeys=(1,) if quick else (1, 2))})
    worlds = [world("k_queue", obj=1, only_tags=["counter-cond"], fraction=0.4 if quick else 1.0), world("k_queue_pos", obj=1, only_tags=["counter-cond-pos"]), world("k_queue_incl_str", obj=1, mode=1, key=1, arg=1, threading=1, fraction=0.3, fill="0xFF", only_tags=["counter-cond"]),
              world("k_queue_ref_hash", obj=1, arg=2, key=3, fraction=0.2, fill="0x00", only_tags=["counter-cond"]),
              world("k_list_multi", obj=2, threading=1, only_tags=["counter-cond-lists"]),           # CounterRemover / ConditionalRemover over CallbackList
              world("k_list_spin_ref", obj=2, threading=2, arg=2, fraction=0.4, only_tags=["counter-cond-lists"])]
    return {"interp": "harness/dq_interp.cpp", "trace_module": "TraceDQ", "models": models, "worlds": worlds,
            "nontrivial_key": "nested",
            "rule": "every transition of the bounded RemGen reference model with CounterRemover listeners (trigger counts incl. zero and negative) and "
                    "ConditionalRemover listeners (scripted condition outcome per trigger), triggered by direct dispatch, by nested re-dispatch of the "
                    "same event from the wrapped listener, and through enqueue + processOne, with other listeners present and removed; the helper "
                    "objects are temporaries destroyed right after registration; non-trivial = an operation ran inside a listener or condition",
            "assumptions": ASSUME + ["heterogeneous targets of the removers are not driven (see DESIGN.md section 8)"]}


PLANS = {"C04": c04, "C05": c05, "C12": c12, "C13": c13, "C15": c15, "C16": c16}
