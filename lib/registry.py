# Property registry: which engine decides which property; setup / replay / baseline-off commands.
import glob, json, os, shutil, subprocess, sys, tempfile, time
import xml.etree.ElementTree as ET
from core import *
import plan as planmod
import seqengine as se
import props_cl
import props_dq
import props_conc
import concengine

SEQ_PLANS = {}
SEQ_PLANS.update(props_cl.PLANS)
SEQ_PLANS.update(props_dq.PLANS)

CUSTOM = {}   # pid -> function(tier, seed) -> exit code   (engines that are not plan-shaped)
for _pid, _fn in props_conc.PLANS.items():
    CUSTOM[_pid] = (lambda fn: (lambda tier, seed: concengine.run_conc(fn.__name__.upper(), tier, seed, fn(tier, seed))))(_fn)


def run(pid, tier, seed):
    if tier not in ("quick", "thorough"):
        raise MachineryError("tier must be quick or thorough")
    if pid in SEQ_PLANS:
        return planmod.run_plan(pid, tier, seed, SEQ_PLANS[pid](tier, seed))
    if pid in CUSTOM:
        return CUSTOM[pid](tier, seed)
    raise MachineryError("unknown property " + pid)


def all_specs():
    return sorted(os.path.splitext(os.path.basename(p))[0] for p in glob.glob(os.path.join(SPEC, "*.tla")))


def setup():
    """Offline, from files on disk only: parse every specification, pre-build the quick-tier harness binaries."""
    t0 = time.time()
    bad = []
    for m in all_specs():
        ok, out = sany(m)
        if not ok:
            bad.append(m)
            log("SANY failed for %s:\n%s" % (m, out[-2000:]))
    if bad:
        return 2
    jobs = []
    seen = set()
    for pid, fn in SEQ_PLANS.items():
        p = fn("quick", 1)
        for w in p["worlds"]:
            key = (w["source"], tuple(w.get("defines", ())), w.get("compiler", "g++"), w.get("std", "c++11"), w.get("opt", "-O1"), w.get("sanitize", True))
            if key in seen:
                continue
            seen.add(key)
            jobs.append(dict(source=w["source"], defines=w.get("defines", ()), compiler=w.get("compiler", "g++"), std=w.get("std", "c++11"),
                             opt=w.get("opt", "-O1"), sanitize=w.get("sanitize", True), name=w["name"]))
    jobs.append(dict(source="cq_run.cpp", name="cq_run"))
    for r in props_conc.RUNNERS_CC:
        jobs.append(dict(source=r["source"], defines=r["defines"], name=r["name"]))
    for fn in SETUP_HOOKS:
        jobs += fn()
    build_many(jobs)
    log("setup done: %d specs parsed, %d binaries, %.0fs" % (len(all_specs()), len(jobs), time.time() - t0))
    return 0


SETUP_HOOKS = []


def replay(path):
    r = json.load(open(path))
    pid = r["property"]
    if r.get("engine") == "seq":
        wd = scratch("replay")
        try:
            tier_plan = SEQ_PLANS[pid]("quick", 1)
            w = [x for x in tier_plan["worlds"] if x["name"] == r["world"]]
            if not w:
                w = [x for x in SEQ_PLANS[pid]("thorough", 1)["worlds"] if x["name"] == r["world"]]
            w = w[0]
            exe = build(w["source"], defines=w.get("defines", ()), compiler=w.get("compiler", "g++"), std=w.get("std", "c++11"),
                        opt=w.get("opt", "-O1"), sanitize=w.get("sanitize", True), name=w["name"])
            rej = {"script": r["script"], "world": r["world"]}
            again = se.confirm_rejection(exe, rej, r["trace_module"], wd, interp_args=w.get("args", ()), trace_env=w.get("trace_env"))
            if again:
                ex = rej.get("execution", [])
                ln = rej.get("trace_line", 0)
                print("replay: rejected again at event %d: %s" % (ln, ex[ln - 1] if 0 < ln <= len(ex) else "?"))
                print("VIOLATION property=%s replay=%s" % (pid, path))
                return 1
            print("replay: the execution is accepted on the current tree")
            return 0
        finally:
            shutil.rmtree(wd, ignore_errors=True)
    if r.get("engine") in REPLAYERS:
        return REPLAYERS[r["engine"]](r, path)
    raise MachineryError("no replayer for engine %s" % r.get("engine"))


REPLAYERS = {"conc": concengine.replay_conc}


def baseline_off():
    """Run the repository's own unit tests with the guard OFF against /repo/include and compare with BASELINE.json."""
    base = json.load(open("/root/.vp/BASELINE.json"))
    want = set(base["stable_pass"])
    d = tempfile.mkdtemp(prefix="eventpp-baseline-", dir=os.environ.get("VERIF_SCRATCH", "/var/tmp"))
    try:
        with open(os.path.join(d, "CMakeLists.txt"), "w") as f:
            f.write("cmake_minimum_required(VERSION 3.2)\nproject(eventppbaseline)\ninclude_directories(%s/include)\n"
                    "add_subdirectory(%s/tests/unittest unittest)\n" % (REPO, REPO))
        b = os.path.join(d, "b")
        r = sh(["cmake", "-G", "Ninja", "-S", d, "-B", b, "-DCMAKE_BUILD_TYPE=Release"], timeout=600)
        if r.returncode != 0:
            print(r.stdout[-3000:])
            return 2
        r = sh(["cmake", "--build", b, "-j", str(NCPU)], timeout=3000)
        if r.returncode != 0:
            print(r.stdout[-5000:])
            return 1
        exe = None
        for root, _, files in os.walk(b):
            if "unittest" in files:
                exe = os.path.join(root, "unittest")
        xml = os.path.join(d, "r.xml")
        r = sh([exe, "-r", "junit", "-o", xml], timeout=3000, cwd=os.path.dirname(exe))
        passed = set()
        for tc in ET.parse(xml).getroot().iter("testcase"):
            if tc.find("failure") is None and tc.find("error") is None:
                passed.add("%s::%s" % (tc.get("classname"), tc.get("name")))
        missing = sorted(want - passed)
        print("baseline-off: %d/%d baseline tests pass with the guard off (unittest rc=%d)" % (len(want) - len(missing), len(want), r.returncode))
        for m in missing[:20]:
            print("  MISSING/FAILED:", m)
        return 0 if not missing else 1
    finally:
        shutil.rmtree(d, ignore_errors=True)


def selftest(args):
    import selftest as st
    return st.main(args)
