# Property registry: which engine decides which property; setup / replay / baseline-off commands.
import glob, json, os, shutil, subprocess, sys, tempfile, time
import xml.etree.ElementTree as ET
from core import *
import plan as planmod
import seqengine as se
import props_cl
import props_dq
import props_conc
import props_obj
import props_fault
import props_het
import props_anyid
import props_anydata
import props_c20
import concengine

SEQ_PLANS = {}
SEQ_PLANS.update(props_cl.PLANS)
SEQ_PLANS.update(props_dq.PLANS)
SEQ_PLANS.update(props_het.PLANS)
SEQ_PLANS.update(props_anyid.PLANS)
SEQ_PLANS.update(props_anydata.PLANS)

CUSTOM = {}   # pid -> function(tier, seed) -> exit code   (engines that are not plan-shaped)
for _pid, _fn in props_conc.PLANS.items():
    CUSTOM[_pid] = (lambda fn: (lambda tier, seed: concengine.run_conc(fn.__name__.upper(), tier, seed, fn(tier, seed))))(_fn)


def run(pid, tier, seed):
    if tier not in ("quick", "thorough"):
        raise MachineryError("tier must be quick or thorough")
    if pid in COMPOSITE:
        return planmod.run_composite(pid, tier, seed, [f(tier, seed) for f in COMPOSITE[pid]])
    if pid in SEQ_PLANS:
        return planmod.run_plan(pid, tier, seed, SEQ_PLANS[pid](tier, seed))
    if pid in CUSTOM:
        return CUSTOM[pid](tier, seed)
    raise MachineryError("unknown property " + pid)


def all_specs():
    return sorted(os.path.splitext(os.path.basename(p))[0] for p in glob.glob(os.path.join(SPEC, "*.tla")))


def setup():
    """Offline, from files on disk only: parse every specification, pre-build the quick-tier harness binaries."""
    t0 = time.time()
    bad = []
    for m in all_specs():
        ok, out = sany(m)
        if not ok:
            bad.append(m)
            log("SANY failed for %s:\n%s" % (m, out[-2000:]))
    if bad:
        return 2
    jobs = []
    seen = set()
    allplans = [fn("quick", 1) for fn in SEQ_PLANS.values()] + [f("quick", 1) for fs in COMPOSITE.values() for f in fs]
    for p in allplans:
        for w in p["worlds"]:
            key = (w["source"], tuple(w.get("defines", ())), w.get("compiler", "g++"), w.get("std", "c++11"), w.get("opt", "-O1"), w.get("sanitize", True))
            if key in seen:
                continue
            seen.add(key)
            jobs.append(dict(source=w["source"], defines=w.get("defines", ()), compiler=w.get("compiler", "g++"), std=w.get("std", "c++11"),
                             opt=w.get("opt", "-O1"), sanitize=w.get("sanitize", True), name=w["name"]))
    jobs.append(dict(source="cq_run.cpp", name="cq_run"))
    jobs.append(dict(source="cq_run.cpp", name=props_conc.RUNNER_HQ["name"], defines=props_conc.RUNNER_HQ["defines"]))
    jobs.append(dict(source="cq_run.cpp", name=props_conc.RUNNER_OQ["name"], defines=props_conc.RUNNER_OQ["defines"]))
    for r in props_conc.RUNNERS_CC + props_conc.RUNNERS_HC:
        jobs.append(dict(source=r["source"], defines=r["defines"], name=r["name"]))
    for r in props_conc.STRESS_CC + props_conc.STRESS_CQ:
        jobs.append(dict(source=r["source"], defines=r["defines"], name=r["name"], sanitize="thread"))
    for fn in SETUP_HOOKS:
        jobs += fn()
    build_many(jobs)
    log("setup done: %d specs parsed, %d binaries, %.0fs" % (len(all_specs()), len(jobs), time.time() - t0))
    return 0


SETUP_HOOKS = []


def replay(path):
    r = json.load(open(path))
    pid = r["property"]
    if r.get("engine") == "seq":
        wd = scratch("replay")
        try:
            fns = COMPOSITE.get(pid) or [SEQ_PLANS[pid]]
            cands = []
            for fn in fns:
                for tier in ("quick", "thorough"):
                    pl = fn(tier, 1)
                    wl = pl["worlds"](tier, 1) if callable(pl["worlds"]) else pl["worlds"]
                    cands += [x for x in wl if x["name"] == r["world"] and pl["trace_module"] == r["trace_module"]]
            if not cands:
                raise MachineryError("world %s not found for %s" % (r["world"], pid))
            w = cands[0]
            exe = build(w["source"], defines=w.get("defines", ()), compiler=w.get("compiler", "g++"), std=w.get("std", "c++11"),
                        opt=w.get("opt", "-O1"), sanitize=w.get("sanitize", True), name=w["name"])
            rej = {"script": r["script"], "world": r["world"]}
            again = se.confirm_rejection(exe, rej, r["trace_module"], wd, interp_args=w.get("args", ()), trace_env=w.get("trace_env"))
            if again:
                ex = rej.get("execution", [])
                ln = rej.get("trace_line", 0)
                print("replay: rejected again at event %d: %s" % (ln, ex[ln - 1] if 0 < ln <= len(ex) else "?"))
                print("VIOLATION property=%s replay=%s" % (pid, path))
                return 1
            print("replay: the execution is accepted on the current tree")
            return 0
        finally:
            shutil.rmtree(wd, ignore_errors=True)
    if r.get("engine") in REPLAYERS:
        return REPLAYERS[r["engine"]](r, path)
    raise MachineryError("no replayer for engine %s" % r.get("engine"))


REPLAYERS = {"conc": concengine.replay_conc}


def _c10_plan(tier, seed):
    models, worlds = props_obj.c10_objgen(tier, seed)
    return {"interp": "harness/obj_interp.cpp", "trace_module": "TraceObj", "models": models, "worlds": worlds,
            "defects": [{"module": "ObjGen", "constants": props_obj.oconsts(objs=2, cbs=1, enq=1, filters=0), "invariants": props_obj.OINV, "defect": "uninit"},
                        {"module": "ObjGen", "constants": props_obj.oconsts(objs=2, cbs=1, enq=0, filters=0), "invariants": props_obj.OINV, "defect": "share"}],
            "rule": "every transition of the bounded ObjGen reference model (2-3 objects; copy/move construction into storage pre-filled with 0xAB/0xFF/0x00/0xA5, "
                    "copy/move assignment incl. self, swap incl. self, destruction; listener/filter changes, dispatch, enqueue/process/emptyQueue/waitFor on "
                    "sources and results) replayed on EventQueue, EventDispatcher (MixinFilter), HeterEventQueue, HeterEventDispatcher (MixinHeterFilter) "
                    "in C++11/14/17/20 builds; each script ends with an independence probe (strip one object, dispatch on all); non-trivial = the script "
                    "contains a copy/move/assign/swap",
            "assumptions": props_obj.ASSUME}


def _c10_lists(tier, seed):
    quick = tier == "quick"
    c = props_cl.consts(4, 2 if not quick else 1, lists=2, ops={"a", "r", "v", "o", "cc", "ca", "ma", "s", "d"} if quick else {"a", "i", "r", "v", "o", "cc", "mc", "ca", "ma", "s", "d", "j"},
                        nest={"a", "r"} if not quick else set(), jump=(0,))
    return {"interp": "harness/cl_interp.cpp", "trace_module": "TraceCL",
            "models": [{"module": "CLImpl", "tag": "two-lists", "constants": c, "invariants": props_cl.INV, "heap": "16g"}],
            # (quick: four nodes so that lists of two callbacks get copied - a copy's back links matter only from the second node on - sampled)
            "worlds": [props_cl.world("cl_single_fn", 0, 0, fraction=0.12 if quick else 1.0), props_cl.world("cl_multi_cb", 1, 1, fraction=0.04 if quick else 0.2, fill="0xFF")],
            "nontrivial_key": "scripts",
            "rule": "every transition of the CLImpl model with two CallbackList objects: copy/move construction, copy/move assignment (incl. self), swap "
                    "(incl. self) and destruction interleaved with list operations and invocations; generation counters travel with the nodes",
            "assumptions": props_cl.ASSUME}


def _c02_dispatcher(tier, seed):
    # C02 also speaks of "a dispatcher's listener list": listeners and forEach functions that mutate, query, enumerate and re-dispatch
    # their own dispatcher, under every threading policy (a lock held across user code is a hang under std::mutex / SpinLock)
    quick = tier == "quick"
    ops = {"al", "pl", "il", "rl", "ol", "hl", "fu", "dp"}
    return {"interp": "harness/dq_interp.cpp", "trace_module": "TraceDQ",
            "models": [{"module": "DQImpl", "tag": "reentrant-dispatcher", "invariants": props_dq.INV,
                        "constants": props_dq.consts(events=(1, 2) if not quick else (1,), nodes=2 if quick else 3, enq=0, disp=2 if not quick else 1, depth=3, ops=ops,
                                                     nest=ops - {"pl", "hl"} if quick else ops)}],
            "worlds": [props_dq.world("rd_multi", obj=0, threading=1), props_dq.world("rd_spin_str", obj=0, threading=2, key=1, fraction=0.3, fill="0xFF"),
                       props_dq.world("rd_single_queue", obj=1, threading=0, fraction=0.3, fill="0x00"),
                       # tracked mutexes / atomics: touching one that was destroyed (a list or map node freed under a running traversal) is recorded
                       props_dq.world("rd_tracked", obj=0, threading=3), props_dq.world("rd_tracked_queue_umap", obj=1, threading=3, map_=1, fraction=0.5, fill="0xFF")],
            "nontrivial_key": "nested",
            "rule": "every transition of the bounded DQImpl model restricted to listener management, enumeration with a user function and dispatch, all of them "
                    "also issued from listeners and from forEach functions (nesting depth 3), replayed under std::mutex, SpinLock and the single-threaded policy",
            "assumptions": props_dq.ASSUME}


def _c01_dispatcher_helpers(tier, seed):
    # C01's helpers also come in a dispatcher / queue form (eventutil.h: removeListener / hasListener / hasAnyListener(dispatcher, event, callback))
    quick = tier == "quick"
    ops = {"al", "pl", "il", "rl", "ol", "hl", "dp"}
    return {"interp": "harness/dq_interp.cpp", "trace_module": "TraceDQ",
            "models": [{"module": "DQImpl", "tag": "helpers-dispatcher", "invariants": props_dq.INV,
                        "constants": props_dq.consts(events=(1, 2), nodes=3 if quick else 4, enq=0, disp=1, depth=2, ops=ops, nest={"rl", "ol", "hl"})}],
            "worlds": [props_dq.world("u_disp_cb", obj=0, threading=0, callback=1, util=1),
                       props_dq.world("u_queue_cb_str_multi", obj=1, threading=1, key=1, callback=1, util=1, fraction=0.5, fill="0xFF")],
            "nontrivial_key": "scripts",
            "rule": "every transition of the bounded DQImpl model restricted to listener management over two events, with removeListener / ownsHandle / "
                    "hasAnyListener executed through the eventutil.h helpers that search by callback value (also from inside listeners)",
            "assumptions": props_dq.ASSUME}


COMPOSITE = {"C01": [lambda tier, seed: props_cl.c01(tier, seed), _c01_dispatcher_helpers], "C10": [_c10_plan, _c10_lists], "C16": [props_dq.c16, props_het.c16h], "C12": [props_dq.c12, props_het.c12h]}
COMPOSITE["C02"] = [lambda tier, seed: props_cl.c02(tier, seed), _c02_dispatcher]
def _c08_lists(tier, seed):
    quick = tier == "quick"
    c = props_cl.consts(3, 2, lists=2, ops={"a", "r", "v", "cc", "ma", "s", "d", "x"} if quick else {"a", "i", "r", "v", "cc", "ca", "mc", "ma", "s", "d", "x"},
                        nest={"a", "r", "x"} if quick else {"a", "r", "x", "v"}, jump=())
    return {"interp": "harness/cl_interp.cpp", "trace_module": "TraceCL",
            "models": [{"module": "CLImpl", "tag": "lifetime-lists", "constants": c, "invariants": props_cl.INV, "heap": "16g"}],
            "worlds": [props_cl.world("cl_single_fn", 0, 0), props_cl.world("cl_multi_cb", 1, 1, fraction=0.2, fill="0xFF")],
            "nontrivial_key": "nested",
            "rule": "CLImpl with two lists: removal during invocation (pinned callbacks), throwing callbacks, copies, moves, swaps and destruction at any point; "
                    "TraceCL's ledger: live callback objects = listed callbacks when nothing runs, at most the pinned ones more while invocations run, zero at the end",
            "assumptions": props_cl.ASSUME}


def _c08_queue(tier, seed):
    quick = tier == "quick"
    ops = {"al", "rl", "nq", "pa", "po", "pi", "pu", "tk", "cl", "pk", "zz", "x"}
    return {"interp": "harness/dq_interp.cpp", "trace_module": "TraceDQ",
            "models": [{"module": "DQImpl", "tag": "lifetime-queue", "invariants": props_dq.INV,
                        "constants": props_dq.consts(nodes=1, enq=3 if quick else 4, depth=3, ops=ops, nest={"x", "nq", "cl", "tk"})}],
            "worlds": [props_dq.world("l_val", arg=0), props_dq.world("l_cref_str_multi", arg=1, key=1, threading=1, fraction=0.3, fill="0xFF"),
                       props_dq.world("l_tracked_val", arg=0, threading=3, fraction=0.3, fill="0x00")],
            "nontrivial_key": "nested",
            "rule": "DQImpl with clearEvents / takeEvent / processing calls left by exceptions / recycled slots / destruction of the queue with events still pending "
                    "('zz'); TraceDQ's payload ledger: live argument objects = queued events when nothing runs, zero after destruction",
            "assumptions": props_dq.ASSUME}


def _c08_objects(tier, seed):
    p = _c10_plan(tier, seed)
    p = dict(p)
    p["models"] = [m for m in p["models"] if m["tag"] in ("queue", "queue-nofilter")]
    p["worlds"] = [w for w in p["worlds"] if w["name"] in ("o_queue_single_ab", "o_hqueue_multi_ab")]
    p["defects"] = []
    p["rule"] = "ObjGen histories (copy / move / assign / swap / destroy of queues with listeners, filters and pending events); TraceObj's ledger is exact at every step"
    return p


# + copies/additions failing half-way; + the AnyData boxes (C08 is anchored in anydata.h too: every held object destroyed exactly once, also the moved-from ones)
COMPOSITE["C08"] = [_c08_lists, _c08_queue, _c08_objects, (lambda tier, seed: props_fault.plans(tier, seed)[1]), (lambda tier, seed: props_anydata.PLANS["C17"](tier, seed))]
COMPOSITE["C20"] = [(lambda i: (lambda tier, seed: props_c20.plans(tier, seed)[i]))(i) for i in range(4)]
COMPOSITE["C09"] = [(lambda i: (lambda tier, seed: props_fault.plans(tier, seed)[i]))(i) for i in range(7)]


def baseline_off():
    """Run the repository's own unit tests with the guard OFF against /repo/include and compare with BASELINE.json."""
    base = json.load(open("/root/.vp/BASELINE.json"))
    want = set(base["stable_pass"])
    d = tempfile.mkdtemp(prefix="eventpp-baseline-", dir=os.environ.get("VERIF_SCRATCH", "/var/tmp"))
    try:
        with open(os.path.join(d, "CMakeLists.txt"), "w") as f:
            f.write("cmake_minimum_required(VERSION 3.2)\nproject(eventppbaseline)\ninclude_directories(%s/include)\n"
                    "add_subdirectory(%s/tests/unittest unittest)\n" % (REPO, REPO))
        b = os.path.join(d, "b")
        r = sh(["cmake", "-G", "Ninja", "-S", d, "-B", b, "-DCMAKE_BUILD_TYPE=Release"], timeout=600)
        if r.returncode != 0:
            print(r.stdout[-3000:])
            return 2
        r = sh(["cmake", "--build", b, "-j", str(NCPU)], timeout=3000)
        if r.returncode != 0:
            print(r.stdout[-5000:])
            return 1
        exe = None
        for root, _, files in os.walk(b):
            if "unittest" in files:
                exe = os.path.join(root, "unittest")
        xml = os.path.join(d, "r.xml")
        r = sh([exe, "-r", "junit", "-o", xml], timeout=3000, cwd=os.path.dirname(exe))
        passed = set()
        for tc in ET.parse(xml).getroot().iter("testcase"):
            if tc.find("failure") is None and tc.find("error") is None:
                passed.add("%s::%s" % (tc.get("classname"), tc.get("name")))
        missing = sorted(want - passed)
        print("baseline-off: %d/%d baseline tests pass with the guard off (unittest rc=%d)" % (len(want) - len(missing), len(want), r.returncode))
        for m in missing[:20]:
            print("  MISSING/FAILED:", m)
        return 0 if not missing else 1
    finally:
        shutil.rmtree(d, ignore_errors=True)


def selftest(args):
    import selftest as st
    return st.main(args)
