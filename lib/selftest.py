# ./check selftest [binding] [reverts] [seeds [<Sxx>|<Cxx> ...]]
#   seeds:   every kept seeded change and hand-made mutant, applied to a scratch copy of the headers, must make its property's quick check report a VIOLATION
#   binding: for every abstract trace specification, record a small execution of the unchanged tree, check it is accepted, then
#            (a) corrupt one recorded field, (b) drop one record - both must be rejected (the specification is bound to what is recorded)
#   reverts: for every `fix:` commit of /repo, revert it alone in a scratch copy of the headers and require the owning check to report a
#            VIOLATION (and nothing but machinery-level success on the unchanged tree is assumed)
import json, os, re, shutil, subprocess, sys, tempfile
from core import *
import seqengine as se
import registry

BINDING = [
    # (trace module, plan function, property, script, world index, field to corrupt (regex, replacement))
    ("TraceCL", lambda: registry.SEQ_PLANS["C02"]("quick", 1), '[["k",1,100],["a",1,0],["a",1,0],["v",1,1],["r",1,2],["t",0,0]]', r'"e":"r","o":1,"a":2,"b":0,"r":1', '"e":"r","o":1,"a":2,"b":0,"r":0'),
    ("TraceDQ", lambda: registry.SEQ_PLANS["C05"]("quick", 1), '[["al",1,0],["nq",1,1],["nq",1,2],["pi",0,0],["pt",0,0],["pt",1,0],["t",0,0]]', r'"e":"pe","o":0,"a":3,"b":0,"r":1', '"e":"pe","o":0,"a":3,"b":0,"r":0'),
    ("TraceObj", lambda: registry._c10_plan("quick", 1), '[["al",1,1],["cc",1,2],["al",2,1]]', r'"e":"en","o":2,"a":2', '"e":"en","o":2,"a":1'),
    ("TraceHet", lambda: registry.SEQ_PLANS["C14"]("quick", 1), '[["al",2,0],["nq",2,0],["pa",0,0]]', r'"e":"al","o":0,"a":2,"b":2', '"e":"al","o":0,"a":2,"b":3'),
]


def binding():
    wd = scratch("selftest")
    bad = 0
    try:
        for mod, planf, script, pat, repl in BINDING:
            pl = planf()
            worlds = pl["worlds"]
            w = [x for x in worlds if not x.get("args")][0]
            if mod == "TraceHet":
                w = [x for x in worlds if x["name"] == "h_queue_multi"][0]
            exe = build(w["source"], defines=w.get("defines", ()), compiler=w.get("compiler", "g++"), std=w.get("std", "c++11"), opt=w.get("opt", "-O1"), name=w["name"])
            sf = os.path.join(wd, "s.scripts")
            open(sf, "w").write(json.dumps(script) + "\n")
            tr = os.path.join(wd, "t.ndjson")
            se.run_interp(exe, sf, tr)
            ok, line, n, res = se.validate_trace(mod, tr, wd, "base", trace_env=w.get("trace_env"))
            text = open(tr).read()
            if not ok or not re.search(pat, text):
                print("selftest binding %s: base trace not accepted or pattern not found (accepted=%s)" % (mod, ok))
                bad += 1
                continue
            open(tr, "w").write(re.sub(pat, repl, text, count=1))
            ok1, line1, _, _ = se.validate_trace(mod, tr, wd, "flip", trace_env=w.get("trace_env"))
            lines = text.splitlines(True)
            k = next(i for i, ln in enumerate(lines) if re.search(pat, ln))
            open(tr, "w").write("".join(lines[:k] + lines[k + 1:]))
            ok2, line2, _, _ = se.validate_trace(mod, tr, wd, "drop", trace_env=w.get("trace_env"))
            print("selftest binding %s: accepted=%s, corrupted field rejected=%s (at %s), dropped record rejected=%s (at %s)" % (mod, ok, not ok1, line1, not ok2, line2))
            if ok1 or ok2:
                bad += 1
    finally:
        shutil.rmtree(wd, ignore_errors=True)
    return bad


CONC_BINDING = [
    # (trace module, runner source, defines, name, scenario, mode args, field to corrupt (regex, replacement))
    ("TraceCQ", "cq_run.cpp", [], "cq_run", "nq,nq|pa", ["rand", "7", "3"], r'"e":"en","t":(\d),"a":(\d+),"b":(\d+)', lambda m: '"e":"en","t":%s,"a":%s,"b":%d' % (m.group(1), m.group(2), int(m.group(3)) + 1)),
    ("TraceCC", "cc_run.cpp", ["W_OBJ=0"], "cc_run_list", "2:a|r1", ["rand", "7", "3"], r'"e":"e","t":(\d),"op":"r","a":1,"r":1', lambda m: '"e":"e","t":%s,"op":"r","a":1,"r":0' % m.group(1)),
]


def conc_binding():
    import concengine
    wd = scratch("selftest-conc")
    bad = 0
    try:
        for mod, src, defines, name, scenario, mode, pat, repl in CONC_BINDING:
            exe = build(src, defines=defines, name=name)
            tr = os.path.join(wd, "t.ndjson")
            concengine.run_runner(exe, tr, scenario, mode)
            ok, line, n, res = se.validate_trace(mod, tr, wd, "base")
            text = open(tr).read()
            if not ok or not re.search(pat, text):
                print("selftest binding %s: base history not accepted or pattern not found (accepted=%s)" % (mod, ok))
                bad += 1
                continue
            open(tr, "w").write(re.sub(pat, repl, text, count=1))
            ok1, line1, _, _ = se.validate_trace(mod, tr, wd, "flip")
            lines = text.splitlines(True)
            k = next(i for i, ln in enumerate(lines) if re.search(pat, ln))
            open(tr, "w").write("".join(lines[:k] + lines[k + 1:]))
            ok2, line2, _, _ = se.validate_trace(mod, tr, wd, "drop")
            print("selftest binding %s: accepted=%s, corrupted field rejected=%s (at %s), dropped record rejected=%s (at %s)" % (mod, ok, not ok1, line1, not ok2, line2))
            if ok1 or ok2:
                bad += 1
    finally:
        shutil.rmtree(wd, ignore_errors=True)
    return bad


OWNER = {"df8fc79": "C02", "9cce7cb": "C04", "a82e766": "C07", "735ca7b": "C15", "d849cb8": "C10", "a718cff": "C09", "ebdd107": "C09", "2ea1087": "C09",
         "0aa2fb3": "C14", "247ec96": "C14", "36ba745": "C12", "2135124": "C03"}


def reverts():
    bad = 0
    log_lines = subprocess.run(["git", "-C", REPO, "log", "--format=%h %s"], capture_output=True, text=True).stdout.splitlines()
    fixes = [l.split()[0] for l in log_lines if l.split(" ", 1)[1].startswith("fix:")]
    for c in fixes:
        pid = OWNER.get(c)
        if not pid:
            print("selftest reverts: no owner recorded for fix %s" % c)
            continue
        d = tempfile.mkdtemp(prefix="revert-", dir="/var/tmp")
        try:
            shutil.copytree(os.path.join(REPO, "include"), os.path.join(d, "include"))
            diff = subprocess.run(["git", "-C", REPO, "diff", c + "^", c, "--", "include"], capture_output=True, text=True).stdout
            p = subprocess.run(["patch", "-p1", "-R", "-s", "-F3"], input=diff, text=True, cwd=d, capture_output=True)
            if p.returncode != 0:
                # later commits touch the same lines: use the hand-made equivalent of the revert kept under lib/reverts/
                alt = os.path.join(VERIF, "lib", "reverts", c + ".diff")
                shutil.rmtree(os.path.join(d, "include"))
                shutil.copytree(os.path.join(REPO, "include"), os.path.join(d, "include"))
                if not os.path.exists(alt) or subprocess.run(["patch", "-p1", "-s", "-F3"], input=open(alt).read(), text=True, cwd=d, capture_output=True).returncode != 0:
                    print("selftest reverts: %s does not revert cleanly on the current tree and no lib/reverts/%s.diff applies" % (c, c))
                    bad += 1
                    continue
            env = dict(os.environ)
            env["VERIF_REPO"] = d
            r = subprocess.run([os.path.join(VERIF, "check"), pid, "quick"], env=env, capture_output=True, text=True)
            caught = r.returncode == 1 and "VIOLATION property=%s" % pid in r.stdout
            print("selftest reverts: fix %s reverted -> %s quick exit %d, violation reported: %s" % (c, pid, r.returncode, caught))
            if not caught:
                bad += 1
        finally:
            shutil.rmtree(d, ignore_errors=True)
    return bad


def _run_patched(patch_text, pid, strip_R=False):
    d = tempfile.mkdtemp(prefix="seed-", dir="/var/tmp")
    try:
        shutil.copytree(os.path.join(REPO, "include"), os.path.join(d, "include"))
        p = subprocess.run(["patch", "-p1", "-s", "-F3"], input=patch_text, text=True, cwd=d, capture_output=True)
        if p.returncode != 0:
            return None, "patch does not apply: " + (p.stdout + p.stderr)[-300:]
        env = dict(os.environ)
        env["VERIF_REPO"] = d
        r = subprocess.run([os.path.join(VERIF, "check"), pid, "quick"], env=env, capture_output=True, text=True)
        return (r.returncode == 1 and "VIOLATION property=%s" % pid in r.stdout), "exit %d" % r.returncode
    finally:
        shutil.rmtree(d, ignore_errors=True)


def seeds(only=()):
    """every kept seeded change (seeded/*/patch.diff, written by sub-agents) and every hand-made mutant (lib/mutants/*.diff) must make the
    quick check of the property it breaks report a VIOLATION"""
    import glob
    bad = 0
    items = []
    for mdir in sorted(glob.glob(os.path.join(VERIF, "seeded", "S*"))):
        meta = json.load(open(os.path.join(mdir, "meta.json")))
        if meta.get("open_item"):
            print("selftest seeds: %s skipped (OPEN: %s)" % (os.path.basename(mdir), meta["open_item"][:80]))
            continue
        if meta.get("neutralised_by"):
            print("selftest seeds: %s skipped (no longer breaks the property: %s)" % (os.path.basename(mdir), meta["neutralised_by"][:60]))
            continue
        items.append((os.path.basename(mdir), meta["breaks_property"], os.path.join(mdir, "patch.diff")))
    mj = os.path.join(VERIF, "lib", "mutants", "mutants.json")
    if os.path.exists(mj):
        for name, m in sorted(json.load(open(mj)).items()):
            items.append((name, m["property"], os.path.join(VERIF, "lib", "mutants", name + ".diff")))
    for name, pid, patch in items:
        if only and not any(name.startswith(o) or pid == o for o in only):
            continue
        caught, note = _run_patched(open(patch).read(), pid)
        print("selftest seeds: %s -> %s quick %s, violation reported: %s" % (name, pid, note, caught))
        sys.stdout.flush()
        if not caught:
            bad += 1
    return bad


def main(args):
    what = args or ["binding"]
    bad = 0
    if "binding" in what:
        bad += binding()
        bad += conc_binding()
    if "reverts" in what:
        bad += reverts()
    if "seeds" in what:
        bad += seeds([a for a in what if a != "seeds"])
    print("selftest: %s" % ("ok" if bad == 0 else "%d problems" % bad))
    return 0 if bad == 0 else 1
