# C09: exceptions and allocation failure (fault enumeration), DESIGN.md 7/C09.  A composite of sub-plans over the list, dispatcher/queue,
# remover and whole-object engines: (a) scripted throws from user code (operation "x" of the models), (b) every script whose last
# operation has fault points is re-run with the k-th fault point armed (allocation failure / throwing copy, move, comparison) for
# k = 1, 2, ... until the operation completes untouched.
from core import *
import props_cl, props_dq, props_obj, props_het

FA = ["--fault", "3"]


def faultw(w, name=None, kinds="3", succession=False):
    w = dict(w)
    # succession: an operation that failed with everything unchanged is retried at once, fails at the same point again, and a third attempt must succeed
    w["args"] = ["--fault", kinds] + (["succession"] if succession else [])
    if name:
        w["name"] = name
    return w


ASSUME = ["fault points are: every global operator new and every copy/move construction, copy/move assignment and comparison of the harness's tracked user types; "
          "exceptions from Threading policy objects (mutex lock) are not injected",
          "faults in succession are sampled by one pattern: an operation that failed leaving everything unchanged is retried at once, fails at the same point again, "
          "and a third, undisturbed attempt must behave as if nothing had happened; sequences of different faulted operations are not enumerated",
          "after a failed copy ASSIGNMENT of a dispatcher/queue the destination is only destroyed, not observed (basic guarantee); a failed takeEvent may keep or discard the head event",
          "TLC and the CommunityModules JSON reader are correct; the interpreters record, they do not judge"]


def plans(tier, seed):
    quick = tier == "quick"
    out = []
    # (a1) lists: a callback throws
    out.append({"interp": "harness/cl_interp.cpp", "trace_module": "TraceCL",
                "models": [{"module": "CLImpl", "tag": "lists-throw", "invariants": props_cl.INV,
                            "constants": props_cl.consts(3, 2, ops={"a", "r", "i", "v", "x", "o"}, nest={"a", "r", "v", "x"} if quick else {"a", "r", "i", "v", "x"}, jump=())}],
                "worlds": [props_cl.world("cl_single_fn", 0, 0), props_cl.world("cl_multi_cb", 1, 1, fraction=0.2, fill="0xFF")],
                "nontrivial_key": "nested", "level": "fault_enumeration",
                "rule": "CLImpl with throwing callbacks ('x'): the exception leaves the invocation at every position of every bounded re-entrant history",
                "assumptions": ASSUME})
    # (b1) lists: add / copy under fault
    out.append({"interp": "harness/cl_interp.cpp", "trace_module": "TraceCL",
                "models": [{"module": "CLImpl", "tag": "lists-fault-add", "invariants": props_cl.INV, "last_ops": {"a", "p", "i"},
                            "constants": props_cl.consts(5 if quick else 6, 1, lists=1, ops={"a", "p", "i", "r"}, nest=set(), jump=())},
                           {"module": "CLImpl", "tag": "lists-fault-copy", "invariants": props_cl.INV, "last_ops": {"cc", "ca"},
                            "constants": props_cl.consts(6 if quick else 8, 1, lists=2, ops={"a", "cc", "ca"}, nest=set(), jump=())}],
                "worlds": [faultw(props_cl.world("cl_single_fn", 0, 0), "cl_single_fn_fault"), faultw(props_cl.world("cl_multi_cb", 1, 1, fraction=0.3, fill="0xFF"), "cl_multi_cb_fault"),
                           faultw(props_cl.world("cl_multi_cb", 1, 1, fraction=0.4), "cl_multi_cb_fault_succession", succession=True)],
                "nontrivial_key": "faults_fired", "level": "fault_enumeration",
                "rule": "every CLImpl script ending in append/prepend/insert/copy-construct/copy-assign is re-run with the k-th fault point armed, k = 1.. until no fault fires",
                "assumptions": ASSUME})
    # (a2) dispatcher / queue: listener, filter, predicate throw
    ops = {"al", "rl", "af", "dp", "nq", "pa", "po", "pi", "pu", "eq", "x"}
    out.append({"interp": "harness/dq_interp.cpp", "trace_module": "TraceDQ",
                "models": [{"module": "DQImpl", "tag": "dq-throw", "invariants": props_dq.INV,
                            "constants": props_dq.consts(events=(1,), nodes=2, filters=1, enq=3 if not quick else 2, disp=1, depth=4, ops=ops, nest={"x", "nq", "eq", "rl"})}],
                "worlds": [props_dq.world("t_val_filter", filt=1, arg=0), props_dq.world("t_cref_multi_filter", filt=1, arg=1, threading=1, fraction=0.3, fill="0xFF")],
                "nontrivial_key": "nested", "level": "fault_enumeration",
                "rule": "DQImpl with throwing listeners, filters and predicates ('x') during direct dispatch and process/processOne/processIf/processUntil",
                "assumptions": ASSUME})
    # (b2) dispatcher / queue operations under fault
    targets = {"al", "pl", "il", "af", "nq", "pk", "tk", "pa", "po", "pi", "dp"}
    out.append({"interp": "harness/dq_interp.cpp", "trace_module": "TraceDQ",
                "models": [{"module": "DQImpl", "tag": "dq-fault", "invariants": props_dq.INV, "last_ops": targets,
                            "constants": props_dq.consts(events=(1, 2) if not quick else (1,), nodes=2, filters=1, enq=2, disp=1, depth=3,
                                                         ops={"al", "pl", "il", "rl", "af", "nq", "pk", "tk", "pa", "po", "pi", "dp"}, nest=set())},
                           # enqueue into an ordered queue whose comparator can throw (the put-back sort of processIf is left out: a sort interrupted
                           # by an exception leaves an unspecified order, which the specification could not follow)
                           {"module": "DQImpl", "tag": "dq-fault-ordered-nq", "invariants": props_dq.INV, "last_ops": {"nq"},
                            "constants": props_dq.consts(events=(1, 2), nodes=1, filters=0, enq=3, disp=0, depth=3, ordered=True, ops={"al", "nq", "po", "tk"}, nest=set())}],
                "worlds": [faultw(props_dq.world("f_val_filter", filt=1, arg=0, only_tags=["dq-fault"]), "f_val_filter_fault"),
                           faultw(props_dq.world("f_val_ordered_byarg", order=3, arg=0, only_tags=["dq-fault-ordered-nq"]), "f_val_ordered_fault"),
                           faultw(props_dq.world("f_cref_str_multi", key=1, arg=1, threading=1, filt=1, fraction=0.3, fill="0xFF", only_tags=["dq-fault"]), "f_cref_str_fault"),
                           faultw(props_dq.world("f_val_filter", filt=1, arg=0, fraction=0.5, only_tags=["dq-fault"]), "f_val_filter_fault_succession", succession=True),
                           faultw(props_dq.world("f_val_ordered_byarg", order=3, arg=0, fraction=0.5, only_tags=["dq-fault-ordered-nq"]), "f_val_ordered_fault_succession", succession=True)],
                "nontrivial_key": "faults_fired", "level": "fault_enumeration",
                "rule": "every DQImpl script ending in a listener/filter addition, enqueue, peek, take, dispatch or processing call is re-run with the k-th fault point armed",
                "assumptions": ASSUME})
    # (b3) removers under fault
    out.append({"interp": "harness/dq_interp.cpp", "trace_module": "TraceDQ",
                "models": [{"module": "RemGen", "tag": "rem-fault", "invariants": props_dq.RINV, "last_ops": {"sa", "sp", "ac", "ak"},
                            "constants": props_dq.rconsts(nodes=3 if not quick else 2, removers=2, disp=0, counts=(1,), ops={"al", "sa", "sp", "sx", "sd", "sn", "ac", "ak"}, nest=set())}],
                "worlds": [faultw(props_dq.world("r_disp", obj=0), "r_disp_fault"), faultw(props_dq.world("r_queue_multi_str", obj=1, threading=1, key=1, arg=1, fraction=0.5, fill="0xFF"), "r_queue_fault"),
                           faultw(props_dq.world("r_disp", obj=0, fraction=0.5), "r_disp_fault_succession", succession=True)],
                "nontrivial_key": "faults_fired", "level": "fault_enumeration",
                "rule": "every RemGen script ending in an addition through ScopedRemover / CounterRemover / ConditionalRemover is re-run with the k-th fault point armed",
                "assumptions": ASSUME})
    # (b4) whole objects: copy construction / copy assignment / add / enqueue under fault
    om = {"module": "ObjGen", "tag": "obj-fault", "invariants": props_obj.OINV, "last_ops": {"cc", "ca", "al", "nq"},
          "constants": props_obj.oconsts(objs=2, cbs=3 if not quick else 2, enq=1, filters=1, ops={"al", "af", "nq", "cc", "ca"})}
    onf = {"module": "ObjGen", "tag": "obj-fault-nofilter", "invariants": props_obj.OINV, "last_ops": {"cc", "ca", "al", "nq"},
           "constants": props_obj.oconsts(objs=2, cbs=3 if not quick else 2, enq=1, filters=0, ops={"al", "nq", "cc", "ca"})}
    onq = {"module": "ObjGen", "tag": "obj-fault-noqueue", "invariants": props_obj.OINV, "last_ops": {"cc", "ca", "al"},
           "constants": props_obj.oconsts(objs=2, cbs=3, enq=0, filters=0, ops={"al", "rl", "cc", "ca"})}
    out.append({"interp": "harness/obj_interp.cpp", "trace_module": "TraceObj", "models": [om, onf, onq],
                "worlds": [faultw(props_obj.oworld("o_queue_single_ab", 0, threading=0, only_tags=["obj-fault"]), "o_queue_fault"),
                           faultw(props_obj.oworld("o_hqueue_multi_ab", 2, threading=1, only_tags=["obj-fault-nofilter"], std="c++14"), "o_hqueue_fault"),
                           faultw(props_obj.oworld("o_hdisp_single_a5", 3, threading=0, fill="0xA5", only_tags=["obj-fault-noqueue"]), "o_hdisp_fault"),
                           faultw(props_obj.oworld("o_hlist_multi", 4, threading=1, only_tags=["obj-fault-noqueue"]), "o_hlist_fault")],
                "nontrivial_key": "faults_fired", "level": "fault_enumeration",
                "rule": "every ObjGen script ending in copy construction / copy assignment / listener addition / enqueue is re-run with the k-th fault point armed on "
                        "EventQueue, HeterEventQueue, HeterEventDispatcher and HeterCallbackList objects",
                "assumptions": ASSUME})
    # (a3) heterogeneous classes: a listener throws
    out.append(props_het.c09h(tier, seed))
    return out
