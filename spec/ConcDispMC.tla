---- MODULE ConcDispMC ----
EXTENDS ConcDisp
A(e, c) == [k |-> "append", e |-> e, c |-> c]
R(e, c) == [k |-> "remove", e |-> e, c |-> c]
D(e) == [k |-> "dispatch", e |-> e, c |-> 0]
H(e) == [k |-> "hasAny", e |-> e, c |-> 0]
\* thread t registers listeners 10t+1.. for event 1 or for its own new event, dispatches, removes
Progs(t) == {<<A(1, 10 * t + 1), D(1)>>, <<A(1, 10 * t + 1), R(1, 10 * t + 1)>>, <<A(2, 10 * t + 1), D(1)>>, <<D(1), A(1, 10 * t + 1)>>,
             <<A(1, 10 * t + 1), R(1, 10 * t + 1), A(1, 10 * t + 2)>>, <<H(1), D(2)>>, <<A(2, 10 * t + 1), R(2, 10 * t + 1), D(2)>>}
Scen == {f \in [Threads -> UNION {Progs(t) : t \in Threads}] : \A t \in Threads : f[t] \in Progs(t)}
====
