---------------------------- MODULE TraceAnyData ----------------------------
(***************************************************************************)
(* Abstract oracle for C17: eventpp::AnyData holds, moves and destroys its *)
(* value like the value itself.  Executions recorded by                    *)
(* harness/anydata_run.cpp: one execution = one AnyData.tla script run for *)
(* one stored type Obj<sz, k>; the oracle is the same for every size and   *)
(* kind - "large objects behave identically to small ones" is exactly      *)
(* that.                                                                   *)
(* What the property fixes:                                                *)
(*  - a box built from a value v holds an object equal to v, not           *)
(*    moved-from, at an address that does not change, on which get<T>,     *)
(*    operator T&, operator T* and getAddress agree, isType<T> true,       *)
(*    isType<other> false, the object not relocated bitwise (self pointer  *)
(*    / byte pattern intact); a copy leaves the source untouched;          *)
(*  - moving a box gives the destination what the source had;              *)
(*  - the queue round trip delivers an equal object and keeps nothing;     *)
(*  - ledger lv (tracked objects alive, kinds 1..3): every box that holds  *)
(*    an object counts one until the box is destroyed.                     *)
(* What it leaves free (accepted either way):                              *)
(*  - construction from an rvalue may move or copy (sm);                   *)
(*  - a moved-from box either keeps a moved-from object ("movedfrom": it   *)
(*    counts in lv and, when the box still answers isType<T>, reads as a   *)
(*    moved-from T) or holds nothing any more ("hollow": the heap object   *)
(*    of a large value changes owner, no second object exists).  Which one *)
(*    is read off the ledger.  A moved-from box that does not answer       *)
(*    isType<T> is not read by the harness (hl # 0).                       *)
(* Kind 0 is trivially copyable: nothing to count (lv ignored), never      *)
(* moved-from (mf = 0).  Kind 3 owns a std::shared_ptr: uc = use_count.    *)
(***************************************************************************)
EXTENDS Integers, Sequences, FiniteSets, TLC, Json, IOUtils

TraceLog == ndJsonDeserialize(IOEnv.TRACE)
Boxes == 1..3
VARIABLES box,    \* [Boxes -> [state: "none"|"holds"|"movedfrom"|"hollow", val]]
          q,      \* <<0, 0>> idle | <<1, v>> v enqueued | <<2, v>> the listener has read it
          l
vars == <<box, q, l>>

None == [state |-> "none", val |-> 0]
Init == box = [b \in Boxes |-> None] /\ q = <<0, 0>> /\ l = 1
E == TraceLog[l]
Is(e) == l <= Len(TraceLog) /\ E.e = e /\ l' = l + 1
Idle == q = <<0, 0>>
Full(b) == b \in Boxes /\ box[b].state # "none"
Count(bx) == Cardinality({b \in Boxes : bx[b].state \in {"holds", "movedfrom"}})
Ledger(n) == E.k = 0 \/ E.lv = n
UC(n) == E.k # 3 \/ E.uc = n

\* reading a box that holds an object equal to v
GoodRead(v) == E.hl = 0 /\ E.v = v /\ E.mf = 0 /\ E.st = 1 /\ E.ag = 1 /\ E.it = 1 /\ E.io = 0 /\ E.sp = 1
\* reading a box whose content was moved out: nothing is promised about the value; if the box still says it holds a T, it is a moved-from T
MovedRead == /\ E.io = 0
             /\ E.hl = 0 => /\ E.mf = (IF E.k = 0 THEN 0 ELSE 1) /\ E.st = 1 /\ E.ag = 1 /\ E.it = 1 /\ E.sp = 1 /\ UC(0)
AfterMove == IF E.k = 0 THEN {"movedfrom"} ELSE {"movedfrom", "hollow"}

EvCopyIn == /\ Is("c") /\ Idle /\ E.o \in Boxes /\ ~Full(E.o)
            /\ GoodRead(E.a) /\ E.sv = E.a /\ E.sm = 0 /\ UC(2)
            /\ box' = [box EXCEPT ![E.o] = [state |-> "holds", val |-> E.a]] /\ UNCHANGED q /\ Ledger(Count(box'))
EvMoveIn == /\ Is("r") /\ Idle /\ E.o \in Boxes /\ ~Full(E.o)
            /\ GoodRead(E.a) /\ E.sm \in {0, 1} /\ (E.sm = 0 => E.sv = E.a) /\ UC(IF E.sm = 1 THEN 1 ELSE 2)
            /\ box' = [box EXCEPT ![E.o] = [state |-> "holds", val |-> E.a]] /\ UNCHANGED q /\ Ledger(Count(box'))
\* E.o source, E.a destination; the read facts are the destination's
EvMove == /\ Is("m") /\ Idle /\ Full(E.o) /\ E.a \in Boxes /\ ~Full(E.a)
          /\ LET src == box[E.o] IN
             /\ IF src.state = "holds" THEN GoodRead(src.val) /\ UC(1) ELSE MovedRead
             /\ \E s \in (IF src.state = "hollow" THEN {"hollow"} ELSE AfterMove),
                   t \in (IF src.state = "holds" THEN {"holds"} ELSE AfterMove) :
                   box' = [box EXCEPT ![E.o] = [state |-> s, val |-> src.val], ![E.a] = [state |-> t, val |-> src.val]]
          /\ UNCHANGED q /\ Ledger(Count(box'))
EvRead == /\ Is("g") /\ Idle /\ Full(E.o)
          /\ IF box[E.o].state = "holds" THEN GoodRead(box[E.o].val) /\ UC(1) ELSE MovedRead
          /\ UNCHANGED <<box, q>> /\ Ledger(Count(box))
EvDestroy == /\ Is("d") /\ Idle /\ Full(E.o) /\ box' = [box EXCEPT ![E.o] = None] /\ UNCHANGED q /\ Ledger(Count(box'))
\* the queue holds its own object from enqueue until process has delivered it, nothing before and nothing after
EvEnqueued == /\ Is("qn") /\ Idle /\ q' = <<1, E.a>> /\ UNCHANGED box /\ Ledger(Count(box) + 1)
EvHeard == /\ Is("ql") /\ q[1] = 1 /\ GoodRead(q[2]) /\ UC(1) /\ q' = <<2, q[2]>> /\ UNCHANGED box /\ Ledger(Count(box) + 1)
EvProcessed == /\ Is("qe") /\ q[1] = 2 /\ E.a = 1 /\ E.r = 1 /\ q' = <<0, 0>> /\ UNCHANGED box /\ Ledger(Count(box))
EvReset == /\ Is("rs") /\ Idle /\ (\A b \in Boxes : ~Full(b)) /\ Ledger(0) /\ UNCHANGED <<box, q>>

Next == EvCopyIn \/ EvMoveIn \/ EvMove \/ EvRead \/ EvDestroy \/ EvEnqueued \/ EvHeard \/ EvProcessed \/ EvReset
Report == IF TLCGet("stats").diameter - 1 = Len(TraceLog) THEN TRUE
          ELSE PrintT(<<"REJECTED", TLCGet("stats").diameter, Len(TraceLog)>>) /\ FALSE
=============================================================================
