------------------------------- MODULE CLImpl -------------------------------
(***************************************************************************)
(* Implementation-shaped, sequential, re-entrant model of                  *)
(* include/eventpp/callbacklist.h.                                         *)
(*                                                                         *)
(* Concrete state mirrors the code: per list head/tail/currentCounter,     *)
(* per node previous/next/counter, shared_ptr reference counting as a      *)
(* cascade (a node dies when nothing refers to it and then drops its own   *)
(* links), weak_ptr::lock() succeeds exactly while the node is unfreed,    *)
(* the traversal's local NodePtr pins its node, getNextCounter() wraps at  *)
(* MaxGen (standing for 2^32-1) and rewrites the linked nodes to 1.        *)
(*                                                                         *)
(* Ghost state is the abstract meaning: alist[l] is the sequence of        *)
(* callbacks the property talks about, atodo[d] what invocation d still    *)
(* has to call.  `bad` records the first disagreement; TLC checks          *)
(* bad = "ok" and the refinement invariants in every reachable state.      *)
(*                                                                         *)
(* `hist` is the operation script that reached the state; it is hidden by  *)
(* the VIEW and printed for every generated transition (transition cover), *)
(* the scripts are replayed on the real code by harness/seq_interp.cpp.    *)
(*                                                                         *)
(* Defects: "stale" = the code before the D1 repair (remove/insert/        *)
(* ownsHandle do not look at the removed mark of a node that a running     *)
(* invocation still pins).                                                  *)
(***************************************************************************)
EXTENDS Naturals, Sequences, FiniteSets, TLC, Json

CONSTANTS MaxNodes,   \* total node allocations in one history
          MaxDepth,   \* nesting depth of invocations
          MaxGen,     \* the counter value standing for 2^32-1
          MaxLists,   \* number of list objects (1 = C01/C02/C19, 2 = C10)
          InitDist,   \* set of initial distances MaxGen - currentCounter of list 1
          JumpDist,   \* distances to MaxGen that the "j" step may jump to
          Ops,        \* enabled operation codes
          NestOps,    \* operation codes that callbacks may perform (user code inside an invocation)
          Defects

Nodes == 1..MaxNodes
Lists == 1..MaxLists

VARIABLES alive, head, tail, cur,      \* per list
          nxt, prv, gen,               \* per node
          nalloc, freed, frames,
          alist, atodo, bad,           \* ghost
          hist

concrete == <<alive, head, tail, cur, nxt, prv, gen, nalloc, freed, frames>>
vars == <<alive, head, tail, cur, nxt, prv, gen, nalloc, freed, frames, alist, atodo, bad, hist>>
View == <<alive, head, tail, cur, nxt, prv, gen, nalloc, freed, frames, alist, atodo, bad>>

Fixed(d) == d \notin Defects

Init == /\ alive = [l \in Lists |-> l = 1]
        /\ head = [l \in Lists |-> 0] /\ tail = [l \in Lists |-> 0]
        /\ \E d \in InitDist : /\ cur = [l \in Lists |-> IF l = 1 THEN MaxGen - d ELSE 0]
                               /\ hist = <<<<"k", 1, d>>>>
        /\ nxt = [n \in Nodes |-> 0] /\ prv = [n \in Nodes |-> 0] /\ gen = [n \in Nodes |-> 0]
        /\ nalloc = 0 /\ freed = {} /\ frames = <<>>
        /\ alist = [l \in Lists |-> <<>>] /\ atodo = <<>> /\ bad = "ok"

InSeq(s, x) == \E i \in 1..Len(s) : s[i] = x
Pos(s, x) == CHOOSE i \in 1..Len(s) : s[i] = x
Rev(s) == [i \in 1..Len(s) |-> s[Len(s) + 1 - i]]
Range(s) == {s[i] : i \in 1..Len(s)}

\* weak_ptr<Node>::lock()
Lock(h) == IF h \in 1..nalloc /\ h \notin freed THEN h ELSE 0

RECURSIVE Walk(_,_,_)
Walk(nx, n, fuel) == IF n = 0 \/ fuel = 0 THEN <<>> ELSE <<n>> \o Walk(nx, nx[n], fuel - 1)
Chain(nx, n) == Range(Walk(nx, n, MaxNodes + 1))

\* ---- shared_ptr reference counting: free nodes nobody refers to, they drop their links, repeat
Refs(al, hd, tl, nx, pv, fr, fs, n) ==
    Cardinality({l \in Lists : al[l] /\ hd[l] = n}) + Cardinality({l \in Lists : al[l] /\ tl[l] = n})
  + Cardinality({m \in Nodes : m \notin fs /\ nx[m] = n}) + Cardinality({m \in Nodes : m \notin fs /\ pv[m] = n})
  + Cardinality({i \in DOMAIN fr : fr[i].node = n})
RECURSIVE Cascade(_,_,_,_,_,_,_,_)
Cascade(al, hd, tl, nx, pv, fr, fs, na) ==
  LET dead == {n \in 1..na : n \notin fs /\ Refs(al, hd, tl, nx, pv, fr, fs, n) = 0}
  IN IF dead = {} THEN <<nx, pv, fs>>
     ELSE Cascade(al, hd, tl, [n \in Nodes |-> IF n \in dead THEN 0 ELSE nx[n]],
                  [n \in Nodes |-> IF n \in dead THEN 0 ELSE pv[n]], fr, fs \cup dead, na)

Commit(al, hd, tl, cu, nx, pv, g, na, fr) ==
  LET r == Cascade(al, hd, tl, nx, pv, fr, freed, na) IN
  /\ alive' = al /\ head' = hd /\ tail' = tl /\ cur' = cu
  /\ nxt' = r[1] /\ prv' = r[2] /\ freed' = r[3]
  /\ gen' = g /\ nalloc' = na /\ frames' = fr

Same == Commit(alive, head, tail, cur, nxt, prv, gen, nalloc, frames)

\* ---- getNextCounter(): ++currentCounter; on overflow rewrite the linked nodes to 1 and draw again
Wraps(l) == cur[l] = MaxGen
NextCtr(l) == IF ~Wraps(l) THEN [v |-> cur[l] + 1, g |-> gen]
              ELSE [v |-> 1, g |-> [n \in Nodes |-> IF n \in Chain(nxt, head[l]) THEN 1 ELSE gen[n]]]
\* ghost: invocations of l that are in progress when the counter wraps may call later additions (C19)
TodoAfterAdd(l) == IF Wraps(l) THEN [d \in DOMAIN atodo |-> IF frames[d].l = l THEN [atodo[d] EXCEPT !.wrapped = TRUE] ELSE atodo[d]]
                   ELSE atodo

En(op) == op \in Ops /\ (frames = <<>> \/ op \in NestOps)
NoFrameOn(l) == \A d \in DOMAIN frames : frames[d].l # l
\* a handle may be passed to list l unless it is currently a live callback of another list
Usable(l, h) == h = 0 \/ (h \in 1..nalloc /\ \A m \in Lists : (m # l /\ alive[m]) => ~InSeq(alist[m], h))
Removed(n) == gen[n] = 0

\* ---- a long stretch of history compressed into one step: additions that were removed again (2^32-ish of them) leave the
\* list as it is and only advance the generation counter; the harness places the real counter with the guarded hook
OpJump(l, d) ==
  /\ En("j") /\ alive[l] /\ MaxGen - d > cur[l]
  /\ Commit(alive, head, tail, [cur EXCEPT ![l] = MaxGen - d], nxt, prv, gen, nalloc, frames)
  /\ UNCHANGED <<alist, atodo, bad>>
  /\ hist' = Append(hist, <<"j", l, d>>)

\* ---- adding
LinkTail(l, nx, pv, n) == IF head[l] = 0 THEN <<n, n, nx, pv>>
                          ELSE <<head[l], n, [nx EXCEPT ![tail[l]] = n], [pv EXCEPT ![n] = tail[l]]>>
OpAppend(l) ==
  /\ En("a") /\ alive[l] /\ nalloc < MaxNodes
  /\ LET n == nalloc + 1  c == NextCtr(l)  k == LinkTail(l, nxt, prv, n) IN
       Commit(alive, [head EXCEPT ![l] = k[1]], [tail EXCEPT ![l] = k[2]], [cur EXCEPT ![l] = c.v],
              k[3], k[4], [c.g EXCEPT ![n] = c.v], n, frames)
  /\ alist' = [alist EXCEPT ![l] = Append(@, nalloc + 1)] /\ atodo' = TodoAfterAdd(l) /\ UNCHANGED bad
  /\ hist' = Append(hist, <<"a", l, 0>>)

OpPrepend(l) ==
  /\ En("p") /\ alive[l] /\ nalloc < MaxNodes
  /\ LET n == nalloc + 1  c == NextCtr(l) IN
       IF head[l] = 0
       THEN Commit(alive, [head EXCEPT ![l] = n], [tail EXCEPT ![l] = n], [cur EXCEPT ![l] = c.v], nxt, prv, [c.g EXCEPT ![n] = c.v], n, frames)
       ELSE Commit(alive, [head EXCEPT ![l] = n], tail, [cur EXCEPT ![l] = c.v],
                   [nxt EXCEPT ![n] = head[l]], [prv EXCEPT ![head[l]] = n], [c.g EXCEPT ![n] = c.v], n, frames)
  /\ alist' = [alist EXCEPT ![l] = <<nalloc + 1>> \o @] /\ atodo' = TodoAfterAdd(l) /\ UNCHANGED bad
  /\ hist' = Append(hist, <<"p", l, 0>>)

AInsert(s, n, h) == IF InSeq(s, h) THEN LET p == Pos(s, h) IN SubSeq(s, 1, p - 1) \o <<n>> \o SubSeq(s, p, Len(s))
                    ELSE Append(s, n)
OpInsert(l, h) ==
  /\ En("i") /\ alive[l] /\ nalloc < MaxNodes /\ Usable(l, h)
  /\ LET n == nalloc + 1  b == Lock(h) IN
       IF b # 0 /\ (Fixed("stale") => ~Removed(b))
       THEN \* allocate (draw the counter), then doInsert(node, beforeNode)
            LET c == NextCtr(l)
                pv1 == [prv EXCEPT ![n] = prv[b], ![b] = n]
                nx1 == IF prv[b] # 0 THEN [nxt EXCEPT ![n] = b, ![prv[b]] = n] ELSE [nxt EXCEPT ![n] = b]
            IN Commit(alive, [head EXCEPT ![l] = IF b = head[l] THEN n ELSE @], tail, [cur EXCEPT ![l] = c.v],
                      nx1, pv1, [c.g EXCEPT ![n] = c.v], n, frames)
       ELSE LET c == NextCtr(l)  k == LinkTail(l, nxt, prv, n) IN
            Commit(alive, [head EXCEPT ![l] = k[1]], [tail EXCEPT ![l] = k[2]], [cur EXCEPT ![l] = c.v],
                   k[3], k[4], [c.g EXCEPT ![n] = c.v], n, frames)
  /\ alist' = [alist EXCEPT ![l] = AInsert(@, nalloc + 1, h)] /\ atodo' = TodoAfterAdd(l) /\ UNCHANGED bad
  /\ hist' = Append(hist, <<"i", l, h>>)

\* ---- removing: doFreeNode fixes the neighbours, marks the node, fixes head/tail, keeps the node's own links
OpRemove(l, h) ==
  /\ En("r") /\ alive[l] /\ Usable(l, h)
  /\ LET n == Lock(h)
         did == n # 0 /\ (Fixed("stale") => ~Removed(n)) IN
     /\ IF did
        THEN LET pv1 == IF nxt[n] # 0 THEN [prv EXCEPT ![nxt[n]] = prv[n]] ELSE prv
                 nx1 == IF prv[n] # 0 THEN [nxt EXCEPT ![prv[n]] = nxt[n]] ELSE nxt
             IN Commit(alive, [head EXCEPT ![l] = IF @ = n THEN nxt[n] ELSE @], [tail EXCEPT ![l] = IF @ = n THEN prv[n] ELSE @],
                       cur, nx1, pv1, [gen EXCEPT ![n] = 0], nalloc, frames)
        ELSE Same
     /\ bad' = IF bad = "ok" /\ did # InSeq(alist[l], h) THEN "remove-result" ELSE bad
  /\ alist' = [alist EXCEPT ![l] = SelectSeq(@, LAMBDA x : x # h)] /\ UNCHANGED atodo
  /\ hist' = Append(hist, <<"r", l, h>>)

\* ---- queries (no state change; a wrong answer is recorded in bad)
RECURSIVE Root(_,_)
Root(n, fuel) == IF fuel = 0 \/ prv[n] = 0 THEN n ELSE Root(prv[n], fuel - 1)
OpOwns(l, h) ==
  /\ En("o") /\ alive[l] /\ h \in 0..nalloc
  /\ LET n == Lock(h)
         res == n # 0 /\ (Fixed("stale") => ~Removed(n)) /\ Root(n, MaxNodes + 1) = head[l] IN
       bad' = IF bad = "ok" /\ res # InSeq(alist[l], h) THEN "owns-result" ELSE bad
  /\ Same /\ UNCHANGED <<alist, atodo>>
  /\ hist' = Append(hist, <<"o", l, h>>)

OpEmpty(l) ==
  /\ En("e") /\ alive[l]
  /\ bad' = IF bad = "ok" /\ (head[l] = 0) # (alist[l] = <<>>) THEN "empty-result" ELSE bad
  /\ Same /\ UNCHANGED <<alist, atodo>>
  /\ hist' = Append(hist, <<"e", l, 0>>)

\* doForEachIf: nodes visited by a traversal that starts now and whose callbacks change nothing
RECURSIVE Callable(_,_,_)
Callable(n, c, fuel) == IF n = 0 \/ fuel = 0 THEN <<>>
                        ELSE (IF gen[n] # 0 /\ c >= gen[n] THEN <<n>> ELSE <<>>) \o Callable(nxt[n], c, fuel - 1)
OpForEach(l, k) ==   \* k = 0: forEach; k > 0: forEachIf whose function returns false at the k-th call
  /\ En(IF k = 0 THEN "f" ELSE "g") /\ alive[l]
  /\ bad' = IF bad = "ok" /\ Callable(head[l], cur[l], MaxNodes + 1) # alist[l] THEN "enumeration" ELSE bad
  /\ Same /\ UNCHANGED <<alist, atodo>>
  /\ hist' = Append(hist, <<IF k = 0 THEN "f" ELSE "g", l, k>>)

\* eventutil.h: hasListener / hasAnyListener / removeListener(list, callback) search by callback equality
\* (in a one-list history the callback of node h is identified by h itself)
OpHasListener(l, h) ==
  /\ En("hl") /\ alive[l] /\ h \in 1..nalloc
  /\ bad' = IF bad = "ok" /\ (h \in Range(Callable(head[l], cur[l], MaxNodes + 1))) # InSeq(alist[l], h) THEN "hasListener" ELSE bad
  /\ Same /\ UNCHANGED <<alist, atodo>>
  /\ hist' = Append(hist, <<"hl", l, h>>)
OpHasAny(l) ==
  /\ En("ha") /\ alive[l]
  /\ bad' = IF bad = "ok" /\ (Callable(head[l], cur[l], MaxNodes + 1) = <<>>) # (alist[l] = <<>>) THEN "hasAnyListener" ELSE bad
  /\ Same /\ UNCHANGED <<alist, atodo>>
  /\ hist' = Append(hist, <<"ha", l, 0>>)
OpRemoveListener(l, h) ==   \* forEachIf until found, then remove(handle) from inside the enumeration
  /\ En("rl") /\ alive[l] /\ h \in 1..nalloc /\ MaxLists = 1
  /\ LET found == h \in Range(Callable(head[l], cur[l], MaxNodes + 1))  n == h IN
     /\ IF found
        THEN LET pv1 == IF nxt[n] # 0 THEN [prv EXCEPT ![nxt[n]] = prv[n]] ELSE prv
                 nx1 == IF prv[n] # 0 THEN [nxt EXCEPT ![prv[n]] = nxt[n]] ELSE nxt
             IN Commit(alive, [head EXCEPT ![l] = IF @ = n THEN nxt[n] ELSE @], [tail EXCEPT ![l] = IF @ = n THEN prv[n] ELSE @],
                       cur, nx1, pv1, [gen EXCEPT ![n] = 0], nalloc, frames)
        ELSE Same
     /\ bad' = IF bad = "ok" /\ found # InSeq(alist[l], h) THEN "removeListener" ELSE bad
  /\ alist' = [alist EXCEPT ![l] = SelectSeq(@, LAMBDA x : x # h)] /\ UNCHANGED atodo
  /\ hist' = Append(hist, <<"rl", l, h>>)

\* ---- invocation: the frame's node is the callback being run; every other operation happens inside it
RECURSIVE FirstCallable(_,_,_)
FirstCallable(n, c, fuel) == IF n = 0 \/ fuel = 0 THEN 0
                             ELSE IF gen[n] # 0 /\ c >= gen[n] THEN n ELSE FirstCallable(nxt[n], c, fuel - 1)
Live(l, s) == SelectSeq(s, LAMBDA x : InSeq(alist[l], x))

OpInvoke(l) ==
  /\ En("v") /\ alive[l] /\ Len(frames) < MaxDepth
  /\ LET n == FirstCallable(head[l], cur[l], MaxNodes + 1) IN
     IF n = 0
     THEN Same /\ UNCHANGED atodo /\ bad' = IF bad = "ok" /\ alist[l] # <<>> THEN "missed" ELSE bad
     ELSE /\ Commit(alive, head, tail, cur, nxt, prv, gen, nalloc, Append(frames, [l |-> l, node |-> n, cnt |-> cur[l], kind |-> "v"]))
          /\ atodo' = Append(atodo, [todo |-> alist[l], wrapped |-> FALSE])
          /\ bad' = IF bad = "ok" /\ (alist[l] = <<>> \/ Head(alist[l]) # n) THEN "first" ELSE bad
  /\ UNCHANGED alist
  /\ hist' = Append(hist, <<"v", l, Len(hist) % 3>>)

\* forEach with a function that is user code (it may change the list): the same traversal as an invocation
OpForEachUser(l) ==
  /\ En("fu") /\ alive[l] /\ Len(frames) < MaxDepth
  /\ LET n == FirstCallable(head[l], cur[l], MaxNodes + 1) IN
     IF n = 0
     THEN Same /\ UNCHANGED atodo /\ bad' = IF bad = "ok" /\ alist[l] # <<>> THEN "missed" ELSE bad
     ELSE /\ Commit(alive, head, tail, cur, nxt, prv, gen, nalloc, Append(frames, [l |-> l, node |-> n, cnt |-> cur[l], kind |-> "u"]))
          /\ atodo' = Append(atodo, [todo |-> alist[l], wrapped |-> FALSE])
          /\ bad' = IF bad = "ok" /\ (alist[l] = <<>> \/ Head(alist[l]) # n) THEN "first" ELSE bad
  /\ UNCHANGED alist
  /\ hist' = Append(hist, <<"fu", l, 0>>)

CbReturn ==
  /\ frames # <<>>
  /\ LET d == Len(frames)  f == frames[d]  g == atodo[d]
         n == FirstCallable(nxt[f.node], f.cnt, MaxNodes + 1)
         rest == Live(f.l, Tail(g.todo))                        \* what the invocation still owes
     IN IF n = 0
        THEN /\ Commit(alive, head, tail, cur, nxt, prv, gen, nalloc, SubSeq(frames, 1, d - 1))
             /\ atodo' = SubSeq(atodo, 1, d - 1)
             /\ bad' = IF bad = "ok" /\ rest # <<>> THEN "missed" ELSE bad
        ELSE /\ Commit(alive, head, tail, cur, nxt, prv, gen, nalloc, [frames EXCEPT ![d].node = n])
             /\ IF InSeq(rest, n)
                THEN /\ atodo' = [atodo EXCEPT ![d].todo = rest]
                     /\ bad' = IF bad = "ok" /\ Head(rest) # n THEN "order" ELSE bad
                ELSE /\ atodo' = [atodo EXCEPT ![d].todo = <<n>> \o rest]
                     /\ bad' = IF bad # "ok" THEN bad
                               ELSE IF ~g.wrapped THEN "called-new"
                               ELSE IF ~InSeq(alist[f.l], n) THEN "called-removed"
                               ELSE IF rest # <<>> /\ Pos(alist[f.l], n) > Pos(alist[f.l], Head(rest)) THEN "skipped"
                               ELSE bad
  /\ UNCHANGED alist
  /\ hist' = Append(hist, <<"t", 0, 0>>)

\* the running callback throws: the exception leaves the invocation (doForEachIf holds nothing but the local NodePtr)
CbThrow ==
  /\ frames # <<>> /\ "x" \in Ops
  /\ LET d == Len(frames) IN
     /\ Commit(alive, head, tail, cur, nxt, prv, gen, nalloc, SubSeq(frames, 1, d - 1))
     /\ atodo' = SubSeq(atodo, 1, d - 1)
  /\ UNCHANGED <<alist, bad>>
  /\ hist' = Append(hist, <<"x", 0, 0>>)

\* ---- whole-object operations (C10); never on a list that is running an invocation, except copying FROM it
Sever(nx, l) == [n \in Nodes |-> IF n \in Chain(nxt, head[l]) THEN 0 ELSE nx[n]]   \* doFreeAllNodes
Fresh(k) == [i \in 1..k |-> nalloc + i]

\* cloneFrom: fresh nodes, one generation drawn from the (new) list's own counter
CloneLinks(src, ids) ==
  LET k == Len(ids) IN
  <<[n \in Nodes |-> IF n \in Range(ids) THEN (IF Pos(ids, n) < k THEN ids[Pos(ids, n) + 1] ELSE 0) ELSE nxt[n]],
    [n \in Nodes |-> IF n \in Range(ids) THEN (IF Pos(ids, n) > 1 THEN ids[Pos(ids, n) - 1] ELSE 0) ELSE prv[n]]>>

OpCopyConstruct(s, t) ==
  /\ En("cc") /\ alive[s] /\ ~alive[t]
  /\ LET src == Walk(nxt, head[s], MaxNodes + 1)  k == Len(src)  ids == Fresh(k)  lk == CloneLinks(src, ids) IN
     /\ nalloc + k <= MaxNodes
     /\ Commit([alive EXCEPT ![t] = TRUE], [head EXCEPT ![t] = IF k = 0 THEN 0 ELSE ids[1]], [tail EXCEPT ![t] = IF k = 0 THEN 0 ELSE ids[k]],
               [cur EXCEPT ![t] = 1], lk[1], lk[2], [n \in Nodes |-> IF n \in Range(ids) THEN 1 ELSE gen[n]], nalloc + k, frames)
     /\ alist' = [alist EXCEPT ![t] = Fresh(Len(alist[s]))]
     /\ bad' = IF bad = "ok" /\ k # Len(alist[s]) THEN "copy" ELSE bad
  /\ UNCHANGED atodo
  /\ hist' = Append(hist, <<"cc", s, t>>)

OpMoveConstruct(s, t) ==   \* CallbackListBase() then swap(other)
  /\ En("mc") /\ alive[s] /\ ~alive[t] /\ NoFrameOn(s)
  /\ Commit([alive EXCEPT ![t] = TRUE], [head EXCEPT ![t] = head[s], ![s] = 0], [tail EXCEPT ![t] = tail[s], ![s] = 0],
            [cur EXCEPT ![t] = cur[s], ![s] = 0], nxt, prv, gen, nalloc, frames)
  /\ alist' = [alist EXCEPT ![t] = alist[s], ![s] = <<>>] /\ UNCHANGED <<atodo, bad>>
  /\ hist' = Append(hist, <<"mc", s, t>>)

OpCopyAssign(s, t) ==      \* if(this != &other) { copied(other); swap(copied); }  -- copied dies with this's old nodes
  /\ En("ca") /\ alive[s] /\ alive[t] /\ NoFrameOn(t)
  /\ IF s = t THEN Same /\ UNCHANGED <<alist, bad>>
     ELSE LET src == Walk(nxt, head[s], MaxNodes + 1)  k == Len(src)  ids == Fresh(k)  lk == CloneLinks(src, ids) IN
          /\ nalloc + k <= MaxNodes
          /\ Commit(alive, [head EXCEPT ![t] = IF k = 0 THEN 0 ELSE ids[1]], [tail EXCEPT ![t] = IF k = 0 THEN 0 ELSE ids[k]],
                    [cur EXCEPT ![t] = 1], Sever(lk[1], t), Sever(lk[2], t),
                    [n \in Nodes |-> IF n \in Range(ids) THEN 1 ELSE gen[n]], nalloc + k, frames)
          /\ alist' = [alist EXCEPT ![t] = Fresh(Len(alist[s]))]
          /\ bad' = IF bad = "ok" /\ k # Len(alist[s]) THEN "copy" ELSE bad
  /\ UNCHANGED atodo
  /\ hist' = Append(hist, <<"ca", s, t>>)

OpMoveAssign(s, t) ==      \* doFreeAllNodes(); take head, tail and the counter value; source keeps its counter
  /\ En("ma") /\ alive[s] /\ alive[t] /\ NoFrameOn(s) /\ NoFrameOn(t)
  /\ IF s = t THEN Same /\ UNCHANGED alist
     ELSE /\ Commit(alive, [head EXCEPT ![t] = head[s], ![s] = 0], [tail EXCEPT ![t] = tail[s], ![s] = 0],
                    [cur EXCEPT ![t] = cur[s]], Sever(nxt, t), Sever(prv, t), gen, nalloc, frames)
          /\ alist' = [alist EXCEPT ![t] = alist[s], ![s] = <<>>]
  /\ UNCHANGED <<atodo, bad>>
  /\ hist' = Append(hist, <<"ma", s, t>>)

OpSwap(s, t) ==
  /\ En("s") /\ alive[s] /\ alive[t] /\ s <= t /\ NoFrameOn(s) /\ NoFrameOn(t)
  /\ Commit(alive, [head EXCEPT ![t] = head[s], ![s] = head[t]], [tail EXCEPT ![t] = tail[s], ![s] = tail[t]],
            [cur EXCEPT ![t] = cur[s], ![s] = cur[t]], nxt, prv, gen, nalloc, frames)
  /\ alist' = [alist EXCEPT ![t] = alist[s], ![s] = alist[t]] /\ UNCHANGED <<atodo, bad>>
  /\ hist' = Append(hist, <<"s", s, t>>)

OpDestroy(l) ==
  /\ En("d") /\ alive[l] /\ NoFrameOn(l) /\ \E m \in Lists : m # l /\ alive[m]
  /\ Commit([alive EXCEPT ![l] = FALSE], [head EXCEPT ![l] = 0], [tail EXCEPT ![l] = 0], [cur EXCEPT ![l] = 0],
            Sever(nxt, l), Sever(prv, l), gen, nalloc, frames)
  /\ alist' = [alist EXCEPT ![l] = <<>>] /\ UNCHANGED <<atodo, bad>>
  /\ hist' = Append(hist, <<"d", l, 0>>)

Next == \/ \E l \in Lists : \/ OpAppend(l) \/ OpPrepend(l) \/ OpEmpty(l) \/ OpInvoke(l) \/ OpForEachUser(l)
                            \/ \E h \in 0..MaxNodes : OpInsert(l, h) \/ OpRemove(l, h) \/ OpOwns(l, h)
                            \/ OpHasAny(l) \/ \E h \in 1..MaxNodes : OpHasListener(l, h) \/ OpRemoveListener(l, h)
                            \/ \E k \in 0..2 : OpForEach(l, k)
                            \/ OpDestroy(l) \/ \E d \in JumpDist : OpJump(l, d)
                            \/ \E t \in Lists : OpCopyConstruct(l, t) \/ OpMoveConstruct(l, t) \/ OpCopyAssign(l, t)
                                                 \/ OpMoveAssign(l, t) \/ OpSwap(l, t)
        \/ CbReturn \/ CbThrow

\* transition cover: one script per generated transition
Emit == PrintT(ToJson(hist'))

\* ---- invariants
Ok == bad = "ok"
RefinesList == \A l \in Lists : alive[l] =>
                 /\ Walk(nxt, head[l], MaxNodes + 1) = alist[l]
                 /\ Walk(prv, tail[l], MaxNodes + 1) = Rev(alist[l])
                 /\ (alist[l] = <<>> => head[l] = 0 /\ tail[l] = 0)
RefinesFrames == \A d \in DOMAIN frames : atodo[d].todo # <<>> /\ Head(atodo[d].todo) = frames[d].node
\* nothing leaks: once no invocation runs, every unfreed node is a listed callback of a live list (C08)
NoLeak == frames = <<>> => \A n \in 1..nalloc : n \notin freed => \E l \in Lists : alive[l] /\ InSeq(alist[l], n)
\* a removed callback is released as soon as no invocation that was running when it was removed is in progress
Pinned == \A n \in 1..nalloc : (n \notin freed /\ \A l \in Lists : ~(alive[l] /\ InSeq(alist[l], n))) => frames # <<>>
\* every listed callback of a live list is callable by an invocation starting now (C19: never unreachable)
Reachable == \A l \in Lists : alive[l] => \A i \in 1..Len(alist[l]) : gen[alist[l][i]] # 0 /\ gen[alist[l][i]] <= cur[l]
TypeOK == cur \in [Lists -> 0..MaxGen] /\ nalloc \in 0..MaxNodes
=============================================================================
