------------------------------- MODULE TraceCL -------------------------------
(***************************************************************************)
(* Abstract specification of callback lists (what C01, C02, C08, C10 and   *)
(* C19 say, nothing about links or counters) used as the oracle for        *)
(* executions recorded from the real eventpp::CallbackList by              *)
(* harness/cl_interp.cpp.                                                  *)
(*                                                                         *)
(* A list is a sequence of callback nodes.  An invocation is a frame with  *)
(* the snapshot it still has to call (todo); a callback added later is     *)
(* not in it, a callback removed before its turn is skipped.  Handles are  *)
(* node numbers; a handle whose node is in no list is stale and inert.     *)
(* Everything the statements leave open is nondeterministic here:          *)
(*   - an invocation in progress when the 2^32-addition counter wraps may  *)
(*     also call callbacks added during it (C19);                          *)
(*   - the source of a move assignment is empty or holds what the          *)
(*     destination held (C10);                                             *)
(*   - a callback removed while invocations run may still be alive until   *)
(*     they end (C08): lv is a range then, exact otherwise.                *)
(*                                                                         *)
(* One action per recorded event; TLC accepts the trace iff some           *)
(* behaviour of this specification produces exactly the recorded events.   *)
(***************************************************************************)
EXTENDS Naturals, Sequences, FiniteSets, TLC, Json, IOUtils

TraceLog == ndJsonDeserialize(IOEnv.TRACE)
MaxL == 3
Big == 1000000
Lists == 1..MaxL

VARIABLES lists,     \* [Lists -> Seq(node)]
          alive,     \* [Lists -> BOOLEAN]
          cbOf,      \* Seq: node -> callback identity (copies share the identity of their original)
          until,     \* [Lists -> Nat]: additions that still fit before the generation counter wraps
          frames,    \* stack of invocations / enumerations in progress
          pins,      \* callbacks removed while some invocation was in progress (may still be alive)
          l          \* cursor into the trace
vars == <<lists, alive, cbOf, until, frames, pins, l>>

InSeq(s, x) == \E i \in 1..Len(s) : s[i] = x
Pos(s, x) == CHOOSE i \in 1..Len(s) : s[i] = x
Without(s, x) == SelectSeq(s, LAMBDA y : y # x)

Init == /\ lists = [i \in Lists |-> <<>>] /\ alive = [i \in Lists |-> i = 1]
        /\ cbOf = <<>> /\ until = [i \in Lists |-> Big] /\ frames = <<>> /\ pins = 0 /\ l = 1

Ev == TraceLog[l]
Is(e) == l <= Len(TraceLog) /\ Ev.e = e /\ l' = l + 1
Top == frames[Len(frames)]
\* user code runs at top level or inside the callback on top of the stack
InCtx == IF frames = <<>> THEN TRUE ELSE Top.cur # 0
Total(ls, al) == LET RECURSIVE Sum(_)
                     Sum(i) == IF i = 0 THEN 0 ELSE (IF al[i] THEN Len(ls[i]) ELSE 0) + Sum(i - 1)
                 IN Sum(MaxL)
\* live callback objects reported by the harness: exact when no invocation runs, else up to `pins` more
LvOk(ls, al, p) == LET t == Total(ls, al) IN Ev.lv >= t /\ Ev.lv <= t + p
Usable(i, h) == h = 0 \/ \A m \in Lists : (m # i /\ alive[m]) => ~InSeq(lists[m], h)
Live(i, s) == SelectSeq(s, LAMBDA x : InSeq(lists[i], x))

\* an addition draws one generation number; at the wrap the invocations in progress on that list become loose
AfterAdd(i) == /\ until' = [until EXCEPT ![i] = IF @ = 0 THEN Big ELSE @ - 1]
               /\ frames' = IF until[i] = 0 THEN [d \in DOMAIN frames |-> IF frames[d].l = i THEN [frames[d] EXCEPT !.wrapped = TRUE] ELSE frames[d]]
                            ELSE frames
\* (Ev.b # 0: the new node holds a callback EQUAL to identity Ev.b - the same comparable callback registered once more)
Add(i, newlist) == /\ InCtx /\ alive[i] /\ Ev.r = Len(cbOf) + 1
                   /\ lists' = [lists EXCEPT ![i] = newlist] /\ cbOf' = Append(cbOf, IF Ev.b # 0 THEN Ev.b ELSE Len(cbOf) + 1)
                   /\ AfterAdd(i) /\ LvOk(lists', alive, pins) /\ UNCHANGED <<alive, pins>>

EvSetCtr == Is("k") /\ frames = <<>> /\ until' = [until EXCEPT ![Ev.o] = Ev.a] /\ UNCHANGED <<lists, alive, cbOf, frames, pins>>
\* the counter was advanced as if by additions that were removed again: nothing changes but the distance to the wrap
EvJump == Is("j") /\ alive[Ev.o] /\ Ev.a <= until[Ev.o] /\ until' = [until EXCEPT ![Ev.o] = Ev.a] /\ UNCHANGED <<lists, alive, cbOf, frames, pins>>
EvAppend == Is("a") /\ Add(Ev.o, Append(lists[Ev.o], Len(cbOf) + 1))
EvPrepend == Is("p") /\ Add(Ev.o, <<Len(cbOf) + 1>> \o lists[Ev.o])
EvInsert == Is("i") /\ Usable(Ev.o, Ev.a)
            /\ LET s == lists[Ev.o]  n == Len(cbOf) + 1 IN
               Add(Ev.o, IF InSeq(s, Ev.a) THEN LET p == Pos(s, Ev.a) IN SubSeq(s, 1, p - 1) \o <<n>> \o SubSeq(s, p, Len(s))
                         ELSE Append(s, n))
EvRemove == /\ Is("r") /\ InCtx /\ alive[Ev.o] /\ Usable(Ev.o, Ev.a)
            /\ LET was == InSeq(lists[Ev.o], Ev.a) IN
               /\ Ev.r = (IF was THEN 1 ELSE 0)
               /\ lists' = [lists EXCEPT ![Ev.o] = Without(@, Ev.a)]
               /\ pins' = IF was /\ frames # <<>> THEN pins + 1 ELSE pins
            /\ LvOk(lists', alive, pins') /\ UNCHANGED <<alive, cbOf, until, frames>>
EvOwns == Is("o") /\ InCtx /\ alive[Ev.o] /\ Ev.r = (IF InSeq(lists[Ev.o], Ev.a) THEN 1 ELSE 0)
          /\ LvOk(lists, alive, pins) /\ UNCHANGED <<lists, alive, cbOf, until, frames, pins>>
EvEmpty == Is("e") /\ InCtx /\ alive[Ev.o] /\ Ev.r = (IF lists[Ev.o] = <<>> THEN 1 ELSE 0)
           /\ LvOk(lists, alive, pins) /\ UNCHANGED <<lists, alive, cbOf, until, frames, pins>>

\* eventutil.h helpers search by callback equality (Ev.a is a callback identity)
WithCb(i, c) == SelectSeq(lists[i], LAMBDA n : cbOf[n] = c)
EvHasListener == Is("hl") /\ InCtx /\ alive[Ev.o] /\ Ev.r = (IF WithCb(Ev.o, Ev.a) # <<>> THEN 1 ELSE 0)
                 /\ LvOk(lists, alive, pins) /\ UNCHANGED <<lists, alive, cbOf, until, frames, pins>>
EvHasAny == Is("ha") /\ InCtx /\ alive[Ev.o] /\ Ev.r = (IF lists[Ev.o] # <<>> THEN 1 ELSE 0)
            /\ LvOk(lists, alive, pins) /\ UNCHANGED <<lists, alive, cbOf, until, frames, pins>>
EvRemoveListener == /\ Is("rl") /\ InCtx /\ alive[Ev.o]
                    /\ LET w == WithCb(Ev.o, Ev.a) IN
                       /\ Ev.r = (IF w # <<>> THEN 1 ELSE 0)
                       /\ lists' = [lists EXCEPT ![Ev.o] = IF w # <<>> THEN Without(@, Head(w)) ELSE @]
                       /\ pins' = IF w # <<>> /\ frames # <<>> THEN pins + 1 ELSE pins
                    /\ LvOk(lists', alive, pins') /\ UNCHANGED <<alive, cbOf, until, frames>>

\* ---- invocation (kind "v") and enumeration (kind "f": forEach, stop = 0; forEachIf stopping at the stop-th visit)
Push(kind, stop) == /\ InCtx /\ alive[Ev.o]
                    /\ frames' = Append(frames, [l |-> Ev.o, todo |-> lists[Ev.o], cur |-> 0, arg |-> Ev.a, wrapped |-> FALSE,
                                                 base |-> Len(cbOf), extra |-> {}, kind |-> kind, stop |-> stop, seen |-> 0, thrown |-> FALSE])
                    /\ UNCHANGED <<lists, alive, cbOf, until, pins>>
EvInvokeBegin == Is("vb") /\ Push("v", 0)

\* the frame on top calls callback identity c: which node may that be?
Callee(f, c) ==
  LET t == Live(f.l, f.todo) IN
  { n \in 1..Len(cbOf) :
      /\ cbOf[n] = c /\ InSeq(lists[f.l], n)
      /\ \/ t # <<>> /\ n = Head(t)                                      \* the next one owed, in order
         \/ /\ f.wrapped /\ n > f.base /\ n \notin f.extra                \* C19: added during this invocation
            /\ ~InSeq(t, n)
            /\ (t # <<>> => Pos(lists[f.l], n) < Pos(lists[f.l], Head(t))) }
Advance(f, n) == LET t == Live(f.l, f.todo) IN
                 IF t # <<>> /\ n = Head(t) THEN [f EXCEPT !.todo = Tail(t)] ELSE [f EXCEPT !.todo = t, !.extra = @ \cup {n}]

EvEnter == /\ Is("en") /\ frames # <<>> /\ Top.cur = 0 /\ Top.kind = "v" /\ ~Top.thrown /\ Ev.b = Top.arg
           /\ \E n \in Callee(Top, Ev.a) : frames' = [frames EXCEPT ![Len(frames)] = [Advance(Top, n) EXCEPT !.cur = n]]
           /\ LvOk(lists, alive, pins) /\ UNCHANGED <<lists, alive, cbOf, until, pins>>
EvRet == /\ Is("rt") /\ frames # <<>> /\ Top.cur # 0 /\ cbOf[Top.cur] = Ev.a
         /\ frames' = [frames EXCEPT ![Len(frames)].cur = 0]
         /\ UNCHANGED <<lists, alive, cbOf, until, pins>>
Pop == /\ frames' = SubSeq(frames, 1, Len(frames) - 1)
       /\ pins' = IF Len(frames) = 1 THEN 0 ELSE pins
EvInvokeEnd == /\ Is("ve") /\ frames # <<>> /\ Top.cur = 0 /\ Top.kind = "v" /\ ~Top.thrown /\ Live(Top.l, Top.todo) = <<>>
               /\ Pop /\ LvOk(lists, alive, pins') /\ UNCHANGED <<lists, alive, cbOf, until>>
\* enumeration: the function sees handle Ev.a (node) and callback identity Ev.b
EvVisit == /\ Is("vi") /\ frames # <<>> /\ Top.kind = "f" /\ Top.cur = 0 /\ (Top.stop = 0 \/ Top.seen < Top.stop)
           /\ Ev.a \in Callee(Top, Ev.b)
           /\ frames' = [frames EXCEPT ![Len(frames)] = [Advance(Top, Ev.a) EXCEPT !.seen = @ + 1]]
           /\ UNCHANGED <<lists, alive, cbOf, until, pins>>
EvForEachEnd == /\ Is("fe") /\ frames # <<>> /\ Top.kind = "f"
                /\ IF Top.stop # 0 /\ Top.seen = Top.stop THEN Ev.r = 0
                   ELSE Live(Top.l, Top.todo) = <<>> /\ Ev.r = 1
                /\ Pop /\ UNCHANGED <<lists, alive, cbOf, until>>

\* forEach whose function is user code: same visiting rules as an invocation; the function sees handle Ev.a and callback identity Ev.b
EvEnumBegin == Is("fub") /\ Push("u", 0)
EvEnumVisit == /\ Is("vu") /\ frames # <<>> /\ Top.cur = 0 /\ Top.kind = "u" /\ ~Top.thrown
               /\ Ev.a \in Callee(Top, Ev.b)
               /\ frames' = [frames EXCEPT ![Len(frames)] = [Advance(Top, Ev.a) EXCEPT !.cur = Ev.a]]
               /\ LvOk(lists, alive, pins) /\ UNCHANGED <<lists, alive, cbOf, until, pins>>
EvEnumRet == /\ Is("vr") /\ frames # <<>> /\ Top.kind = "u" /\ Top.cur = Ev.a /\ Ev.a # 0
             /\ frames' = [frames EXCEPT ![Len(frames)].cur = 0] /\ UNCHANGED <<lists, alive, cbOf, until, pins>>
EvEnumEnd == /\ Is("fue") /\ frames # <<>> /\ Top.cur = 0 /\ Top.kind = "u" /\ Live(Top.l, Top.todo) = <<>>
             /\ Pop /\ LvOk(lists, alive, pins') /\ UNCHANGED <<lists, alive, cbOf, until>>
EvForEachBegin == Is("fb") /\ Push("f", Ev.b)

\* ---- exceptions (C09)
\* a callback throws: the exception reaches the caller of the invocation, no further callback of that invocation runs,
\* the list is as the callbacks left it
EvThrow == /\ Is("xt") /\ frames # <<>> /\ Top.cur # 0 /\ cbOf[Top.cur] = Ev.a /\ Top.kind = "v"
           /\ frames' = [frames EXCEPT ![Len(frames)].cur = 0, ![Len(frames)].thrown = TRUE]
           /\ UNCHANGED <<lists, alive, cbOf, until, pins>>
EvInvokeExit == /\ Is("vx") /\ frames # <<>> /\ Top.cur = 0 /\ Top.kind = "v" /\ Top.thrown
                /\ Pop /\ LvOk(lists, alive, pins') /\ UNCHANGED <<lists, alive, cbOf, until>>
\* an operation failed with an injected allocation failure / throwing copy: it reached the caller and left everything as it was
EvFaulted == /\ Is("xf") /\ InCtx /\ LvOk(lists, alive, pins) /\ UNCHANGED <<lists, alive, cbOf, until, frames, pins>>

\* ---- whole-object operations (C10)
NoFrameOn(i) == \A d \in DOMAIN frames : frames[d].l # i
Fresh(k) == [j \in 1..k |-> Len(cbOf) + j]
CopiedCb(s) == [j \in 1..Len(lists[s]) |-> cbOf[lists[s][j]]]
EvCopyConstruct == /\ Is("cc") /\ InCtx /\ alive[Ev.o] /\ ~alive[Ev.a] /\ Ev.r = Len(lists[Ev.o])
                   /\ lists' = [lists EXCEPT ![Ev.a] = Fresh(Len(lists[Ev.o]))] /\ cbOf' = cbOf \o CopiedCb(Ev.o)
                   /\ alive' = [alive EXCEPT ![Ev.a] = TRUE] /\ until' = [until EXCEPT ![Ev.a] = Big]
                   /\ LvOk(lists', alive', pins) /\ UNCHANGED <<frames, pins>>
EvCopyAssign == /\ Is("ca") /\ InCtx /\ alive[Ev.o] /\ alive[Ev.a] /\ NoFrameOn(Ev.a)
                /\ IF Ev.o = Ev.a THEN Ev.r = 0 /\ UNCHANGED <<lists, cbOf, until>>
                   ELSE /\ Ev.r = Len(lists[Ev.o])
                        /\ lists' = [lists EXCEPT ![Ev.a] = Fresh(Len(lists[Ev.o]))] /\ cbOf' = cbOf \o CopiedCb(Ev.o)
                        /\ until' = [until EXCEPT ![Ev.a] = Big]
                /\ LvOk(lists', alive, pins) /\ UNCHANGED <<alive, frames, pins>>
EvMoveConstruct == /\ Is("mc") /\ InCtx /\ alive[Ev.o] /\ ~alive[Ev.a] /\ NoFrameOn(Ev.o)
                   /\ lists' = [lists EXCEPT ![Ev.a] = lists[Ev.o], ![Ev.o] = <<>>]
                   /\ alive' = [alive EXCEPT ![Ev.a] = TRUE]
                   /\ until' = [until EXCEPT ![Ev.a] = until[Ev.o], ![Ev.o] = Big]
                   /\ LvOk(lists', alive', pins) /\ UNCHANGED <<cbOf, frames, pins>>
EvMoveAssign == /\ Is("ma") /\ InCtx /\ alive[Ev.o] /\ alive[Ev.a] /\ NoFrameOn(Ev.o) /\ NoFrameOn(Ev.a)
                /\ IF Ev.o = Ev.a THEN UNCHANGED <<lists, until>>
                   ELSE /\ \/ lists' = [lists EXCEPT ![Ev.a] = lists[Ev.o], ![Ev.o] = <<>>]
                           \/ lists' = [lists EXCEPT ![Ev.a] = lists[Ev.o], ![Ev.o] = lists[Ev.a]]
                        /\ until' = [until EXCEPT ![Ev.a] = until[Ev.o]]
                /\ LvOk(lists', alive, pins) /\ UNCHANGED <<alive, cbOf, frames, pins>>
EvSwap == /\ Is("s") /\ InCtx /\ alive[Ev.o] /\ alive[Ev.a] /\ NoFrameOn(Ev.o) /\ NoFrameOn(Ev.a)
          /\ lists' = [lists EXCEPT ![Ev.a] = lists[Ev.o], ![Ev.o] = lists[Ev.a]]
          /\ until' = [until EXCEPT ![Ev.a] = until[Ev.o], ![Ev.o] = until[Ev.a]]
          /\ LvOk(lists', alive, pins) /\ UNCHANGED <<alive, cbOf, frames, pins>>
EvDestroy == /\ Is("d") /\ InCtx /\ alive[Ev.o] /\ NoFrameOn(Ev.o)
             /\ alive' = [alive EXCEPT ![Ev.o] = FALSE] /\ lists' = [lists EXCEPT ![Ev.o] = <<>>]
             /\ LvOk(lists', alive', pins) /\ UNCHANGED <<cbOf, until, frames, pins>>
\* end of one execution: everything destroyed, nothing alive any more
EvReset == /\ Is("rs") /\ frames = <<>> /\ \A i \in Lists : ~alive[i] /\ Ev.lv = 0
           /\ lists' = [i \in Lists |-> <<>>] /\ alive' = [i \in Lists |-> i = 1] /\ cbOf' = <<>>
           /\ until' = [i \in Lists |-> Big] /\ frames' = <<>> /\ pins' = 0

Next == \/ EvThrow \/ EvInvokeExit \/ EvFaulted \/ EvEnumBegin \/ EvEnumVisit \/ EvEnumRet \/ EvEnumEnd
        \/ EvHasListener \/ EvHasAny \/ EvRemoveListener
        \/ EvSetCtr \/ EvJump \/ EvAppend \/ EvPrepend \/ EvInsert \/ EvRemove \/ EvOwns \/ EvEmpty
        \/ EvInvokeBegin \/ EvEnter \/ EvRet \/ EvInvokeEnd \/ EvForEachBegin \/ EvVisit \/ EvForEachEnd
        \/ EvCopyConstruct \/ EvCopyAssign \/ EvMoveConstruct \/ EvMoveAssign \/ EvSwap \/ EvDestroy \/ EvReset

\* acceptance: the whole trace was consumed (diameter = one state per event + the initial state)
Report == IF TLCGet("stats").diameter - 1 = Len(TraceLog) THEN TRUE
          ELSE PrintT(<<"REJECTED", TLCGet("stats").diameter, Len(TraceLog)>>) /\ FALSE
=============================================================================
