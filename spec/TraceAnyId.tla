------------------------------- MODULE TraceAnyId -------------------------------
(***************************************************************************)
(* Oracle for C18 (AnyId keys are coherent).  One execution recorded by    *)
(* harness/anyid_run.cpp = three ids built from (value, C++ type) probes:  *)
(*   id   o = position 1..3, a = the value 0..8, b = the C++ type code     *)
(*   cmp  o, a = positions i, j; eq = (id_i == id_j), lt = (id_i < id_j),  *)
(*        he = (hash(id_i) == hash(id_j)); all nine ordered pairs          *)
(*   ord  all pair facts of the triple are in                              *)
(*   dp   o = 1 dispatcher over std::map, 2 over std::unordered_map; one   *)
(*        listener was registered under each id; a = the position whose id *)
(*        was dispatched, r = bit mask of the listeners that ran, b = how  *)
(*        many listener calls there were                                   *)
(*   rs   end of the execution                                             *)
(* What is required (and nothing else):                                    *)
(*   == is the reference Eq of AnyId.tla (the property determines it: with *)
(*      a comparing Storage two ids are equal iff built from the same      *)
(*      value, whatever its C++ type; without one iff the digests agree);  *)
(*   <  restricted to the triple is a strict weak ordering whose           *)
(*      incomparability is exactly Eq - WHICH order is left free (digest   *)
(*      major, as the library documents, or any other);                    *)
(*   equal ids hash equally (unequal ones may or may not);                 *)
(*   a dispatch of id_j reaches exactly the listeners registered under an  *)
(*      id Eq to id_j, once each, in both kinds of map.                    *)
(* HASCMP (environment) = "1": the world's Storage stores the value and    *)
(* supports == and <; otherwise it supports neither.                       *)
(***************************************************************************)
EXTENDS Naturals, Sequences, FiniteSets, TLC, Json, IOUtils

TraceLog == ndJsonDeserialize(IOEnv.TRACE)
HasCmp == IF "HASCMP" \in DOMAIN IOEnv THEN IOEnv.HASCMP = "1" ELSE FALSE
VARIABLES ids,     \* the values the ids of this execution were built from, in order
          seen,    \* ordered pairs whose facts are in
          lts,     \* ordered pairs <<i, j>> with id_i < id_j observed
          ordok,   \* the pair facts were complete and lawful
          dps,     \* <<map kind, position>> dispatched so far
          l
vars == <<ids, seen, lts, ordok, dps, l>>

R == INSTANCE AnyId WITH Vals <- 0..8, Types <- 0..2, Defects <- {}, done <- FALSE, hist <- <<>>

Idx == 1..3
Id(i) == R!IdOf(ids[i])
EqAt(i, j) == R!Eq(Id(i), Id(j))
LtAt(i, j) == <<i, j>> \in lts
Bool(b) == IF b THEN 1 ELSE 0
Reached(j) == {i \in Idx : EqAt(i, j)}
Mask(j) == (IF 1 \in Reached(j) THEN 1 ELSE 0) + (IF 2 \in Reached(j) THEN 2 ELSE 0) + (IF 3 \in Reached(j) THEN 4 ELSE 0)

Init == ids = <<>> /\ seen = {} /\ lts = {} /\ ordok = FALSE /\ dps = {} /\ l = 1
E == TraceLog[l]
Is(e) == l <= Len(TraceLog) /\ E.e = e /\ l' = l + 1

EvId == /\ Is("id") /\ Len(ids) < 3 /\ E.o = Len(ids) + 1 /\ E.a \in 0..8 /\ E.b \in 0..2
        /\ ids' = Append(ids, E.a) /\ UNCHANGED <<seen, lts, ordok, dps>>
EvCmp == /\ Is("cmp") /\ Len(ids) = 3 /\ ~ordok /\ E.o \in Idx /\ E.a \in Idx /\ <<E.o, E.a>> \notin seen
         /\ E.eq = Bool(EqAt(E.o, E.a))
         /\ E.lt \in {0, 1} /\ E.he \in {0, 1}
         /\ (EqAt(E.o, E.a) => E.he = 1)
         /\ seen' = seen \cup {<<E.o, E.a>>}
         /\ lts' = IF E.lt = 1 THEN lts \cup {<<E.o, E.a>>} ELSE lts
         /\ UNCHANGED <<ids, ordok, dps>>
EvOrd == /\ Is("ord") /\ ~ordok /\ seen = Idx \X Idx
         /\ R!StrictWeakOn(Idx, LtAt, EqAt)
         /\ ordok' = TRUE /\ UNCHANGED <<ids, seen, lts, dps>>
EvDispatch == /\ Is("dp") /\ ordok /\ E.o \in {1, 2} /\ E.a \in Idx /\ <<E.o, E.a>> \notin dps
              /\ E.r = Mask(E.a) /\ E.b = Cardinality(Reached(E.a))
              /\ dps' = dps \cup {<<E.o, E.a>>} /\ UNCHANGED <<ids, seen, lts, ordok>>
EvReset == /\ Is("rs") /\ ordok /\ dps = {1, 2} \X Idx
           /\ ids' = <<>> /\ seen' = {} /\ lts' = {} /\ ordok' = FALSE /\ dps' = {}

Next == EvId \/ EvCmp \/ EvOrd \/ EvDispatch \/ EvReset
Report == IF TLCGet("stats").diameter - 1 = Len(TraceLog) THEN TRUE
          ELSE PrintT(<<"REJECTED", TLCGet("stats").diameter, Len(TraceLog)>>) /\ FALSE
=============================================================================
