------------------------------- MODULE TraceAnyId -------------------------------
(***************************************************************************)
(* Oracle for C18 (AnyId keys are coherent).  One execution recorded by    *)
(* harness/anyid_run.cpp = three ids built from (value, C++ type) probes:  *)
(*   id   o = position 1..3, a = the value 0..8, b = the C++ type code     *)
(*   cmp  o, a = positions i, j; eq = (id_i == id_j), lt = (id_i < id_j),  *)
(*        he = (hash(id_i) == hash(id_j)); all nine ordered pairs          *)
(*   ord  all pair facts of the triple are in                              *)
(*   dp   o = 1 dispatcher over std::map, 2 over std::unordered_map; one   *)
(*        listener was registered under each id; a = the position whose id *)
(*        was dispatched, r = bit mask of the listeners that ran, b = how  *)
(*        many listener calls there were                                   *)
(*   rs   end of the execution                                             *)
(* What is required (and nothing else):                                    *)
(*   == is the reference Eq of AnyId.tla (the property determines it: with *)
(*      a comparing Storage two ids are equal iff built from the same      *)
(*      value, whatever its C++ type; without one iff the digests agree);  *)
(*   <  restricted to the triple is a strict weak ordering whose           *)
(*      incomparability is exactly Eq - WHICH order is left free (digest   *)
(*      major, as the library documents, or any other);                    *)
(*   equal ids hash equally (unequal ones may or may not);                 *)
(*   a dispatch of id_j reaches exactly the listeners registered under an  *)
(*      id Eq to id_j, once each, in both kinds of map.                    *)
(* HASCMP (environment) = "1": the world's Storage stores the value and    *)
(* supports == and <; otherwise it supports neither.                       *)
(* TYPEDIG (environment) = "1": the world's Digester also looks at the C++ *)
(* type (a std::string gets the next digest), so one value can carry two   *)
(* different digests.  The statement does not say whether such ids are     *)
(* equal when the Storage compares values, so there == is left free - but  *)
(* whatever it answers must be an equivalence that < and the hash agree    *)
(* with, and the maps must follow it.                                      *)
(***************************************************************************)
EXTENDS Naturals, Sequences, FiniteSets, TLC, Json, IOUtils

TraceLog == ndJsonDeserialize(IOEnv.TRACE)
HasCmp == IF "HASCMP" \in DOMAIN IOEnv THEN IOEnv.HASCMP = "1" ELSE FALSE
TypeDig == IF "TYPEDIG" \in DOMAIN IOEnv THEN IOEnv.TYPEDIG = "1" ELSE FALSE
VARIABLES ids,     \* the <<value, C++ type>> probes the ids of this execution were built from, in order
          eqs,     \* ordered pairs <<i, j>> with id_i == id_j observed
          seen,    \* ordered pairs whose facts are in
          lts,     \* ordered pairs <<i, j>> with id_i < id_j observed
          ordok,   \* the pair facts were complete and lawful
          dps,     \* <<map kind, position>> dispatched so far
          l
vars == <<ids, eqs, seen, lts, ordok, dps, l>>

R == INSTANCE AnyId WITH Vals <- 0..8, Types <- 0..2, Defects <- {}, done <- FALSE, hist <- <<>>

Idx == 1..3
Id(i) == [d |-> (ids[i][1] \div 3 + (IF TypeDig /\ ids[i][2] = 2 THEN 1 ELSE 0)) % 3, v |-> ids[i][1]]
\* what the statement fixes about id_i == id_j: "yes", "no", or "free" (same value under two digests with a comparing Storage)
EqRule(i, j) == IF ~HasCmp THEN (IF Id(i).d = Id(j).d THEN "yes" ELSE "no")
                ELSE IF Id(i).v # Id(j).v THEN "no" ELSE IF Id(i).d = Id(j).d THEN "yes" ELSE "free"
EqAt(i, j) == <<i, j>> \in eqs
LtAt(i, j) == <<i, j>> \in lts
Bool(b) == IF b THEN 1 ELSE 0
Reached(j) == {i \in Idx : EqAt(i, j)}
Mask(j) == (IF 1 \in Reached(j) THEN 1 ELSE 0) + (IF 2 \in Reached(j) THEN 2 ELSE 0) + (IF 3 \in Reached(j) THEN 4 ELSE 0)

Init == ids = <<>> /\ eqs = {} /\ seen = {} /\ lts = {} /\ ordok = FALSE /\ dps = {} /\ l = 1
E == TraceLog[l]
Is(e) == l <= Len(TraceLog) /\ E.e = e /\ l' = l + 1

EvId == /\ Is("id") /\ Len(ids) < 3 /\ E.o = Len(ids) + 1 /\ E.a \in 0..8 /\ E.b \in 0..2
        /\ ids' = Append(ids, <<E.a, E.b>>) /\ UNCHANGED <<eqs, seen, lts, ordok, dps>>
EvCmp == /\ Is("cmp") /\ Len(ids) = 3 /\ ~ordok /\ E.o \in Idx /\ E.a \in Idx /\ <<E.o, E.a>> \notin seen
         /\ E.eq \in {0, 1} /\ (EqRule(E.o, E.a) = "yes" => E.eq = 1) /\ (EqRule(E.o, E.a) = "no" => E.eq = 0)
         /\ E.lt \in {0, 1} /\ E.he \in {0, 1}
         /\ (E.eq = 1 => E.he = 1)
         /\ seen' = seen \cup {<<E.o, E.a>>}
         /\ eqs' = IF E.eq = 1 THEN eqs \cup {<<E.o, E.a>>} ELSE eqs
         /\ lts' = IF E.lt = 1 THEN lts \cup {<<E.o, E.a>>} ELSE lts
         /\ UNCHANGED <<ids, ordok, dps>>
EvOrd == /\ Is("ord") /\ ~ordok /\ seen = Idx \X Idx
         /\ R!EquivalenceOn(Idx, EqAt) /\ R!StrictWeakOn(Idx, LtAt, EqAt)
         /\ ordok' = TRUE /\ UNCHANGED <<ids, eqs, seen, lts, dps>>
EvDispatch == /\ Is("dp") /\ ordok /\ E.o \in {1, 2} /\ E.a \in Idx /\ <<E.o, E.a>> \notin dps
              /\ E.r = Mask(E.a) /\ E.b = Cardinality(Reached(E.a))
              /\ dps' = dps \cup {<<E.o, E.a>>} /\ UNCHANGED <<ids, eqs, seen, lts, ordok>>
EvReset == /\ Is("rs") /\ ordok /\ dps = {1, 2} \X Idx
           /\ ids' = <<>> /\ eqs' = {} /\ seen' = {} /\ lts' = {} /\ ordok' = FALSE /\ dps' = {}

Next == EvId \/ EvCmp \/ EvOrd \/ EvDispatch \/ EvReset
Report == IF TLCGet("stats").diameter - 1 = Len(TraceLog) THEN TRUE
          ELSE PrintT(<<"REJECTED", TLCGet("stats").diameter, Len(TraceLog)>>) /\ FALSE
=============================================================================
