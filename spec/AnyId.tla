------------------------------- MODULE AnyId -------------------------------
(***************************************************************************)
(* Reference model + generator for C18: AnyId keys are coherent            *)
(* (include/eventpp/utilities/anyid.h).                                    *)
(* An abstract id is a record [d, v]: d the index (0..2) of the digest the *)
(* Digester gave the value, v the value (0..8) the id was built from.  The *)
(* C++ type the value had (int / long / std::string) is NOT part of the    *)
(* id: int 4 and std::string "4" are the same abstract id.  Three values   *)
(* share a digest (d = v \div 3 for the ids the harness builds), so        *)
(* colliding digests are the common case.                                  *)
(* Eq / Lt / Hash are transcribed from anyid.h:                            *)
(*   a == b   digest equal  and  compareEqual(values)                      *)
(*   a <  b   digest less   or   (compareLessThan(values) and digest equal)*)
(*   hash(a)  the digest                                                   *)
(* where compareEqual is value equality when the Storage has operator ==   *)
(* and TRUE otherwise, compareLessThan is value order when the Storage has *)
(* operator < and FALSE otherwise.  HasCmp: the Storage stores the value   *)
(* and supports both; ~HasCmp: it supports neither (EmptyAnyStorage).      *)
(* The digests are compared as the (unsigned) numbers DigestVal, a 4-bit   *)
(* miniature (1, 5, 10 of 0..15) of the spread 64-bit values the harness   *)
(* uses (1, 0x55..55, 0xAA..AA), so that an overflow-prone comparison can  *)
(* be expressed in TLC's arithmetic.                                       *)
(* The laws of the property are constant-level formulas over ALL 27        *)
(* records [d, v] (any Digester), checked by TLC as invariants.            *)
(* Defects (model sensitivity; Defects = {} is the library as it is):      *)
(*   "eqnoval"  operator == ignores the stored value                       *)
(*   "signed"   operator < compares digests by the sign of the difference  *)
(*   "hashval"  std::hash uses the value instead of the digest             *)
(* Generator: one transition per triple of (value, C++ type code) probes.  *)
(***************************************************************************)
EXTENDS Naturals, Sequences, FiniteSets, TLC, Json

CONSTANTS HasCmp,     \* BOOLEAN: the Storage stores the value and has == and <
          Vals,       \* values probed by the generator, a subset of 0..8
          Types,      \* C++ type codes probed: 0 int, 1 long, 2 std::string
          Defects
VARIABLES done, hist
vars == <<done, hist>>
View == done
Fixed(d) == d \notin Defects

\* ---------------------------------------------------------------- reference operators
Ids == [d : 0..2, v : 0..8]
IdOf(x) == [d |-> x \div 3, v |-> x]            \* the id the harness builds from value x (whatever its C++ type)
DigestVal(a) == <<1, 5, 10>>[a.d + 1]           \* 4-bit miniature of the real digests
Neg4(x, y) == ((x + 16) - y) % 16 >= 8          \* sign bit of the 4-bit difference x - y
CmpEq(x, y) == IF HasCmp THEN x = y ELSE TRUE   \* anyid_internal_::compareEqual
CmpLt(x, y) == IF HasCmp THEN x < y ELSE FALSE  \* anyid_internal_::compareLessThan

Eq(a, b) == DigestVal(a) = DigestVal(b) /\ (Fixed("eqnoval") => CmpEq(a.v, b.v))
DigestLess(a, b) == IF Fixed("signed") THEN DigestVal(a) < DigestVal(b) ELSE Neg4(DigestVal(a), DigestVal(b))
Lt(a, b) == DigestLess(a, b) \/ (CmpLt(a.v, b.v) /\ DigestVal(a) = DigestVal(b))
Hash(a) == IF Fixed("hashval") THEN DigestVal(a) ELSE a.v

\* ---------------------------------------------------------------- the laws (also used by TraceAnyId on recorded facts)
EquivalenceOn(S, eq(_, _)) == /\ \A a \in S : eq(a, a)
                              /\ \A a, b \in S : eq(a, b) => eq(b, a)
                              /\ \A a, b, c \in S : eq(a, b) /\ eq(b, c) => eq(a, c)
\* strict weak ordering whose incomparability classes are exactly the eq classes
StrictWeakOn(S, lt(_, _), eq(_, _)) == /\ \A a \in S : ~lt(a, a)
                                       /\ \A a, b \in S : lt(a, b) => ~lt(b, a)
                                       /\ \A a, b, c \in S : lt(a, b) /\ lt(b, c) => lt(a, c)
                                       /\ \A a, b \in S : (~lt(a, b) /\ ~lt(b, a)) <=> eq(a, b)
\* what the two kinds of map do with a key: std::map finds b by a when neither is less; std::unordered_map when the hashes agree and a == b
OrdFinds(a, b) == ~Lt(a, b) /\ ~Lt(b, a)
HashFinds(a, b) == Hash(a) = Hash(b) /\ Eq(a, b)

\* (TLC reports a violated INVARIANT only for state-level formulas: each law is conjoined with the type invariant of the generator)
TypeOK == done \in BOOLEAN
EqEquivalence == TypeOK /\ EquivalenceOn(Ids, Eq)
LtStrictWeak == TypeOK /\ StrictWeakOn(Ids, Lt, Eq)
EqSameHash == TypeOK /\ \A a, b \in Ids : Eq(a, b) => Hash(a) = Hash(b)
MapsFind == TypeOK /\ \A a, b \in Ids : OrdFinds(a, b) = Eq(a, b) /\ HashFinds(a, b) = Eq(a, b)
\* with a comparing Storage colliding digests stay distinct ids; without one ids are equal exactly when their digests are
Collisions == TypeOK /\ \A x, y \in 0..8 : Eq(IdOf(x), IdOf(y)) = (IF HasCmp THEN x = y ELSE x \div 3 = y \div 3)

\* ---------------------------------------------------------------- generator
Probes == Vals \X Types
Init == done = FALSE /\ hist = <<>>
Probe(a, b, c) == /\ ~done /\ done' = TRUE
                  /\ hist' = << <<"p", a[1], a[2]>>, <<"p", b[1], b[2]>>, <<"p", c[1], c[2]>> >>
Next == \E a, b, c \in Probes : Probe(a, b, c)
Emit == PrintT(ToJson(hist'))
=============================================================================
