------------------------------- MODULE TraceDQ -------------------------------
(***************************************************************************)
(* Abstract specification of EventDispatcher / EventQueue (with            *)
(* MixinFilter, OrderedQueueList) = what C04, C05, C11 (sequential part),  *)
(* C12, C13 and the queue part of C08 say.  Oracle for executions recorded *)
(* from the real classes by harness/dq_interp.cpp.                         *)
(*                                                                         *)
(*   lst[e]   listeners of event e, a sequence (same rules as TraceCL)     *)
(*   flt      filters, a sequence                                          *)
(*   pending  queued events [uid, e, v] in the order they will be consumed *)
(*   frames   what is running: "D" a dispatch (filters then listeners of a  *)
(*            snapshot, values flow through one cell per dispatch),        *)
(*            "P" a processing call holding the events it took out         *)
(*   done     events consumed (dispatched / taken / cleared): each once     *)
(*                                                                         *)
(* The harness only sees user code being entered and API calls returning;  *)
(* what the library does in between is deterministic and is computed by    *)
(* Settle (dispatches of events nobody listens to, ends of dispatches).    *)
(* ORDER (environment): 0 FIFO queue, 1/2 OrderedQueueList ascending /     *)
(* descending by event key, 3 ascending by argument value.                 *)
(***************************************************************************)
EXTENDS Naturals, Integers, Sequences, FiniteSets, TLC, Json, IOUtils

TraceLog == ndJsonDeserialize(IOEnv.TRACE)
Order == IF "ORDER" \in DOMAIN IOEnv THEN IOEnv.ORDER ELSE "0"
Keys == 0..4
\* CANCONT = "1": the Policies have canContinueInvoking(args) = "the argument value is not 2" (C12)
CanCont == IF "CANCONT" \in DOMAIN IOEnv THEN IOEnv.CANCONT = "1" ELSE FALSE
\* a second mixin with its own before-dispatch hook ("mv" records; stops the dispatch when the argument value is 1):
\* "0" none, "1" listed after MixinFilter (runs when all filters passed), "2" listed before it (runs first)
Veto == IF "VETO" \in DOMAIN IOEnv THEN IOEnv.VETO ELSE "0"

VARIABLES lst, flt, nn, nf, pending, frames, done, pins, l,
          armed,     \* a fault (allocation failure / throwing copy) is armed for the operation that follows (C09)
          kind,      \* node -> [k, left]: "plain", "ctr" (CounterRemover, triggers left), "cond" (ConditionalRemover)   (C16)
          rem        \* ScopedRemover -> [alive, tgt, resp]: target dispatcher (1: keys 1,2; 2: keys 3,4), listeners it answers for  (C15)
vars == <<lst, flt, nn, nf, pending, frames, done, pins, l, kind, rem, armed>>
Rs == 1..3
NoRem == [alive |-> FALSE, tgt |-> 1, resp |-> {}]
UR == UNCHANGED <<kind, rem, armed>>
UA == UNCHANGED armed

InSeq(s, x) == \E i \in 1..Len(s) : s[i] = x
Pos(s, x) == CHOOSE i \in 1..Len(s) : s[i] = x
Without(s, x) == SelectSeq(s, LAMBDA y : y # x)

Init == /\ lst = [e \in Keys |-> <<>>] /\ flt = <<>> /\ nn = 0 /\ nf = 0 /\ pending = <<>>
        /\ frames = <<>> /\ done = {} /\ pins = 0 /\ l = 1
        /\ armed = FALSE
        /\ kind = <<>> /\ rem = [r \in Rs |-> IF r = 1 THEN [alive |-> TRUE, tgt |-> 1, resp |-> {}] ELSE NoRem]

Ev == TraceLog[l]
Is(e) == l <= Len(TraceLog) /\ Ev.e = e /\ l' = l + 1

\* ---- comparator of the ordered queue (strict weak order on queued events)
Lt(x, y) == CASE Order = "1" -> x.e < y.e
              [] Order = "2" -> x.e > y.e
              [] Order = "3" -> x.v < y.v
              [] OTHER -> FALSE
\* stable insertion: after everything that is not greater
RECURSIVE InsSorted(_,_)
InsSorted(s, x) == IF s = <<>> THEN <<x>> ELSE IF Lt(x, Head(s)) THEN <<x>> \o s ELSE <<Head(s)>> \o InsSorted(Tail(s), x)
\* put-back: the kept events go in front, then a stable sort = stable merge with the kept ones first among equals
RECURSIVE MergeFront(_,_)
MergeFront(kept, s) == IF kept = <<>> THEN s
                       ELSE LET x == kept[Len(kept)]
                                RECURSIVE InsFirst(_)
                                InsFirst(t) == IF t = <<>> THEN <<x>> ELSE IF ~Lt(Head(t), x) THEN <<x>> \o t ELSE <<Head(t)>> \o InsFirst(Tail(t))
                            IN MergeFront(SubSeq(kept, 1, Len(kept) - 1), InsFirst(s))
Enq(s, x) == IF Order = "0" THEN Append(s, x) ELSE InsSorted(s, x)
PutBack(kept, s) == IF Order = "0" THEN kept \o s ELSE MergeFront(kept, s)

\* ---- frames
LiveL(e, s) == SelectSeq(s, LAMBDA x : InSeq(lst[e], x))
\* a listener wrapped by conditionalFunctor runs exactly when its condition (here: the argument value is even) holds; otherwise its turn passes silently
RunsFor(n, v) == kind[n].k # "cf" \/ v % 2 = 0
LiveR(e, s, v) == SelectSeq(LiveL(e, s), LAMBDA x : RunsFor(x, v))
LiveF(s) == SelectSeq(s, LAMBDA x : InSeq(flt, x))
\* (the filters belong to dispatcher 1, keys 1 and 2; dispatcher 2 of the remover histories has none)
NewD(e, uid, v, explicit, alias) == [k |-> "D", e |-> e, uid |-> uid, v |-> v, v0 |-> v, ph |-> IF Veto = "2" THEN "m" ELSE "f", ftodo |-> IF e \in {1, 2} THEN flt ELSE <<>>, todo |-> <<>>, cur |-> 0,
                                     explicit |-> explicit, alias |-> alias]
NewP(mode, batch) == [k |-> "P", mode |-> mode, batch |-> batch, kept |-> <<>>, cnt |-> 0, inpred |-> 0, stopped |-> FALSE]
\* a dispatch whose filters are through takes the snapshot of its listeners
Norm(d) == IF d.ph = "f" /\ d.cur = 0 /\ LiveF(d.ftodo) = <<>>
           THEN (IF Veto = "1" THEN [d EXCEPT !.ph = "m"] ELSE [d EXCEPT !.ph = "l", !.todo = lst[d.e]])
           ELSE d
Finished(d) == d.cur = 0 /\ (d.ph = "x" \/ (d.ph = "l" /\ LiveR(d.e, d.todo, d.v) = <<>>))

\* the library's own steps between two observable events
RECURSIVE Settle(_,_)
Settle(fr, dn) ==
  IF fr = <<>> THEN [fr |-> fr, dn |-> dn]
  ELSE LET n == Len(fr)  t == fr[n] IN
       IF t.k = "D" THEN
          LET d == Norm(t) IN
          IF ~d.explicit /\ Finished(d) THEN Settle(SubSeq(fr, 1, n - 1), dn \cup {d.uid})      \* a queued dispatch ended: consumed
          ELSE [fr |-> [fr EXCEPT ![n] = d], dn |-> dn]
       ELSE IF t.inpred = 0 /\ ~t.stopped /\ t.batch # <<>> /\ t.mode \in {1, 2} THEN
          \* process / processOne start dispatching the next event they hold
          LET x == Head(t.batch) IN
          Settle(Append([fr EXCEPT ![n] = [t EXCEPT !.batch = Tail(@), !.cnt = @ + 1]], NewD(x.e, x.uid, x.v, FALSE, 0)), dn)
       ELSE [fr |-> fr, dn |-> dn]

Top(fr) == fr[Len(fr)]
\* user code may issue operations: top level, inside a listener/filter, inside a predicate
InCtx(fr) == IF fr = <<>> THEN TRUE ELSE IF Top(fr).k = "D" THEN Top(fr).cur # 0 ELSE Top(fr).inpred # 0
Total == LET RECURSIVE Sum(_)
             Sum(e) == IF e < 0 THEN 0 ELSE Len(lst'[e]) + Sum(e - 1)
         IN Sum(4) + Len(flt')
LvOk(fr, p) == Ev.lv >= Total /\ Ev.lv <= Total + p
\* live payload objects: exact when nothing runs (one per queued event), a lower bound otherwise
PvOk(fr) == IF fr = <<>> THEN Ev.pv = Len(pending') ELSE Ev.pv >= Len(pending')

\* ---- listener management: identical to the callback-list rules, per event
UsableL(e, h) == h = 0 \/ \A x \in Keys : x # e => ~InSeq(lst[x], h)
AddL(e, newseq) == LET S == Settle(frames, done) IN
                   /\ InCtx(S.fr) /\ Ev.r = nn + 1 /\ lst' = [lst EXCEPT ![e] = newseq] /\ nn' = nn + 1
                   /\ frames' = S.fr /\ done' = S.dn /\ UNCHANGED <<flt, nf, pending, pins>> /\ LvOk(S.fr, pins) /\ PvOk(S.fr)
PlainKind == kind' = Append(kind, [k |-> "plain", left |-> 0]) /\ UNCHANGED rem
EvAppendL == Is("al") /\ AddL(Ev.o, Append(lst[Ev.o], nn + 1)) /\ PlainKind
EvPrependL == Is("pl") /\ AddL(Ev.o, <<nn + 1>> \o lst[Ev.o]) /\ PlainKind
\* CounterRemover(trigger count Ev.a) / ConditionalRemover: appended like any listener, they detach themselves later
EvAppendCtr == Is("ac") /\ AddL(Ev.o, Append(lst[Ev.o], nn + 1)) /\ kind' = Append(kind, [k |-> "ctr", left |-> IF Ev.a < 1 THEN 1 ELSE Ev.a]) /\ UNCHANGED rem
EvAppendCF == Is("aw") /\ AddL(Ev.o, Append(lst[Ev.o], nn + 1)) /\ kind' = Append(kind, [k |-> "cf", left |-> 0]) /\ UNCHANGED rem
EvAppendCond == Is("ak") /\ AddL(Ev.o, Append(lst[Ev.o], nn + 1)) /\ kind' = Append(kind, [k |-> "cond", left |-> 0]) /\ UNCHANGED rem
EvInsertL == Is("il") /\ UsableL(Ev.o, Ev.a)
             /\ LET s == lst[Ev.o] IN AddL(Ev.o, IF InSeq(s, Ev.a) THEN LET p == Pos(s, Ev.a) IN SubSeq(s, 1, p - 1) \o <<nn + 1>> \o SubSeq(s, p, Len(s))
                                                 ELSE Append(s, nn + 1))
             /\ PlainKind
\* the helpers' prepend / insert forms (count Ev.a, before Ev.b)
Ins(s, h) == IF InSeq(s, h) THEN LET p == Pos(s, h) IN SubSeq(s, 1, p - 1) \o <<nn + 1>> \o SubSeq(s, p, Len(s)) ELSE Append(s, nn + 1)
CtrKind == kind' = Append(kind, [k |-> "ctr", left |-> IF Ev.a < 1 THEN 1 ELSE Ev.a]) /\ UNCHANGED rem
CondKind == kind' = Append(kind, [k |-> "cond", left |-> 0]) /\ UNCHANGED rem
EvPrependCtr == Is("pc") /\ AddL(Ev.o, <<nn + 1>> \o lst[Ev.o]) /\ CtrKind
EvInsertCtr == Is("ic") /\ UsableL(Ev.o, Ev.b) /\ AddL(Ev.o, Ins(lst[Ev.o], Ev.b)) /\ CtrKind
EvPrependCond == Is("qk") /\ AddL(Ev.o, <<nn + 1>> \o lst[Ev.o]) /\ CondKind
EvInsertCond == Is("ik") /\ UsableL(Ev.o, Ev.b) /\ AddL(Ev.o, Ins(lst[Ev.o], Ev.b)) /\ CondKind
EvRemoveL == /\ Is("rl") /\ UsableL(Ev.o, Ev.a)
             /\ LET S == Settle(frames, done)  was == InSeq(lst[Ev.o], Ev.a) IN
                /\ InCtx(S.fr) /\ Ev.r = (IF was THEN 1 ELSE 0)
                /\ lst' = [lst EXCEPT ![Ev.o] = Without(@, Ev.a)]
                /\ pins' = IF was /\ S.fr # <<>> THEN pins + 1 ELSE pins
                /\ frames' = S.fr /\ done' = S.dn /\ UNCHANGED <<flt, nn, nf, pending>> /\ LvOk(S.fr, pins') /\ PvOk(S.fr)
Query(cond) == LET S == Settle(frames, done) IN
               /\ InCtx(S.fr) /\ Ev.r = (IF cond THEN 1 ELSE 0)
               /\ frames' = S.fr /\ done' = S.dn /\ UNCHANGED <<lst, flt, nn, nf, pending, pins>> /\ LvOk(S.fr, pins) /\ PvOk(S.fr)
EvHasAnyL == Is("hl") /\ Query(lst[Ev.o] # <<>>)
EvOwnsL == Is("ol") /\ Query(InSeq(lst[Ev.o], Ev.a))
\* forEach(event): all listeners, in order, with their handles (the function passed in changes nothing)
EvForEachL == Is("fl") /\ Query(Ev.a = Len(lst[Ev.o]))
EvVisitL == /\ Is("vi") /\ Ev.b >= 1 /\ Ev.b <= Len(lst[Ev.o]) /\ lst[Ev.o][Ev.b] = Ev.a
            /\ UNCHANGED <<lst, flt, nn, nf, pending, frames, done, pins>>

\* forEach(event, function) whose function is user code: a frame that visits the snapshot like a dispatch (no filters, no arguments)
EvEnumBegin == /\ Is("fub") /\ LET S == Settle(frames, done) IN
                  /\ InCtx(S.fr) /\ done' = S.dn
                  /\ frames' = Append(S.fr, [NewD(Ev.o, 0, 0, TRUE, 0) EXCEPT !.ph = "u", !.ftodo = <<>>, !.todo = lst[Ev.o]])
               /\ UNCHANGED <<lst, flt, nn, nf, pending, pins>>
EvEnumVisit == /\ Is("vu") /\ frames # <<>> /\ Top(frames).k = "D" /\ Top(frames).ph = "u" /\ Top(frames).cur = 0
               /\ LET d == Top(frames)  t == LiveL(d.e, d.todo) IN
                  /\ t # <<>> /\ Head(t) = Ev.a
                  /\ frames' = [frames EXCEPT ![Len(frames)] = [d EXCEPT !.todo = Tail(t), !.cur = Ev.a]]
               /\ UNCHANGED <<lst, flt, nn, nf, pending, done, pins>>
EvEnumRet == /\ Is("vr") /\ frames # <<>> /\ Top(frames).k = "D" /\ Top(frames).ph = "u" /\ Top(frames).cur = Ev.a /\ Ev.a # 0
             /\ frames' = [frames EXCEPT ![Len(frames)].cur = 0] /\ UNCHANGED <<lst, flt, nn, nf, pending, done, pins>>
EvEnumEnd == /\ Is("fue") /\ frames # <<>> /\ Top(frames).k = "D" /\ Top(frames).ph = "u" /\ Top(frames).cur = 0
             /\ LiveL(Top(frames).e, Top(frames).todo) = <<>>
             /\ frames' = SubSeq(frames, 1, Len(frames) - 1) /\ pins' = IF Len(frames) = 1 THEN 0 ELSE pins
             /\ UNCHANGED <<lst, flt, nn, nf, pending, done>> /\ LvOk(frames', pins')
EvAppendF == /\ Is("af") /\ LET S == Settle(frames, done) IN
                /\ InCtx(S.fr) /\ Ev.r = nf + 1 /\ flt' = Append(flt, nf + 1) /\ nf' = nf + 1
                /\ frames' = S.fr /\ done' = S.dn /\ UNCHANGED <<lst, nn, pending, pins>> /\ LvOk(S.fr, pins)
EvRemoveF == /\ Is("rf") /\ LET S == Settle(frames, done)  was == InSeq(flt, Ev.a) IN
                /\ InCtx(S.fr) /\ Ev.r = (IF was THEN 1 ELSE 0) /\ flt' = Without(flt, Ev.a)
                /\ pins' = IF was /\ S.fr # <<>> THEN pins + 1 ELSE pins
                /\ frames' = S.fr /\ done' = S.dn /\ UNCHANGED <<lst, nn, nf, pending>> /\ LvOk(S.fr, pins')

\* ---- dispatch
EvDispatchBegin == /\ Is("db") /\ LET S == Settle(frames, done) IN
                      /\ InCtx(S.fr) /\ frames' = Append(S.fr, NewD(Ev.o, Ev.u, Ev.a, TRUE, Ev.b)) /\ done' = S.dn
                   /\ UNCHANGED <<lst, flt, nn, nf, pending, pins>>
\* after the call the caller's own argument is what it was, unless the prototype takes it by non-const reference
EvDispatchEnd == /\ Is("de") /\ LET S == Settle(frames, done) IN
                    /\ S.fr # <<>> /\ Top(S.fr).k = "D" /\ Top(S.fr).explicit /\ Finished(Top(S.fr)) /\ Top(S.fr).uid = Ev.u
                    /\ Ev.a = (IF Top(S.fr).alias = 1 THEN Top(S.fr).v ELSE Top(S.fr).v0)
                    /\ frames' = SubSeq(S.fr, 1, Len(S.fr) - 1) /\ done' = S.dn
                    /\ pins' = IF Len(S.fr) = 1 THEN 0 ELSE pins
                 /\ UNCHANGED <<lst, flt, nn, nf, pending>> /\ LvOk(frames', pins') /\ PvOk(frames')
\* a filter is entered: next live filter of the snapshot, sees the current value of the dispatch's cell
EvFilterBegin == /\ Is("fb") /\ LET S == Settle(frames, done) IN
                    /\ S.fr # <<>> /\ Top(S.fr).k = "D" /\ Top(S.fr).cur = 0 /\ Top(S.fr).ph = "f"
                    /\ LET d == Top(S.fr)  t == LiveF(d.ftodo) IN
                       /\ t # <<>> /\ Head(t) = Ev.a /\ Ev.u = d.uid /\ Ev.b = d.v
                       /\ frames' = [S.fr EXCEPT ![Len(S.fr)] = [d EXCEPT !.ftodo = Tail(t), !.cur = Ev.a]]
                    /\ done' = S.dn
                 /\ UNCHANGED <<lst, flt, nn, nf, pending, pins>>
\* a filter returns: Ev.b is the change it made to the argument (seen by later filters and listeners), Ev.r its verdict
EvFilterEnd == /\ Is("fe") /\ frames # <<>> /\ Top(frames).k = "D" /\ Top(frames).ph = "f" /\ Top(frames).cur = Ev.a /\ Ev.a # 0
               /\ frames' = [frames EXCEPT ![Len(frames)] = IF Ev.r = 1 THEN [@ EXCEPT !.cur = 0, !.v = @ + Ev.b]
                                                            ELSE [@ EXCEPT !.cur = 0, !.v = @ + Ev.b, !.ph = "x"]]
               /\ UNCHANGED <<lst, flt, nn, nf, pending, done, pins>>
\* the second mixin's hook runs: it sees the dispatch's current arguments; a veto ends the dispatch (no further hook, filter or listener)
EvMixinHook == /\ Is("mv") /\ LET S == Settle(frames, done) IN
                  /\ S.fr # <<>> /\ Top(S.fr).k = "D" /\ Top(S.fr).ph = "m" /\ Top(S.fr).cur = 0
                  /\ LET d == Top(S.fr) IN
                     /\ Ev.u = d.uid /\ Ev.b = d.v /\ Ev.r = (IF d.v = 1 THEN 1 ELSE 0)
                     /\ frames' = [S.fr EXCEPT ![Len(S.fr)] = IF d.v = 1 THEN [d EXCEPT !.ph = "x"]
                                                                ELSE IF Veto = "2" THEN [d EXCEPT !.ph = "f"]
                                                                ELSE [d EXCEPT !.ph = "l", !.todo = lst[d.e]]]
                  /\ done' = S.dn
               /\ UNCHANGED <<lst, flt, nn, nf, pending, pins>>
\* a listener is entered: next live listener of the snapshot, with the dispatch's arguments
Strip(ls, S) == [k \in Keys |-> SelectSeq(ls[k], LAMBDA y : y \notin S)]
AttachedN(n) == \E k \in Keys : InSeq(lst[k], n)
NAtt(S) == Cardinality({n \in S : AttachedN(n)})
EvEnter == /\ Is("en") /\ LET S == Settle(frames, done) IN
              /\ S.fr # <<>> /\ Top(S.fr).k = "D"
              /\ LET d == Top(S.fr) IN
                 IF d.ph = "k"
                 THEN \* the condition of a ConditionalRemover has returned: its wrapped listener runs now, with the same arguments
                      /\ d.cur = Ev.a /\ Ev.u = d.uid /\ Ev.b = d.v
                      /\ frames' = [S.fr EXCEPT ![Len(S.fr)].ph = "l"] /\ UNCHANGED <<lst, kind, pins>>
                 ELSE /\ d.cur = 0 /\ d.ph = "l"
                      /\ LET t == LiveR(d.e, d.todo, d.v) IN
                         /\ t # <<>> /\ Head(t) = Ev.a /\ kind[Ev.a].k # "cond" /\ Ev.u = d.uid /\ Ev.b = d.v /\ (Ev.o = 0 \/ Ev.o = d.e)
                         /\ frames' = [S.fr EXCEPT ![Len(S.fr)] = [d EXCEPT !.todo = Tail(t), !.cur = Ev.a]]
                         \* a CounterRemover listener counts this trigger and, on its last one, is detached BEFORE it runs
                         /\ IF kind[Ev.a].k = "ctr"
                            THEN /\ kind' = [kind EXCEPT ![Ev.a].left = @ - 1]
                                 /\ IF kind[Ev.a].left - 1 <= 0 THEN lst' = Strip(lst, {Ev.a}) /\ pins' = pins + 1 ELSE UNCHANGED <<lst, pins>>
                            ELSE UNCHANGED <<lst, kind, pins>>
              /\ done' = S.dn
           /\ UNCHANGED <<flt, nn, nf, pending, rem>>
\* ConditionalRemover: the condition is evaluated once per trigger, with the trigger's arguments, before the wrapped listener
EvCondBegin == /\ Is("kb") /\ LET S == Settle(frames, done) IN
                  /\ S.fr # <<>> /\ Top(S.fr).k = "D" /\ Top(S.fr).cur = 0 /\ Top(S.fr).ph = "l"
                  /\ LET d == Top(S.fr)  t == LiveR(d.e, d.todo, d.v) IN
                     /\ t # <<>> /\ Head(t) = Ev.a /\ kind[Ev.a].k = "cond" /\ Ev.u = d.uid /\ Ev.b = d.v /\ Ev.a % 3 # 2
                     /\ frames' = [S.fr EXCEPT ![Len(S.fr)] = [d EXCEPT !.todo = Tail(t), !.cur = Ev.a, !.ph = "c"]]
                  /\ done' = S.dn
               /\ UNCHANGED <<lst, flt, nn, nf, pending, pins, kind, rem>>
\* a condition that does not accept the trigger's arguments (the harness gives the listeners numbered 2 modulo 3 one) is asked without
\* them; one that accepts them - even if it could also be called without - must get them ("kb" above; its argument-less form has no step)
EvCondBeginNoArg == /\ Is("kn") /\ LET S == Settle(frames, done) IN
                       /\ S.fr # <<>> /\ Top(S.fr).k = "D" /\ Top(S.fr).cur = 0 /\ Top(S.fr).ph = "l"
                       /\ LET d == Top(S.fr)  t == LiveR(d.e, d.todo, d.v) IN
                          /\ t # <<>> /\ Head(t) = Ev.a /\ kind[Ev.a].k = "cond" /\ Ev.a % 3 = 2
                          /\ frames' = [S.fr EXCEPT ![Len(S.fr)] = [d EXCEPT !.todo = Tail(t), !.cur = Ev.a, !.ph = "c"]]
                       /\ done' = S.dn
                    /\ UNCHANGED <<lst, flt, nn, nf, pending, pins, kind, rem>>
EvCondEnd == /\ Is("ke") /\ frames # <<>> /\ Top(frames).k = "D" /\ Top(frames).ph = "c" /\ Top(frames).cur = Ev.a /\ Ev.a # 0
             /\ frames' = [frames EXCEPT ![Len(frames)].ph = "k"]
             /\ IF Ev.r = 1 THEN lst' = Strip(lst, {Ev.a}) /\ pins' = pins + 1 ELSE UNCHANGED <<lst, pins>>
             /\ UNCHANGED <<flt, nn, nf, pending, done, kind, rem>>

\* ---- exceptions (C09)
\* user code throws: the dispatch it belongs to is over (no further filter or listener of it runs)
EvThrowUser == /\ Is("xt") /\ frames # <<>>
               /\ IF Top(frames).k = "D" THEN Top(frames).cur = Ev.a /\ Ev.a # 0 /\ frames' = [frames EXCEPT ![Len(frames)] = [@ EXCEPT !.cur = 0, !.ph = "t"]]
                  ELSE Top(frames).inpred # 0 /\ frames' = [frames EXCEPT ![Len(frames)] = [@ EXCEPT !.inpred = 0, !.stopped = TRUE, !.mode = 5]]
               /\ UNCHANGED <<lst, flt, nn, nf, pending, done, pins, kind, rem, armed>>
\* the exception reached the caller of an explicit dispatch: thrown by user code, or (armed) by a failing copy / allocation inside
EvDispatchExit == /\ Is("dx")
                  /\ LET S == IF armed THEN Settle(frames, done) ELSE [fr |-> frames, dn |-> done] IN
                     /\ S.fr # <<>> /\ Top(S.fr).k = "D" /\ Top(S.fr).explicit /\ Top(S.fr).uid = Ev.u /\ Top(S.fr).cur = 0
                     /\ (Top(S.fr).ph = "t" \/ armed)
                     /\ frames' = SubSeq(S.fr, 1, Len(S.fr) - 1) /\ done' = S.dn
                     /\ pins' = IF Len(S.fr) = 1 THEN 0 ELSE pins
                  /\ UNCHANGED <<lst, flt, nn, nf, pending, kind, rem, armed>> /\ LvOk(frames', pins') /\ PvOk(frames')
\* the exception left a processing call: everything that call had taken out of the queue (and not yet finished) is discarded,
\* nothing is put back, nothing else changes; emptiness reporting is that of the remaining state
HeldBy(p) == {p.batch[i].uid : i \in 1..Len(p.batch)} \cup {p.kept[i].uid : i \in 1..Len(p.kept)}
EvProcessExit == /\ Is("px")
                 /\ LET S == IF armed THEN Settle(frames, done) ELSE [fr |-> frames, dn |-> done]
                        n == Len(S.fr) IN
                    /\ n > 0
                    /\ LET top == S.fr[n]
                           viaD == top.k = "D" /\ ~top.explicit /\ top.cur = 0 /\ n > 1 /\ (top.ph = "t" \/ armed)
                           viaP == top.k = "P" /\ top.inpred = 0 /\ (top.mode = 5 \/ armed)
                           pi == IF viaD THEN n - 1 ELSE n IN
                       /\ (viaD \/ viaP) /\ S.fr[pi].k = "P"
                       /\ frames' = SubSeq(S.fr, 1, pi - 1)
                       /\ pins' = IF pi = 1 THEN 0 ELSE pins
                       \* "discards only": what the call still held is discarded - or (when the exception came after the put-back) back in the queue
                       /\ \/ /\ done' = S.dn \cup HeldBy(S.fr[pi]) \cup (IF viaD THEN {top.uid} ELSE {})
                             /\ UNCHANGED pending
                          \/ /\ armed /\ viaP /\ S.fr[pi].kept \o S.fr[pi].batch # <<>>
                             /\ pending' = PutBack(S.fr[pi].kept \o S.fr[pi].batch, pending) /\ done' = S.dn
                 /\ UNCHANGED <<lst, flt, nn, nf, kind, rem, armed>> /\ LvOk(frames', pins') /\ PvOk(frames')
\* fault injection: "fa" arms, "xf" = the armed operation threw and reached the caller having changed nothing
EvArm == Is("fa") /\ armed' = TRUE /\ UNCHANGED <<lst, flt, nn, nf, pending, frames, done, pins, kind, rem>>
EvFaulted == /\ Is("xf") /\ armed /\ LET S == Settle(frames, done) IN InCtx(S.fr) /\ frames' = S.fr /\ done' = S.dn
             /\ UNCHANGED <<lst, flt, nn, nf, pending, pins, kind, rem, armed>> /\ LvOk(frames', pins) /\ PvOk(frames')
\* a failed takeEvent: the event at the head is either still there or was discarded (the statement promises neither)
EvTakeFaulted == /\ Is("xk") /\ armed /\ LET S == Settle(frames, done) IN
                    /\ InCtx(S.fr) /\ frames' = S.fr
                    /\ \/ UNCHANGED pending /\ done' = S.dn
                       \/ pending # <<>> /\ pending' = Tail(pending) /\ done' = S.dn \cup {Head(pending).uid}
                 /\ UNCHANGED <<lst, flt, nn, nf, pins, kind, rem, armed>> /\ PvOk(frames')

\* ---- ScopedRemover (C15)
TKeys(d) == {2 * d - 1, 2 * d}
EvSAdd == /\ (Is("sa") \/ Is("sp")) /\ rem[Ev.o].alive /\ Ev.a \in TKeys(rem[Ev.o].tgt)
          /\ AddL(Ev.a, IF Ev.e = "sa" THEN Append(lst[Ev.a], nn + 1) ELSE <<nn + 1>> \o lst[Ev.a])
          /\ kind' = Append(kind, [k |-> "plain", left |-> 0]) /\ rem' = [rem EXCEPT ![Ev.o].resp = @ \cup {nn + 1}]
Detach(S, nodes) == /\ lst' = Strip(lst, nodes) /\ pins' = IF S.fr # <<>> THEN pins + NAtt(nodes) ELSE pins
\* removing through the remover: reports whether the listener was (mine and) attached, detaches it at once
EvSRemove == /\ Is("sr") /\ rem[Ev.o].alive
             /\ LET S == Settle(frames, done)  mine == Ev.a \in rem[Ev.o].resp IN
                /\ InCtx(S.fr) /\ frames' = S.fr /\ done' = S.dn
                /\ Ev.r = (IF mine /\ AttachedN(Ev.a) THEN 1 ELSE 0)
                /\ IF mine THEN Detach(S, {Ev.a}) /\ rem' = [rem EXCEPT ![Ev.o].resp = @ \ {Ev.a}] ELSE UNCHANGED <<lst, pins, rem>>
             /\ UNCHANGED <<flt, nn, nf, pending, kind>> /\ LvOk(frames', pins')
EvSReset == /\ Is("sx") /\ rem[Ev.o].alive
            /\ LET S == Settle(frames, done) IN
               /\ InCtx(S.fr) /\ frames' = S.fr /\ done' = S.dn /\ Detach(S, rem[Ev.o].resp)
            /\ rem' = [rem EXCEPT ![Ev.o].resp = {}]
            /\ UNCHANGED <<flt, nn, nf, pending, kind>> /\ LvOk(frames', pins')
EvSTarget == /\ Is("st") /\ rem[Ev.o].alive /\ Ev.a \in {1, 2}
             /\ LET S == Settle(frames, done) IN
                /\ InCtx(S.fr) /\ frames' = S.fr /\ done' = S.dn
                /\ IF rem[Ev.o].tgt = Ev.a THEN UNCHANGED <<lst, pins, rem>>
                   ELSE Detach(S, rem[Ev.o].resp) /\ rem' = [rem EXCEPT ![Ev.o].resp = {}, ![Ev.o].tgt = Ev.a]
             /\ UNCHANGED <<flt, nn, nf, pending, kind>> /\ LvOk(frames', pins')
EvSMoveConstruct == /\ Is("sc") /\ rem[Ev.o].alive /\ ~rem[Ev.a].alive
                    /\ rem' = [rem EXCEPT ![Ev.a] = [alive |-> TRUE, tgt |-> rem[Ev.o].tgt, resp |-> rem[Ev.o].resp], ![Ev.o].resp = {}]
                    /\ UNCHANGED <<lst, flt, nn, nf, pending, frames, done, pins, kind>>
\* move assignment: the destination takes over the source's listeners; what it answered for before is detached now, or is handed to
\* the source (swap style) - never left attached with nobody answering for it
EvSMoveAssign == /\ Is("sm") /\ rem[Ev.o].alive /\ rem[Ev.a].alive
                 /\ LET S == Settle(frames, done)  s == Ev.o  t == Ev.a IN
                    /\ InCtx(S.fr) /\ frames' = S.fr /\ done' = S.dn
                    /\ IF s = t THEN UNCHANGED <<lst, pins, rem>>
                       ELSE \/ /\ Detach(S, rem[t].resp)
                               /\ rem' = [rem EXCEPT ![t].resp = rem[s].resp, ![t].tgt = rem[s].tgt, ![s].resp = {}]
                            \/ /\ rem[t].resp # {} /\ UNCHANGED <<lst, pins>>
                               /\ rem' = [rem EXCEPT ![t].resp = rem[s].resp, ![t].tgt = rem[s].tgt, ![s].resp = rem[t].resp, ![s].tgt = rem[t].tgt]
                 /\ UNCHANGED <<flt, nn, nf, pending, kind>> /\ LvOk(frames', pins')
EvSSwap == /\ Is("ss") /\ rem[Ev.o].alive /\ rem[Ev.a].alive
           /\ rem' = [rem EXCEPT ![Ev.a] = rem[Ev.o], ![Ev.o] = rem[Ev.a]]
           /\ UNCHANGED <<lst, flt, nn, nf, pending, frames, done, pins, kind>>
EvSDestroy == /\ Is("sd") /\ rem[Ev.o].alive
              /\ LET S == Settle(frames, done) IN
                 /\ InCtx(S.fr) /\ frames' = S.fr /\ done' = S.dn /\ Detach(S, rem[Ev.o].resp)
              /\ rem' = [rem EXCEPT ![Ev.o] = NoRem]
              /\ UNCHANGED <<flt, nn, nf, pending, kind>> /\ LvOk(frames', pins')
EvSCreate == /\ Is("sn") /\ ~rem[Ev.o].alive /\ Ev.a \in {1, 2}
             /\ rem' = [rem EXCEPT ![Ev.o] = [alive |-> TRUE, tgt |-> Ev.a, resp |-> {}]]
             /\ UNCHANGED <<lst, flt, nn, nf, pending, frames, done, pins, kind>>
\* after each listener the canContinueInvoking policy is asked with the current arguments; false = no further listener of this dispatch
EvRet == /\ Is("rt") /\ frames # <<>> /\ Top(frames).k = "D" /\ Top(frames).ph = "l" /\ Top(frames).cur = Ev.a /\ Ev.a # 0
         /\ frames' = [frames EXCEPT ![Len(frames)] = [@ EXCEPT !.cur = 0, !.todo = IF CanCont /\ Top(frames).v = 2 THEN <<>> ELSE @]]
         /\ UNCHANGED <<lst, flt, nn, nf, pending, done, pins>>

\* ---- queue
EvEnqueue == /\ Is("nq") /\ LET S == Settle(frames, done) IN
                /\ InCtx(S.fr) /\ Ev.u \notin S.dn /\ \A i \in 1..Len(pending) : pending[i].uid # Ev.u
                /\ pending' = Enq(pending, [uid |-> Ev.u, e |-> Ev.o, v |-> Ev.a])
                /\ frames' = S.fr /\ done' = S.dn /\ PvOk(S.fr)
             /\ UNCHANGED <<lst, flt, nn, nf, pins>>
\* process (1) and processIf (3) / processUntil (4) take everything, processOne (2) the first
EvProcessBegin == /\ Is("pb") /\ LET S == Settle(frames, done) IN
                     /\ InCtx(S.fr) /\ Ev.a \in 1..4
                     /\ LET batch == IF Ev.a = 2 THEN (IF pending = <<>> THEN <<>> ELSE <<Head(pending)>>) ELSE pending IN
                        /\ frames' = Append(S.fr, NewP(Ev.a, batch))
                        /\ pending' = IF Ev.a = 2 /\ pending # <<>> THEN Tail(pending) ELSE IF Ev.a = 2 THEN pending ELSE <<>>
                     /\ done' = S.dn
                  /\ UNCHANGED <<lst, flt, nn, nf, pins>>
\* the predicate is asked about the next event held, in order, with that event's arguments
EvPredBegin == /\ Is("qb") /\ LET S == Settle(frames, done) IN
                  /\ S.fr # <<>> /\ Top(S.fr).k = "P" /\ Top(S.fr).mode \in {3, 4} /\ Top(S.fr).inpred = 0 /\ ~Top(S.fr).stopped
                  /\ Top(S.fr).batch # <<>> /\ Head(Top(S.fr).batch).uid = Ev.u /\ Head(Top(S.fr).batch).v = Ev.b
                  /\ frames' = [S.fr EXCEPT ![Len(S.fr)].inpred = Ev.u] /\ done' = S.dn
               /\ UNCHANGED <<lst, flt, nn, nf, pending, pins>>
EvPredEnd == /\ Is("qe") /\ frames # <<>> /\ Top(frames).k = "P" /\ Top(frames).inpred # 0
             /\ LET p == Top(frames)  x == Head(p.batch)
                    go == (p.mode = 3 /\ Ev.r = 1) \/ (p.mode = 4 /\ Ev.r = 0) IN
                frames' = IF go THEN Append([frames EXCEPT ![Len(frames)] = [p EXCEPT !.inpred = 0, !.batch = Tail(@), !.cnt = @ + 1]],
                                            NewD(x.e, x.uid, x.v, FALSE, 0))
                          ELSE IF p.mode = 3 THEN [frames EXCEPT ![Len(frames)] = [p EXCEPT !.inpred = 0, !.batch = Tail(@), !.kept = Append(@, x)]]
                          ELSE [frames EXCEPT ![Len(frames)] = [p EXCEPT !.inpred = 0, !.stopped = TRUE]]
             /\ UNCHANGED <<lst, flt, nn, nf, pending, done, pins>>
\* the call returns: everything it took is dispatched or put back in front of what arrived meanwhile; result = dispatched something
EvProcessEnd == /\ Is("pe") /\ LET S == Settle(frames, done) IN
                   /\ S.fr # <<>> /\ Top(S.fr).k = "P" /\ Top(S.fr).inpred = 0 /\ Top(S.fr).mode = Ev.a
                   /\ LET p == Top(S.fr) IN
                      /\ (p.batch = <<>> \/ p.stopped)
                      /\ Ev.r = (IF p.cnt > 0 THEN 1 ELSE 0)
                      /\ pending' = PutBack(p.kept \o p.batch, pending)
                   /\ frames' = SubSeq(S.fr, 1, Len(S.fr) - 1) /\ done' = S.dn
                   /\ pins' = IF Len(S.fr) = 1 THEN 0 ELSE pins
                /\ UNCHANGED <<lst, flt, nn, nf>> /\ LvOk(frames', pins') /\ PvOk(frames')
EvPeek == /\ Is("pk") /\ LET S == Settle(frames, done) IN
             /\ InCtx(S.fr) /\ Ev.r = (IF pending # <<>> THEN 1 ELSE 0)
             /\ (pending # <<>> => Ev.u = Head(pending).uid /\ Ev.a = Head(pending).v /\ Ev.o = Head(pending).e)
             /\ frames' = S.fr /\ done' = S.dn /\ UNCHANGED pending /\ PvOk(S.fr)
          /\ UNCHANGED <<lst, flt, nn, nf, pins>>
EvTake == /\ Is("tk") /\ LET S == Settle(frames, done) IN
             /\ InCtx(S.fr) /\ Ev.r = (IF pending # <<>> THEN 1 ELSE 0)
             /\ (pending # <<>> => Ev.u = Head(pending).uid /\ Ev.a = Head(pending).v /\ Ev.o = Head(pending).e)
             /\ pending' = IF pending # <<>> THEN Tail(pending) ELSE pending
             /\ done' = IF pending # <<>> THEN S.dn \cup {Head(pending).uid} ELSE S.dn
             /\ frames' = S.fr /\ PvOk(S.fr)
          /\ UNCHANGED <<lst, flt, nn, nf, pins>>
\* takeEvent + dispatch(queuedEvent): the head leaves the queue (it is the caller's now) and is dispatched like any direct dispatch
EvTakeDispatch == /\ Is("td") /\ LET S == Settle(frames, done) IN
                     /\ InCtx(S.fr) /\ Ev.r = (IF pending # <<>> THEN 1 ELSE 0)
                     /\ IF pending = <<>> THEN frames' = S.fr /\ done' = S.dn /\ UNCHANGED pending /\ PvOk(S.fr)
                        ELSE /\ Ev.u = Head(pending).uid /\ Ev.a = Head(pending).v /\ Ev.o = Head(pending).e
                             /\ pending' = Tail(pending) /\ done' = S.dn \cup {Head(pending).uid}
                             /\ frames' = Append(S.fr, NewD(Ev.o, Ev.u, Ev.a, TRUE, 0))
                  /\ UNCHANGED <<lst, flt, nn, nf, pins>>
EvClear == /\ Is("cl") /\ LET S == Settle(frames, done) IN
              /\ InCtx(S.fr) /\ pending' = <<>> /\ done' = S.dn \cup {pending[i].uid : i \in 1..Len(pending)}
              /\ frames' = S.fr /\ PvOk(S.fr)
           /\ UNCHANGED <<lst, flt, nn, nf, pins>>
\* emptyQueue: false while anything is pending or held by process/processOne; true when nothing is pending or held at all
EvEmptyQ == /\ Is("eq") /\ LET S == Settle(frames, done) IN
               /\ InCtx(S.fr)
               /\ LET holding == \E d \in DOMAIN S.fr : S.fr[d].k = "P" /\ S.fr[d].mode \in {1, 2}
                      anyP == \E d \in DOMAIN S.fr : S.fr[d].k = "P" IN
                  /\ (pending # <<>> \/ holding) => Ev.r = 0
                  /\ (pending = <<>> /\ ~anyP) => Ev.r = 1
               /\ frames' = S.fr /\ done' = S.dn
            /\ UNCHANGED <<lst, flt, nn, nf, pending, pins>>
\* the harness will destroy the queue without draining it
EvEndNoDrain == Is("zz") /\ frames = <<>> /\ UNCHANGED <<lst, flt, nn, nf, pending, frames, done, pins>>
\* end of one execution: the object was destroyed, nothing is alive
EvReset == /\ Is("rs") /\ frames = <<>> /\ Ev.lv = 0 /\ Ev.pv = 0
           /\ lst' = [e \in Keys |-> <<>>] /\ flt' = <<>> /\ nn' = 0 /\ nf' = 0 /\ pending' = <<>>
           /\ frames' = <<>> /\ done' = {} /\ pins' = 0
           /\ armed' = FALSE
           /\ kind' = <<>> /\ rem' = [r \in Rs |-> IF r = 1 THEN [alive |-> TRUE, tgt |-> 1, resp |-> {}] ELSE NoRem]

Next == \/ ((EvAppendL \/ EvPrependL \/ EvInsertL \/ EvAppendCtr \/ EvAppendCond \/ EvAppendCF \/ EvPrependCtr \/ EvInsertCtr \/ EvPrependCond \/ EvInsertCond) /\ UA)
        \/ EvThrowUser \/ EvDispatchExit \/ EvProcessExit \/ EvArm \/ EvFaulted \/ EvTakeFaulted
        \/ ((EvEnumBegin \/ EvEnumVisit \/ EvEnumRet \/ EvEnumEnd) /\ UR)
        \/ ((EvRemoveL \/ EvHasAnyL \/ EvOwnsL \/ EvForEachL \/ EvVisitL \/ EvAppendF \/ EvRemoveF
             \/ EvDispatchBegin \/ EvDispatchEnd \/ EvMixinHook \/ EvFilterBegin \/ EvFilterEnd \/ EvRet
             \/ EvEnqueue \/ EvProcessBegin \/ EvPredBegin \/ EvPredEnd \/ EvProcessEnd \/ EvPeek \/ EvTake \/ EvTakeDispatch \/ EvClear \/ EvEmptyQ \/ EvEndNoDrain) /\ UR)
        \/ ((EvEnter \/ EvCondBegin \/ EvCondBeginNoArg \/ EvCondEnd
             \/ EvSAdd \/ EvSRemove \/ EvSReset \/ EvSTarget \/ EvSMoveConstruct \/ EvSMoveAssign \/ EvSSwap \/ EvSDestroy \/ EvSCreate) /\ UA)
        \/ EvReset

Report == IF TLCGet("stats").diameter - 1 = Len(TraceLog) THEN TRUE
          ELSE PrintT(<<"REJECTED", TLCGet("stats").diameter, Len(TraceLog)>>) /\ FALSE
=============================================================================
