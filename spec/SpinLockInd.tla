---------------------------- MODULE SpinLockInd ----------------------------
(***************************************************************************)
(* The test_and_set lock of SpinLock.tla without the round counter, with   *)
(* Apalache type annotations, and an inductive invariant: mutual exclusion *)
(* for ANY number of lock/unlock rounds (TLC checks SpinLock.tla for a     *)
(* bounded number of rounds only).                                         *)
(*   apalache-mc check --init=IndInit --inv=IndInv --length=0 ...   base   *)
(*   apalache-mc check --init=IndInv  --inv=IndInv --length=1 ...   step   *)
(*   apalache-mc check --init=IndInv  --inv=MutualExclusion --length=0     *)
(***************************************************************************)
EXTENDS Integers, FiniteSets
Threads == {1, 2, 3, 4}
VARIABLES
  \* @type: Bool;
  flag,
  \* @type: Int -> Str;
  pc,
  \* @type: Int;
  holder
PCs == {"idle", "try", "in", "cs", "unlock"}
Init == flag = FALSE /\ pc = [t \in Threads |-> "idle"] /\ holder = 0
Begin(t) == pc[t] = "idle" /\ pc' = [pc EXCEPT ![t] = "try"] /\ UNCHANGED <<flag, holder>>
TestAndSet(t) == /\ pc[t] = "try"
                 /\ IF flag THEN UNCHANGED <<flag, pc>> ELSE flag' = TRUE /\ pc' = [pc EXCEPT ![t] = "in"]
                 /\ UNCHANGED holder
Enter(t) == pc[t] = "in" /\ pc' = [pc EXCEPT ![t] = "cs"] /\ holder' = t /\ UNCHANGED flag
Leave(t) == pc[t] = "cs" /\ pc' = [pc EXCEPT ![t] = "unlock"] /\ holder' = 0 /\ UNCHANGED flag
Unlock(t) == pc[t] = "unlock" /\ flag' = FALSE /\ pc' = [pc EXCEPT ![t] = "idle"] /\ UNCHANGED holder
Next == \E t \in Threads : Begin(t) \/ TestAndSet(t) \/ Enter(t) \/ Leave(t) \/ Unlock(t)

Inside == {t \in Threads : pc[t] \in {"in", "cs", "unlock"}}
MutualExclusion == Cardinality(Inside) <= 1
TypeOK == flag \in BOOLEAN /\ pc \in [Threads -> PCs] /\ holder \in Threads \union {0}
IndInv == /\ TypeOK
          /\ \A a, b \in Threads : (a \in Inside /\ b \in Inside) => a = b
          /\ (Inside # {}) <=> flag
          /\ (holder # 0 => pc[holder] = "cs")
          /\ \A t \in Threads : (pc[t] \in {"in", "unlock"}) => holder = 0
          /\ \A t \in Threads : pc[t] = "cs" => holder = t
IndInit == Init
=============================================================================
