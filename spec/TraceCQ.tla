------------------------------- MODULE TraceCQ -------------------------------
(***************************************************************************)
(* Abstract concurrent oracle for EventQueue (C06, C07, C11): validates    *)
(* the API-level history of one controlled execution after another, as     *)
(* recorded by harness/cq_run.cpp.  The scheduler serialises everything,   *)
(* so the history is totally ordered; calls of different threads overlap   *)
(* (begin ... end), and the rules below only use what an overlap can and   *)
(* cannot hide ("surely" / "possibly").                                    *)
(*                                                                         *)
(*  ledger  every enqueued event (uid) is dispatched or taken at most once, *)
(*          with the payload it was enqueued with; after the workers are   *)
(*          done and the main thread has drained the queue every event is  *)
(*          dispatched, taken, or may have been discarded by a clearEvents *)
(*          that ended after its enqueue began; nothing stays alive.       *)
(*  order   events of one producer consumed by one consumer through        *)
(*          process/processOne/takeEvent are consumed in enqueue order.    *)
(*  wait    wait returns / waitFor returns true only if at some moment of  *)
(*          the call the queue possibly held an event while possibly no    *)
(*          DisableQueueNotify was alive; waitFor returns false only after *)
(*          its time-out; `stuck` (nobody can run) is a lost wake-up when  *)
(*          an event is surely pending, surely no DisableQueueNotify is    *)
(*          alive and a waiter sleeps; a thread stuck on a mutex is a      *)
(*          deadlock.                                                      *)
(*  empty   emptyQueue() = true (or a time-out with no DisableQueueNotify  *)
(*          possibly alive during the call) implies every event whose      *)
(*          enqueue ended before the call began is completely consumed.    *)
(*          (The property quantifies over process / processOne /           *)
(*          takeEvent / clearEvents: while a processIf / processUntil call  *)
(*          of some thread overlaps the observation, events it holds to     *)
(*          put back are in neither place, and nothing is demanded.)        *)
(*  sorted  (runs with the OrderedQueueList policy, ORDERED=1) within one     *)
(*          processing call the events are dispatched in non-decreasing    *)
(*          order of the comparator's key (here uid % 10) - C13 under       *)
(*          contention.                                                     *)
(*  locks   an unlocked structural access while several threads are live   *)
(*          ("ua") has no step here.                                       *)
(***************************************************************************)
EXTENDS Naturals, Integers, Sequences, FiniteSets, TLC, Json, IOUtils

TraceLog == ndJsonDeserialize(IOEnv.TRACE)
Threads == {0, 1, 2, 3, 9}
Ordered == IF "ORDERED" \in DOMAIN IOEnv THEN IOEnv.ORDERED = "1" ELSE FALSE

VARIABLES ev,        \* uid -> [v, eb (enqueue begun), ee (index of enqueue end or 0), c ("none","dispatching","dispatched","taken"), by]
          call,      \* thread -> [op, at (index of begin), n (events dispatched in this call), to (time-out fired)]
          dqnB, dqnE, dofB, dofE,       \* counts of DisableQueueNotify ctor begun/ended, dtor begun/ended
          sawOk,     \* waiting thread -> the predicate could have been true at some moment of the wait
          dqnSeen,   \* waiting thread -> a DisableQueueNotify was possibly alive at some moment of the wait
          selSeen,   \* observing thread (emptyQueue / wait) -> a processIf / processUntil call was in progress at some moment of the observation
          mayClear,  \* uids a clearEvents may have discarded
          last,      \* <<consumer, producer>> -> index of the last event consumed non-selectively
          sel,       \* threads that have run processIf / processUntil
          l
vars == <<ev, call, dqnB, dqnE, dofB, dofE, sawOk, dqnSeen, selSeen, mayClear, last, sel, l>>

Idle == [op |-> "idle", at |-> 0, n |-> 0, to |-> FALSE, m |-> 0, k |-> 0]
Init == /\ ev = <<>> /\ call = [t \in Threads |-> Idle]
        /\ dqnB = 0 /\ dqnE = 0 /\ dofB = 0 /\ dofE = 0
        /\ sawOk = [t \in Threads |-> FALSE] /\ dqnSeen = [t \in Threads |-> FALSE] /\ selSeen = [t \in Threads |-> FALSE]
        /\ mayClear = {} /\ last = <<>> /\ sel = {} /\ l = 1

E == TraceLog[l]
Is(e) == l <= Len(TraceLog) /\ E.e = e /\ l' = l + 1
Uids == DOMAIN ev
Consumed(u) == ev[u].c \in {"dispatched", "taken"}

\* what an observer may assume about the queue and the DisableQueueNotify objects, in the state `evn`/counters given
PossiblyPending(evn, calln) == (\E u \in DOMAIN evn : evn[u].eb /\ evn[u].c \notin {"dispatched", "taken"})
                               \/ (\E t \in Threads : calln[t].op = "proc")
PossiblyEnabled(ctorEnded, dtorBegun) == ctorEnded - dtorBegun <= 0
SurelyPending == \E u \in Uids : ev[u].ee # 0 /\ ev[u].c = "none" /\ u \notin mayClear
DqnPossiblyAlive(ctorBegun, dtorEnded) == ctorBegun - dtorEnded > 0

Waiting == {t \in Threads : call[t].op = "wait"}
\* every step refreshes what the waiters could have seen
Refresh(evn, calln, cE, dB, cB, dE) ==
   /\ sawOk' = [t \in Threads |-> IF calln[t].op = "wait" THEN (IF call[t].op = "wait" THEN sawOk[t] ELSE FALSE) \/ (PossiblyPending(evn, calln) /\ PossiblyEnabled(cE, dB)) ELSE FALSE]
   /\ dqnSeen' = [t \in Threads |-> IF calln[t].op = "wait" THEN (IF call[t].op = "wait" THEN dqnSeen[t] ELSE FALSE) \/ DqnPossiblyAlive(cB, dE) ELSE FALSE]
   /\ selSeen' = [t \in Threads |-> IF calln[t].op \in {"wait", "empty"}
                                      THEN (IF call[t].op = calln[t].op THEN selSeen[t] ELSE FALSE) \/ (\E u \in Threads : calln[u].op = "proc" /\ calln[u].m \in {3, 4})
                                      ELSE FALSE]
Same(evn, calln) == Refresh(evn, calln, dqnE, dofB, dqnB, dofE) /\ UNCHANGED <<dqnB, dqnE, dofB, dofE>>

Begin(t, op) == call[t].op = "idle" /\ call' = [call EXCEPT ![t] = [op |-> op, at |-> l, n |-> 0, to |-> FALSE, m |-> IF op = "proc" THEN E.a ELSE 0, k |-> 0]]
End(t, op) == call[t].op = op /\ call' = [call EXCEPT ![t] = Idle]

\* ---- enqueue
EvEnqBegin == /\ Is("nqb") /\ E.a \notin Uids /\ Begin(E.t, "enq")
              /\ ev' = (E.a :> [v |-> E.b, eb |-> TRUE, ee |-> 0, c |-> "none", by |-> 0 - 1]) @@ ev
              /\ Same(ev', call') /\ UNCHANGED <<mayClear, last, sel>>
EvEnqEnd == /\ Is("nqe") /\ E.a \in Uids /\ End(E.t, "enq")
            /\ ev' = [ev EXCEPT ![E.a].ee = l]
            /\ Same(ev', call') /\ UNCHANGED <<mayClear, last, sel>>

\* ---- processing calls and their listeners
EvProcBegin == /\ Is("pb") /\ Begin(E.t, "proc") /\ sel' = IF E.a \in {3, 4} THEN sel \cup {E.t} ELSE sel
               /\ Same(ev, call') /\ UNCHANGED <<ev, mayClear, last>>
OrderOk(c, u, selective) ==
   LET p == u \div 10  i == u % 10 IN
   IF selective \/ ~(sel \subseteq {c}) THEN UNCHANGED last
   ELSE /\ (<<c, p>> \in DOMAIN last => last[<<c, p>>] < i)
        /\ last' = (<<c, p>> :> i) @@ last
EvEnter == /\ Is("en") /\ E.a \in Uids /\ call[E.t].op = "proc"
           /\ ev[E.a].eb /\ ev[E.a].c = "none" /\ E.b = ev[E.a].v               \* never twice, payload intact
           /\ ev' = [ev EXCEPT ![E.a].c = "dispatching", ![E.a].by = E.t]
           /\ (Ordered => E.a % 10 >= call[E.t].k)                                \* one batch is dispatched in comparator order
           /\ call' = [call EXCEPT ![E.t].n = @ + 1, ![E.t].k = E.a % 10]
           /\ OrderOk(E.t, E.a, call[E.t].m \in {3, 4})
           /\ Same(ev', call') /\ UNCHANGED <<mayClear, sel>>
EvRet == /\ Is("rt") /\ E.a \in Uids /\ ev[E.a].c = "dispatching" /\ ev[E.a].by = E.t
         /\ ev' = [ev EXCEPT ![E.a].c = "dispatched"]
         /\ Same(ev', call) /\ UNCHANGED <<call, mayClear, last, sel>>
\* process / processOne report exactly whether they dispatched; the selective ones as well
EvProcEnd == /\ Is("pe") /\ call[E.t].op = "proc" /\ E.r = (IF call[E.t].n > 0 THEN 1 ELSE 0)
             /\ call' = [call EXCEPT ![E.t] = Idle]
             /\ Same(ev, call') /\ UNCHANGED <<ev, mayClear, last, sel>>

\* ---- takeEvent / peekEvent / clearEvents
EvTakeBegin == Is("tkb") /\ Begin(E.t, "take") /\ Same(ev, call') /\ UNCHANGED <<ev, mayClear, last, sel>>
EvTakeEnd == /\ Is("tke") /\ End(E.t, "take")
             /\ IF E.r = 1 THEN /\ E.a \in Uids /\ ev[E.a].eb /\ ev[E.a].c = "none" /\ E.b = ev[E.a].v
                                /\ ev' = [ev EXCEPT ![E.a].c = "taken", ![E.a].by = E.t]
                                /\ OrderOk(E.t, E.a, FALSE)
                ELSE UNCHANGED <<ev, last>>
             /\ Same(ev', call') /\ UNCHANGED <<mayClear, sel>>
EvPeekBegin == Is("pkb") /\ Begin(E.t, "peek") /\ Same(ev, call') /\ UNCHANGED <<ev, mayClear, last, sel>>
EvPeekEnd == /\ Is("pke") /\ End(E.t, "peek")
             /\ (E.r = 1 => E.a \in Uids /\ ev[E.a].eb /\ E.b = ev[E.a].v)
             /\ Same(ev, call') /\ UNCHANGED <<ev, mayClear, last, sel>>
EvClearBegin == Is("clb") /\ Begin(E.t, "clear") /\ Same(ev, call') /\ UNCHANGED <<ev, mayClear, last, sel>>
EvClearEnd == /\ Is("cle") /\ End(E.t, "clear")
              /\ mayClear' = mayClear \cup {u \in Uids : ev[u].eb /\ ev[u].c = "none"}
              /\ Same(ev, call') /\ UNCHANGED <<ev, last, sel>>

\* ---- emptyQueue
DoneBefore(at) == {u \in Uids : ev[u].ee # 0 /\ ev[u].ee < at}
\* takeEvent and clearEvents take effect at their critical section, not at their return: a call still in progress may already
\* have taken one event (take) or all of them (clear)
AllConsumed(S) == LET open == {u \in S : ~(Consumed(u) \/ u \in mayClear)}
                      takes == Cardinality({t \in Threads : call[t].op = "take"})
                      clearing == \E t \in Threads : call[t].op = "clear"
                  IN clearing \/ Cardinality(open) <= takes
EvEmptyBegin == Is("eqb") /\ Begin(E.t, "empty") /\ Same(ev, call') /\ UNCHANGED <<ev, mayClear, last, sel>>
EvEmptyEnd == /\ Is("eqe") /\ call[E.t].op = "empty"
              /\ (E.r = 1 /\ ~selSeen[E.t] => AllConsumed(DoneBefore(call[E.t].at)))
              /\ call' = [call EXCEPT ![E.t] = Idle]
              /\ Same(ev, call') /\ UNCHANGED <<ev, mayClear, last, sel>>

\* ---- wait / waitFor
EvWaitBegin == Is("wb") /\ Begin(E.t, "wait") /\ Same(ev, call') /\ UNCHANGED <<ev, mayClear, last, sel>>
EvTimeout == /\ Is("to") /\ call[E.t].op = "wait" /\ call' = [call EXCEPT ![E.t].to = TRUE]
             /\ Same(ev, call') /\ UNCHANGED <<ev, mayClear, last, sel>>
EvWaitEnd == /\ Is("we") /\ call[E.t].op = "wait"
             /\ IF E.r = 1 THEN sawOk[E.t]
                ELSE /\ call[E.t].to                                             \* false only after the time-out
                     /\ (~dqnSeen[E.t] /\ ~selSeen[E.t] => AllConsumed(DoneBefore(call[E.t].at)))
             /\ call' = [call EXCEPT ![E.t] = Idle]
             /\ Same(ev, call') /\ UNCHANGED <<ev, mayClear, last, sel>>

\* ---- DisableQueueNotify
EvDqnCtorBegin == /\ Is("donb") /\ Begin(E.t, "don") /\ dqnB' = dqnB + 1 /\ UNCHANGED <<dqnE, dofB, dofE>>
                  /\ Refresh(ev, call', dqnE, dofB, dqnB', dofE) /\ UNCHANGED <<ev, mayClear, last, sel>>
EvDqnCtorEnd == /\ Is("done") /\ End(E.t, "don") /\ dqnE' = dqnE + 1 /\ UNCHANGED <<dqnB, dofB, dofE>>
                /\ Refresh(ev, call', dqnE', dofB, dqnB, dofE) /\ UNCHANGED <<ev, mayClear, last, sel>>
EvDqnDtorBegin == /\ Is("dofb") /\ Begin(E.t, "dof") /\ dofB' = dofB + 1 /\ UNCHANGED <<dqnB, dqnE, dofE>>
                  /\ Refresh(ev, call', dqnE, dofB', dqnB, dofE) /\ UNCHANGED <<ev, mayClear, last, sel>>
EvDqnDtorEnd == /\ Is("dofe") /\ End(E.t, "dof") /\ dofE' = dofE + 1 /\ UNCHANGED <<dqnB, dqnE, dofB>>
                /\ Refresh(ev, call', dqnE, dofB, dqnB, dofE') /\ UNCHANGED <<ev, mayClear, last, sel>>

EvFin == Is("fin") /\ call[E.t].op = "idle" /\ Same(ev, call) /\ UNCHANGED <<ev, call, mayClear, last, sel>>

\* ---- nobody can run: acceptable only if nobody is stuck on a mutex and no sleeping waiter should have been woken
EvStuck == /\ Is("stuck") /\ E.a < 16                                       \* bits 4.. = threads blocked on a mutex: deadlock
           /\ ~(SurelyPending /\ ~DqnPossiblyAlive(dqnB, dofE))              \* lost wake-up (C07)
           /\ UNCHANGED <<ev, call, dqnB, dqnE, dofB, dofE, sawOk, dqnSeen, selSeen, mayClear, last, sel>>
\* end of the execution: (unless abandoned after a legitimate stuck) everything was consumed and nothing is alive
EvReset == /\ Is("rs")
           /\ (E.a = 0 => /\ \A u \in Uids : Consumed(u) \/ u \in mayClear
                          /\ E.b = 0)
           /\ ev' = <<>> /\ call' = [t \in Threads |-> Idle] /\ dqnB' = 0 /\ dqnE' = 0 /\ dofB' = 0 /\ dofE' = 0
           /\ sawOk' = [t \in Threads |-> FALSE] /\ dqnSeen' = [t \in Threads |-> FALSE] /\ selSeen' = [t \in Threads |-> FALSE]
           /\ mayClear' = {} /\ last' = <<>> /\ sel' = {}

Next == \/ EvEnqBegin \/ EvEnqEnd \/ EvProcBegin \/ EvEnter \/ EvRet \/ EvProcEnd
        \/ EvTakeBegin \/ EvTakeEnd \/ EvPeekBegin \/ EvPeekEnd \/ EvClearBegin \/ EvClearEnd
        \/ EvEmptyBegin \/ EvEmptyEnd \/ EvWaitBegin \/ EvTimeout \/ EvWaitEnd
        \/ EvDqnCtorBegin \/ EvDqnCtorEnd \/ EvDqnDtorBegin \/ EvDqnDtorEnd \/ EvFin \/ EvStuck \/ EvReset

Report == IF TLCGet("stats").diameter - 1 = Len(TraceLog) THEN TRUE
          ELSE PrintT(<<"REJECTED", TLCGet("stats").diameter, Len(TraceLog)>>) /\ FALSE
=============================================================================
