------------------------------ MODULE ConcCL ------------------------------
(***************************************************************************)
(* Threads x micro-steps model of callbacklist.h (append, prepend, insert,  *)
(* remove, ownsHandle, empty, invoke, forEach) under sequentially           *)
(* consistent memory: getNextCounter as an                                  *)
(* atomic step, before.lock() of insert as an unlocked step, every critical *)
(* section as one step, the traversal as {head under the mutex; read the   *)
(* counter; test the node's counter; step next under the mutex}.  Thread    *)
(* locals pin nodes (shared_ptr).  Ghost: abstract list updated at the      *)
(* linearization points, per-invocation visit sets.  Scenario sets are      *)
(* chosen in Init, so one TLC run explores every scenario.                  *)
(* Defects: "stale" = remove/insert do not look at the removed mark (the    *)
(* code before the D1 repair): insert racing remove of the same handle.     *)
(* The generation counter lives in 0..MaxGen and wraps (0 is never handed   *)
(* out: all linked nodes are rewritten to generation 1 and the next value   *)
(* is drawn); InitCurs = the counter values the scenarios start from, so    *)
(* the wrap is reached at every position of a scenario.                     *)
(* "draw_unlocked" = the code before the D11 repair: the generation of a    *)
(* new node is drawn (atomic ++) BEFORE the mutex is taken, the wrap is     *)
(* {++ -> 0; lock; rewrite; unlock; ++}, and a traversal reads the counter  *)
(* after releasing the mutex it read head under.  Repaired code: the        *)
(* generation is drawn inside the critical section that links the node,     *)
(* and a traversal captures head and counter in one critical section.       *)
(***************************************************************************)
EXTENDS Naturals, Sequences, FiniteSets, TLC
CONSTANTS Threads, Scenarios, InitLen, MaxNodes, Defects, MaxGen, InitCurs
Nodes == 1..MaxNodes
Fixed(d) == d \notin Defects
Inc(c) == (c + 1) % (MaxGen + 1)
VARIABLES head, tail, nxt, prv, gen, nalloc, freed, cur, mtx,   \* shared
          prog, ip, pc, loc,                                   \* per thread
          alist, visited, mustVisit, bad                        \* ghost
vars == <<head, tail, nxt, prv, gen, nalloc, freed, cur, mtx, prog, ip, pc, loc, alist, visited, mustVisit, bad>>

RECURSIVE Walk(_,_,_)
Walk(nx, n, fuel) == IF n = 0 \/ fuel = 0 THEN <<>> ELSE <<n>> \o Walk(nx, nx[n], fuel - 1)
InSeq(s, x) == \E i \in 1..Len(s) : s[i] = x
Pos(s, x) == CHOOSE i \in 1..Len(s) : s[i] = x

NoLoc == [node |-> 0, b |-> 0, t |-> 0, c |-> 0, res |-> 0]
InitList == [i \in 1..InitLen |-> i]
Init == /\ head = (IF InitLen = 0 THEN 0 ELSE 1) /\ tail = InitLen
        /\ nxt = [n \in Nodes |-> IF n < InitLen THEN n + 1 ELSE 0]
        /\ prv = [n \in Nodes |-> IF n <= InitLen /\ n > 1 THEN n - 1 ELSE 0]
        /\ gen = [n \in Nodes |-> IF n <= InitLen THEN n ELSE 0]
        /\ nalloc = InitLen /\ freed = {} /\ cur \in InitCurs /\ mtx = 0
        /\ prog \in Scenarios /\ ip = [t \in Threads |-> 1] /\ pc = [t \in Threads |-> "idle"]
        /\ loc = [t \in Threads |-> NoLoc]
        /\ alist = InitList /\ visited = [t \in Threads |-> <<>>] /\ mustVisit = [t \in Threads |-> {}] /\ bad = "ok"

\* ---- refcount cascade (thread locals pin nodes)
Refs(hd, tl, nx, pv, lc, fs, n) ==
    (IF hd = n THEN 1 ELSE 0) + (IF tl = n THEN 1 ELSE 0)
  + Cardinality({m \in Nodes : m \notin fs /\ nx[m] = n}) + Cardinality({m \in Nodes : m \notin fs /\ pv[m] = n})
  + Cardinality({t \in Threads : lc[t].node = n}) + Cardinality({t \in Threads : lc[t].b = n}) + Cardinality({t \in Threads : lc[t].t = n})
RECURSIVE Cascade(_,_,_,_,_,_,_)
Cascade(hd, tl, nx, pv, lc, fs, na) ==
  LET dead == {n \in 1..na : n \notin fs /\ Refs(hd, tl, nx, pv, lc, fs, n) = 0}
  IN IF dead = {} THEN <<nx, pv, fs>>
     ELSE Cascade(hd, tl, [n \in Nodes |-> IF n \in dead THEN 0 ELSE nx[n]], [n \in Nodes |-> IF n \in dead THEN 0 ELSE pv[n]], lc, fs \cup dead, na)
Commit(hd, tl, nx, pv, g, na, lc) ==
  LET r == Cascade(hd, tl, nx, pv, lc, freed, na) IN
  /\ head' = hd /\ tail' = tl /\ nxt' = r[1] /\ prv' = r[2] /\ freed' = r[3] /\ gen' = g /\ nalloc' = na /\ loc' = lc
Lock(h) == IF h \in 1..nalloc /\ h \notin freed THEN h ELSE 0

Op(t) == prog[t][ip[t]]
HasOp(t) == ip[t] <= Len(prog[t])
Goto(t, l) == pc' = [pc EXCEPT ![t] = l]
Done(t) == /\ pc' = [pc EXCEPT ![t] = "idle"] /\ ip' = [ip EXCEPT ![t] = @ + 1]
SetLoc(t, f, v) == [loc EXCEPT ![t][f] = v]
Keep == UNCHANGED <<head, tail, nxt, prv, gen, nalloc, freed>>

\* ---- start of an operation
Start(t) ==
  /\ pc[t] = "idle" /\ HasOp(t)
  /\ CASE Op(t).k = "append" -> Goto(t, "a_ctr")
       [] Op(t).k = "insert" -> Goto(t, "i_lockh")
       [] Op(t).k = "remove" -> Goto(t, "r_lock")
       [] Op(t).k = "invoke" -> Goto(t, "v_lock")
       [] Op(t).k = "forEach" -> Goto(t, "v_lock")        \* forEach / forEachIf: the same traversal (doForEachIf), the function sees the callbacks
       [] Op(t).k = "prepend" -> Goto(t, "a_ctr")
       [] Op(t).k = "owns" -> Goto(t, "o_lock")
       [] Op(t).k = "empty" -> Goto(t, "e_read")
  /\ mustVisit' = [mustVisit EXCEPT ![t] = IF Op(t).k \in {"invoke", "forEach"} THEN {n \in Nodes : InSeq(alist, n)} ELSE @]
  /\ visited' = [visited EXCEPT ![t] = <<>>]
  /\ UNCHANGED <<head, tail, nxt, prv, gen, nalloc, freed, cur, mtx, prog, ip, loc, alist, bad>>

\* ---- insert: before.lock() unlocked; allocate; CS
ILockH(t) == /\ pc[t] = "i_lockh" /\ Commit(head, tail, nxt, prv, gen, nalloc, SetLoc(t, "b", Lock(Op(t).h)))
             /\ Goto(t, "a_ctr") /\ UNCHANGED <<cur, mtx, prog, ip, alist, visited, mustVisit, bad>>
\* repaired code: the node is allocated with no generation yet (0), the generation is drawn in the critical section (ACs).
\* before the repair: atomic ++ here; a result of 0 starts the wrap sequence WLock / WReset / WCtr2, each a separate step
ACtr(t) == /\ pc[t] = "a_ctr" /\ nalloc < MaxNodes
           /\ IF Fixed("draw_unlocked")
              THEN /\ Commit(head, tail, nxt, prv, gen, nalloc + 1, SetLoc(t, "node", nalloc + 1)) /\ Goto(t, "a_lock") /\ UNCHANGED cur
              ELSE /\ cur' = Inc(cur)
                   /\ IF Inc(cur) # 0
                      THEN Commit(head, tail, nxt, prv, [gen EXCEPT ![nalloc + 1] = Inc(cur)], nalloc + 1, SetLoc(t, "node", nalloc + 1)) /\ Goto(t, "a_lock")
                      ELSE Keep /\ UNCHANGED loc /\ Goto(t, "w_lock")
           /\ UNCHANGED <<mtx, prog, ip, alist, visited, mustVisit, bad>>
Linked == {n \in Nodes : InSeq(Walk(nxt, head, MaxNodes + 1), n)}
WLock(t) == /\ pc[t] = "w_lock" /\ mtx = 0 /\ mtx' = t /\ Goto(t, "w_reset") /\ Keep
            /\ UNCHANGED <<cur, prog, ip, loc, alist, visited, mustVisit, bad>>
WReset(t) == /\ pc[t] = "w_reset" /\ mtx = t /\ mtx' = 0 /\ Goto(t, "w_ctr2")
             /\ Commit(head, tail, nxt, prv, [n \in Nodes |-> IF n \in Linked THEN 1 ELSE gen[n]], nalloc, loc)
             /\ UNCHANGED <<cur, prog, ip, alist, visited, mustVisit, bad>>
WCtr2(t) == /\ pc[t] = "w_ctr2" /\ nalloc < MaxNodes /\ cur' = Inc(cur)
            /\ Commit(head, tail, nxt, prv, [gen EXCEPT ![nalloc + 1] = Inc(cur)], nalloc + 1, SetLoc(t, "node", nalloc + 1)) /\ Goto(t, "a_lock")
            /\ UNCHANGED <<mtx, prog, ip, alist, visited, mustVisit, bad>>
ALock(t) == /\ pc[t] = "a_lock" /\ mtx = 0 /\ mtx' = t /\ Goto(t, "a_cs") /\ Keep
            /\ UNCHANGED <<cur, prog, ip, loc, alist, visited, mustVisit, bad>>
LinkTail(n) == <<IF head = 0 THEN n ELSE head, n, IF head = 0 THEN nxt ELSE [nxt EXCEPT ![tail] = n], IF head = 0 THEN prv ELSE [prv EXCEPT ![n] = tail]>>
\* the generation drawn inside the critical section (repaired code): <<generation of the new node, gen of the others, counter>>
Draw(n) == IF ~Fixed("draw_unlocked") THEN <<gen[n], gen, cur>>
           ELSE IF Inc(cur) # 0 THEN <<Inc(cur), [gen EXCEPT ![n] = Inc(cur)], Inc(cur)>>
           ELSE <<1, [m \in Nodes |-> IF m \in Linked \/ m = n THEN 1 ELSE gen[m]], 1>>
ACs(t) ==
  /\ pc[t] = "a_cs" /\ mtx = t /\ mtx' = 0
  /\ LET n == loc[t].node  b == loc[t].b  lc == [loc EXCEPT ![t] = NoLoc]  g == Draw(n)[2] IN
     /\ cur' = Draw(n)[3]
     /\ IF Op(t).k = "prepend"
        THEN (IF head = 0 THEN Commit(n, n, nxt, prv, g, nalloc, lc)
              ELSE Commit(n, tail, [nxt EXCEPT ![n] = head], [prv EXCEPT ![head] = n], g, nalloc, lc))
        ELSE IF b # 0 /\ (Fixed("stale") => gen[b] # 0)
        THEN Commit(IF b = head THEN n ELSE head, tail,
                    IF prv[b] # 0 THEN [nxt EXCEPT ![n] = b, ![prv[b]] = n] ELSE [nxt EXCEPT ![n] = b],
                    [prv EXCEPT ![n] = prv[b], ![b] = n], g, nalloc, lc)
        ELSE LET l == LinkTail(n) IN Commit(l[1], l[2], l[3], l[4], g, nalloc, lc)
     /\ alist' = IF Op(t).k = "prepend" THEN <<n>> \o alist
                 ELSE IF Op(t).k = "insert" /\ InSeq(alist, Op(t).h)
                 THEN LET p == Pos(alist, Op(t).h) IN SubSeq(alist, 1, p - 1) \o <<n>> \o SubSeq(alist, p, Len(alist))
                 ELSE Append(alist, n)
  /\ Done(t) /\ UNCHANGED <<prog, visited, mustVisit, bad>>

\* ---- remove: lock; handle.lock(); doFreeNode; unlock
RLock(t) == /\ pc[t] = "r_lock" /\ mtx = 0 /\ mtx' = t /\ Goto(t, "r_cs") /\ Keep
            /\ UNCHANGED <<cur, prog, ip, loc, alist, visited, mustVisit, bad>>
RCs(t) ==
  /\ pc[t] = "r_cs" /\ mtx = t /\ mtx' = 0
  /\ LET n == Lock(Op(t).h)  did == n # 0 /\ (Fixed("stale") => gen[n] # 0) IN
     /\ IF did
        THEN Commit(IF head = n THEN nxt[n] ELSE head, IF tail = n THEN prv[n] ELSE tail,
                    IF prv[n] # 0 THEN [nxt EXCEPT ![prv[n]] = nxt[n]] ELSE nxt,
                    IF nxt[n] # 0 THEN [prv EXCEPT ![nxt[n]] = prv[n]] ELSE prv,
                    [gen EXCEPT ![n] = 0], nalloc, loc)
        ELSE Commit(head, tail, nxt, prv, gen, nalloc, loc)
     /\ bad' = IF did # InSeq(alist, Op(t).h) THEN "remove-result" ELSE bad     \* linearizable result
     /\ alist' = SelectSeq(alist, LAMBDA x : x # Op(t).h)
     /\ mustVisit' = [u \in Threads |-> mustVisit[u] \ {Op(t).h}]                \* no longer "stayed for the whole duration"
  /\ Done(t) /\ UNCHANGED <<cur, prog, visited>>

\* ---- ownsHandle: lock; handle.lock(); walk previous to the root; compare with head; unlock.   empty(): one unlocked read of head
RECURSIVE RootOf(_,_)
RootOf(n, fuel) == IF fuel = 0 \/ prv[n] = 0 THEN n ELSE RootOf(prv[n], fuel - 1)
OLock(t) == /\ pc[t] = "o_lock" /\ mtx = 0 /\ mtx' = t /\ Goto(t, "o_cs") /\ Keep
            /\ UNCHANGED <<cur, prog, ip, loc, alist, visited, mustVisit, bad>>
OCs(t) == /\ pc[t] = "o_cs" /\ mtx = t /\ mtx' = 0
          /\ LET n == Lock(Op(t).h)  res == n # 0 /\ (Fixed("stale") => gen[n] # 0) /\ RootOf(n, MaxNodes + 1) = head IN
             bad' = IF res # InSeq(alist, Op(t).h) THEN "owns-result" ELSE bad
          /\ Done(t) /\ Keep /\ UNCHANGED <<cur, prog, loc, alist, visited, mustVisit>>
ERead(t) == /\ pc[t] = "e_read" /\ bad' = IF (head = 0) # (alist = <<>>) /\ mtx = 0 THEN "empty-result" ELSE bad
            /\ Done(t) /\ Keep /\ UNCHANGED <<cur, mtx, prog, loc, alist, visited, mustVisit>>

\* ---- invoke: lock; node = head; unlock; counter = cur; loop { read node.counter; call; lock; node = node.next; unlock }
VLock(t) == /\ pc[t] = "v_lock" /\ mtx = 0 /\ mtx' = t /\ Goto(t, "v_head") /\ Keep
            /\ UNCHANGED <<cur, prog, ip, loc, alist, visited, mustVisit, bad>>
VHead(t) == /\ pc[t] = "v_head" /\ mtx = t /\ mtx' = 0
            /\ Commit(head, tail, nxt, prv, gen, nalloc, IF Fixed("draw_unlocked") THEN [loc EXCEPT ![t].t = head, ![t].c = cur] ELSE SetLoc(t, "t", head))
            /\ Goto(t, IF Fixed("draw_unlocked") THEN "v_test" ELSE "v_ctr") /\ UNCHANGED <<cur, prog, ip, alist, visited, mustVisit, bad>>
VCtr(t) == /\ pc[t] = "v_ctr" /\ Commit(head, tail, nxt, prv, gen, nalloc, SetLoc(t, "c", cur))
           /\ Goto(t, "v_test") /\ UNCHANGED <<cur, mtx, prog, ip, alist, visited, mustVisit, bad>>
VTest(t) ==
  /\ pc[t] = "v_test"
  /\ LET n == loc[t].t IN
     IF n = 0
     THEN /\ bad' = IF mustVisit[t] \subseteq {visited[t][i] : i \in 1..Len(visited[t])} THEN bad ELSE "missed-callback"
          /\ Commit(head, tail, nxt, prv, gen, nalloc, [loc EXCEPT ![t] = NoLoc]) /\ Done(t)
          /\ UNCHANGED <<cur, mtx, prog, alist, visited, mustVisit>>
     ELSE /\ IF gen[n] # 0 /\ loc[t].c >= gen[n]
             THEN /\ visited' = [visited EXCEPT ![t] = Append(@, n)]
                  /\ bad' = IF InSeq(visited[t], n) THEN "visited-twice" ELSE bad
             ELSE UNCHANGED <<visited, bad>>
          /\ Goto(t, "v_steplock") /\ Keep /\ UNCHANGED <<cur, mtx, prog, ip, loc, alist, mustVisit>>
VStepLock(t) == /\ pc[t] = "v_steplock" /\ mtx = 0 /\ mtx' = t /\ Goto(t, "v_step") /\ Keep
                /\ UNCHANGED <<cur, prog, ip, loc, alist, visited, mustVisit, bad>>
VStep(t) == /\ pc[t] = "v_step" /\ mtx = t /\ mtx' = 0
            /\ Commit(head, tail, nxt, prv, gen, nalloc, SetLoc(t, "t", nxt[loc[t].t]))
            /\ Goto(t, "v_test") /\ UNCHANGED <<cur, prog, ip, alist, visited, mustVisit, bad>>

Step(t) == OLock(t) \/ OCs(t) \/ ERead(t) \/ Start(t) \/ ILockH(t) \/ ACtr(t) \/ WLock(t) \/ WReset(t) \/ WCtr2(t) \/ ALock(t) \/ ACs(t) \/ RLock(t) \/ RCs(t)
           \/ VLock(t) \/ VHead(t) \/ VCtr(t) \/ VTest(t) \/ VStepLock(t) \/ VStep(t)
Next == (\E t \in Threads : Step(t)) /\ UNCHANGED prog

Linearizable == bad = "ok"
RefinesList == mtx = 0 => (Walk(nxt, head, MaxNodes + 1) = alist
                           /\ Walk(prv, tail, MaxNodes + 1) = [i \in 1..Len(alist) |-> alist[Len(alist) + 1 - i]])
\* no callback of the list is out of reach of the invocations to come (generation above the counter), the removed mark only on removed nodes
Reachable == mtx = 0 => \A i \in 1..Len(alist) : gen[alist[i]] # 0 /\ gen[alist[i]] <= cur
AllDone == \A t \in Threads : pc[t] = "idle" /\ ~HasOp(t)
NoLeakAtEnd == AllDone => \A n \in 1..nalloc : gen[n] = 0 => n \in freed
NoDeadlock == AllDone \/ ENABLED Next
=============================================================================
