------------------------------ MODULE TraceLock ------------------------------
(***************************************************************************)
(* The mutex abstraction the interleaving models rely on (`mtx` in         *)
(* ConcCL.tla / ConcQueue.tla): a lock is acquired only when free and      *)
(* released only by its holder.  harness/lock_stress.cpp records, from     *)
(* inside the critical sections of a SHIPPED mutex (std::mutex or          *)
(* eventpp::SpinLock) under real contention, the sequence of acquisitions  *)
(* and releases; this module accepts the record iff it is a behaviour of   *)
(* that abstraction and every round of every thread is in it.              *)
(*   go  a = threads, b = rounds per thread     acq / rel  t = thread      *)
(*   fin a = number of records the log held     rs = end of the execution  *)
(***************************************************************************)
EXTENDS Naturals, Sequences, FiniteSets, TLC, Json, IOUtils
TraceLog == ndJsonDeserialize(IOEnv.TRACE)
VARIABLES holder,    \* 0 = free, else thread + 1
          rounds,    \* completed rounds per thread (a function over the threads announced by `go`)
          want,      \* rounds each thread was to make
          nrec, st, l
vars == <<holder, rounds, want, nrec, st, l>>
Init == holder = 0 /\ rounds = <<>> /\ want = 0 /\ nrec = 0 /\ st = "idle" /\ l = 1
E == TraceLog[l]
Is(e) == l <= Len(TraceLog) /\ E.e = e /\ l' = l + 1
EvGo == /\ Is("go") /\ st = "idle" /\ E.a \in 1..8 /\ st' = "run" /\ rounds' = [i \in 1..E.a |-> 0] /\ want' = E.b /\ nrec' = 0 /\ holder' = 0
Acquire(t) == holder = 0 /\ holder' = t + 1
Release(t) == holder = t + 1 /\ holder' = 0
EvAcq == /\ Is("acq") /\ st = "run" /\ E.t + 1 \in DOMAIN rounds /\ Acquire(E.t) /\ nrec' = nrec + 1 /\ UNCHANGED <<rounds, want, st>>
EvRel == /\ Is("rel") /\ st = "run" /\ E.t + 1 \in DOMAIN rounds /\ Release(E.t) /\ nrec' = nrec + 1
         /\ rounds' = [rounds EXCEPT ![E.t + 1] = @ + 1] /\ UNCHANGED <<want, st>>
\* nothing was lost: every thread completed all its rounds and the log counted every record
EvFin == /\ Is("fin") /\ st = "run" /\ holder = 0 /\ E.a = nrec /\ (\A i \in DOMAIN rounds : rounds[i] = want)
         /\ st' = "fin" /\ UNCHANGED <<holder, rounds, want, nrec>>
EvReset == /\ Is("rs") /\ st = "fin" /\ st' = "idle" /\ rounds' = <<>> /\ want' = 0 /\ nrec' = 0 /\ holder' = 0
Next == EvGo \/ EvAcq \/ EvRel \/ EvFin \/ EvReset
Report == IF TLCGet("stats").diameter - 1 = Len(TraceLog) THEN TRUE
          ELSE PrintT(<<"REJECTED", TLCGet("stats").diameter, Len(TraceLog)>>) /\ FALSE
=============================================================================
