------------------------------- MODULE DQImpl -------------------------------
(***************************************************************************)
(* Implementation-shaped, sequential, re-entrant model of                  *)
(* eventdispatcher.h + eventqueue.h (+ mixins/mixinfilter.h).              *)
(*                                                                         *)
(* Listener lists are kept at the level CLImpl.tla has verified (a         *)
(* sequence per event, an invocation is a snapshot with a cursor); the     *)
(* queue is modelled as the code has it: BufferedItem slots with an        *)
(* occupied flag, queueList / freeList, the local tempList / idleList of   *)
(* each processing call, queueEmptyCounter.  User code (listeners,         *)
(* filters, predicates) is where every operation is issued from; the       *)
(* library's own control flow between two pieces of user code is the       *)
(* internal action Tau.                                                    *)
(*                                                                         *)
(* Ghost state: for every enqueued event where it is (pending / held by a  *)
(* processing call / consumed), checked against the concrete lists in      *)
(* every state (ledger, C05/C08), and what emptyQueue() must say (C11).    *)
(* `hist` is the script of user-level operations; printed per transition.  *)
(***************************************************************************)
EXTENDS Naturals, Sequences, FiniteSets, TLC, Json

CONSTANTS Events,       \* event keys, e.g. {1,2}
          MaxNodes,     \* listener additions in one history
          MaxFilters,   \* filter additions
          MaxEnq,       \* enqueue calls
          MaxDisp,      \* direct dispatch calls
          MaxDepth,     \* frames (processing calls + dispatches) on the stack
          Ordered,      \* TRUE: OrderedQueueList (stable sort by event key after every splice), FALSE: std::list
          Ops, NestOps, Defects

VARIABLES lst, flt, nn, nf,            \* listeners per event, filters, allocation counters
          qlist, flist, occ, nslot,    \* queueList, freeList (slot numbers), occupied flag -> uid or 0, slots created
          ecount,                      \* queueEmptyCounter
          frames, nuid, ndisp, ekey,       \* ekey: uid -> event key given at enqueue
          where,                       \* ghost: uid -> "pending" | "held" | "done"
          bad, hist
vars == <<lst, flt, nn, nf, qlist, flist, occ, nslot, ecount, frames, nuid, ndisp, ekey, where, bad, hist>>
View == <<lst, flt, nn, nf, qlist, flist, occ, nslot, ecount, frames, nuid, ndisp, ekey, where, bad>>

Fixed(d) == d \notin Defects
Slots == 1..MaxEnq
InSeq(s, x) == \E i \in 1..Len(s) : s[i] = x
Pos(s, x) == CHOOSE i \in 1..Len(s) : s[i] = x
Without(s, x) == SelectSeq(s, LAMBDA y : y # x)
Range(s) == {s[i] : i \in 1..Len(s)}

Init == /\ lst = [e \in Events |-> <<>>] /\ flt = <<>> /\ nn = 0 /\ nf = 0
        /\ qlist = <<>> /\ flist = <<>> /\ occ = [s \in Slots |-> 0] /\ nslot = 0 /\ ecount = 0
        /\ frames = <<>> /\ nuid = 0 /\ ndisp = 0 /\ ekey = [u \in 1..MaxEnq |-> 0] /\ where = [u \in 1..MaxEnq |-> "none"]
        /\ bad = "ok" /\ hist = <<>>

Top == frames[Len(frames)]
SetTop(f) == [frames EXCEPT ![Len(frames)] = f]
PopF == SubSeq(frames, 1, Len(frames) - 1)
\* user code is running: top level, a listener or filter (dispatch frame with a current callback), or a predicate
InUser == IF frames = <<>> THEN TRUE
          ELSE IF Top.k = "D" THEN Top.cur # 0 ELSE Top.inpred
En(op) == InUser /\ op \in Ops /\ (frames = <<>> \/ op \in NestOps)
Flag(cond, what) == IF bad = "ok" /\ cond THEN what ELSE bad
H(op, a, b) == hist' = Append(hist, <<op, a, b>>)

\* ------------------------------------------------------------------ listener management (per event = callback list)
UQ == UNCHANGED <<qlist, flist, occ, nslot, ecount, nuid, ekey, where>>
AddListener(op, e, newseq) ==
  /\ En(op) /\ nn < MaxNodes
  /\ lst' = [lst EXCEPT ![e] = newseq] /\ nn' = nn + 1
  /\ UNCHANGED <<flt, nf, frames, ndisp, bad>> /\ UQ
OpAppendL(e) == AddListener("al", e, Append(lst[e], nn + 1)) /\ H("al", e, 0)
\* listeners wrapped by conditionalFunctor ("aw") / argumentAdapter ("aa"): for the generator they are listeners like any other
\* (whether a conditionalFunctor runs depends on the argument value, which only the trace specification follows)
OpAppendW(op, e) == AddListener(op, e, Append(lst[e], nn + 1)) /\ H(op, e, 0)
OpPrependL(e) == AddListener("pl", e, <<nn + 1>> \o lst[e]) /\ H("pl", e, 0)
OpInsertL(e, h) == /\ h \in 0..nn /\ (h = 0 \/ \A x \in Events : x # e => ~InSeq(lst[x], h))
                   /\ AddListener("il", e, IF InSeq(lst[e], h) THEN LET p == Pos(lst[e], h) IN SubSeq(lst[e], 1, p - 1) \o <<nn + 1>> \o SubSeq(lst[e], p, Len(lst[e]))
                                           ELSE Append(lst[e], nn + 1))
                   /\ H("il", e, h)
OpRemoveL(e, h) == /\ En("rl") /\ h \in 0..nn /\ (h = 0 \/ \A x \in Events : x # e => ~InSeq(lst[x], h))
                   /\ lst' = [lst EXCEPT ![e] = Without(@, h)]
                   /\ UNCHANGED <<flt, nn, nf, frames, ndisp, bad>> /\ UQ /\ H("rl", e, h)
OpQueryL(op, e, h) == /\ En(op) /\ h \in 0..nn /\ UNCHANGED <<lst, flt, nn, nf, frames, ndisp, bad>> /\ UQ /\ H(op, e, h)

\* forEach(event, function) whose function is user code: the traversal of a dispatch without filters, the function may change listeners
OpForEachUser(e) ==
  /\ En("fu") /\ Len(frames) < MaxDepth
  /\ frames' = Append(frames, [k |-> "D", e |-> e, uid |-> 0, ph |-> "u", ftodo |-> <<>>, todo |-> lst[e], cur |-> 0, explicit |-> TRUE])
  /\ UNCHANGED <<lst, flt, nn, nf, ndisp, bad>> /\ UQ /\ H("fu", e, 0)

OpAppendF == /\ En("af") /\ nf < MaxFilters /\ flt' = Append(flt, nf + 1) /\ nf' = nf + 1
             /\ UNCHANGED <<lst, nn, frames, ndisp, bad>> /\ UQ /\ H("af", 0, 0)
OpRemoveF(h) == /\ En("rf") /\ h \in 1..nf /\ flt' = Without(flt, h)
                /\ UNCHANGED <<lst, nn, nf, frames, ndisp, bad>> /\ UQ /\ H("rf", h, 0)

\* ------------------------------------------------------------------ dispatch
\* a dispatch runs the filters (snapshot of the filter list), then the listeners (snapshot taken after the filters)
NewD(e, uid, explicit) == [k |-> "D", e |-> e, uid |-> uid, ph |-> "f", ftodo |-> flt, todo |-> <<>>, cur |-> 0, explicit |-> explicit]
OpDispatch(e) ==
  /\ En("dp") /\ ndisp < MaxDisp /\ Len(frames) < MaxDepth
  /\ frames' = Append(frames, NewD(e, 0, TRUE)) /\ ndisp' = ndisp + 1
  /\ UNCHANGED <<lst, flt, nn, nf, bad>> /\ UQ /\ H("dp", e, Len(hist) % 3)

\* OrderedQueueList: splice, then stable sort by key (empty slots first - only the free list has those)
KeyOfSlot(oc, ek, s) == ek[oc[s]]
RECURSIVE InsStable(_,_,_,_)
InsStable(q, s, oc, ek) == IF q = <<>> THEN <<s>>
                           ELSE IF KeyOfSlot(oc, ek, s) < KeyOfSlot(oc, ek, Head(q)) THEN <<s>> \o q
                           ELSE <<Head(q)>> \o InsStable(Tail(q), s, oc, ek)
RECURSIVE SortStable(_,_,_)
SortStable(q, oc, ek) == IF q = <<>> THEN <<>> ELSE InsStable(SortStable(SubSeq(q, 1, Len(q) - 1), oc, ek), q[Len(q)], oc, ek)
QOrder(q, oc, ek) == IF Ordered THEN SortStable(q, oc, ek) ELSE q

\* ------------------------------------------------------------------ queue operations
\* doEnqueue: take a recycled slot or create one, set, splice to the back
OpEnqueue(e) ==
  /\ En("nq") /\ nuid < MaxEnq
  /\ LET reuse == flist # <<>>
         s == IF reuse THEN Head(flist) ELSE nslot + 1 IN
     /\ flist' = IF reuse THEN Tail(flist) ELSE flist
     /\ nslot' = IF reuse THEN nslot ELSE nslot + 1
     /\ occ' = [occ EXCEPT ![s] = nuid + 1]
     /\ bad' = Flag(occ[s] # 0, "set-on-occupied")
     /\ qlist' = QOrder(Append(qlist, s), occ', [ekey EXCEPT ![nuid + 1] = e])
  /\ nuid' = nuid + 1 /\ where' = [where EXCEPT ![nuid + 1] = "pending"] /\ ekey' = [ekey EXCEPT ![nuid + 1] = e]
  /\ UNCHANGED <<lst, flt, nn, nf, ecount, frames, ndisp>> /\ H("nq", e, Len(hist) % 3)

NewP(mode, temp) == [k |-> "P", mode |-> mode, temp |-> temp, idle |-> <<>>, pos |-> 1, inpred |-> FALSE, busy |-> FALSE, stopped |-> FALSE]
Hold(w, ss) == [u \in DOMAIN w |-> IF \E i \in 1..Len(ss) : occ[ss[i]] = u THEN "held" ELSE w[u]]
\* process / processIf / processUntil swap the whole list out, processOne splices the front; the guard counts first
OpProcess(op, mode) ==
  /\ En(op) /\ Len(frames) + 1 < MaxDepth
  /\ IF qlist = <<>> THEN UNCHANGED <<qlist, ecount, frames, where>>          \* unlocked pre-check: returns false
     ELSE LET taken == IF mode = "one" THEN <<Head(qlist)>> ELSE qlist IN
          /\ qlist' = IF mode = "one" THEN Tail(qlist) ELSE <<>>
          /\ ecount' = IF Fixed("no_guard_one") \/ mode # "one" THEN ecount + 1 ELSE ecount
          /\ frames' = Append(frames, NewP(mode, taken))
          /\ where' = Hold(where, taken)
  /\ UNCHANGED <<lst, flt, nn, nf, flist, occ, nslot, nuid, ndisp, ekey, bad>> /\ H(op, 0, 0)

OpPeek == /\ En("pk") /\ UNCHANGED <<lst, flt, nn, nf, frames, ndisp, bad>> /\ UQ /\ H("pk", 0, 0)
OpTake == /\ En("tk")
          /\ IF qlist = <<>> THEN UNCHANGED <<qlist, flist, occ, where, bad>>
             ELSE LET s == Head(qlist) IN
                  /\ qlist' = Tail(qlist) /\ flist' = Append(flist, s) /\ occ' = [occ EXCEPT ![s] = 0]
                  /\ where' = [where EXCEPT ![occ[s]] = "done"] /\ bad' = Flag(occ[s] = 0, "clear-on-empty")
          /\ UNCHANGED <<lst, flt, nn, nf, nslot, ecount, frames, nuid, ndisp, ekey>> /\ H("tk", 0, 0)
\* takeEvent followed by dispatch(queuedEvent): the taken event is dispatched directly, the queue no longer knows it
OpTakeDispatch ==
  /\ En("td") /\ ndisp < MaxDisp /\ Len(frames) < MaxDepth
  /\ IF qlist = <<>> THEN UNCHANGED <<qlist, flist, occ, where, bad, frames, ndisp>>
     ELSE LET s == Head(qlist) IN
          /\ qlist' = Tail(qlist) /\ flist' = Append(flist, s) /\ occ' = [occ EXCEPT ![s] = 0]
          /\ where' = [where EXCEPT ![occ[s]] = "done"] /\ bad' = Flag(occ[s] = 0, "clear-on-empty")
          /\ frames' = Append(frames, NewD(ekey[occ[s]], 0, TRUE)) /\ ndisp' = ndisp + 1
  /\ UNCHANGED <<lst, flt, nn, nf, nslot, ecount, nuid, ekey>> /\ H("td", 0, 0)
OpClear == /\ En("cl")
           /\ qlist' = <<>> /\ flist' = flist \o qlist
           /\ occ' = [s \in Slots |-> IF InSeq(qlist, s) THEN 0 ELSE occ[s]]
           /\ where' = [u \in DOMAIN where |-> IF \E i \in 1..Len(qlist) : occ[qlist[i]] = u THEN "done" ELSE where[u]]
           /\ UNCHANGED <<lst, flt, nn, nf, nslot, ecount, frames, nuid, ndisp, ekey, bad>> /\ H("cl", 0, 0)
\* emptyQueue(): queueList.empty() && queueEmptyCounter == 0; the property wants: nothing pending, nothing held by process/processOne
Holding == \E d \in DOMAIN frames : frames[d].k = "P" /\ frames[d].mode \in {"all", "one"}
OpEmptyQ == /\ En("eq")
            /\ bad' = Flag((qlist = <<>> /\ ecount = 0) /\ (Holding \/ \E u \in DOMAIN where : where[u] = "pending"), "empty-while-pending")
            /\ UNCHANGED <<lst, flt, nn, nf, frames, ndisp>> /\ UQ /\ H("eq", 0, 0)

\* "zz": the history ends here and the object is destroyed with whatever is still queued (no draining by the probe epilogue)
OpEndNoDrain == /\ En("zz") /\ frames = <<>> /\ qlist # <<>> /\ UNCHANGED <<lst, flt, nn, nf, frames, ndisp, bad>> /\ UQ /\ H("zz", 0, 0)

\* ------------------------------------------------------------------ returns from user code
Live(e, s) == SelectSeq(s, LAMBDA x : InSeq(lst[e], x))
LiveF(s) == SelectSeq(s, LAMBDA x : InSeq(flt, x))
RetListener == /\ frames # <<>> /\ Top.k = "D" /\ Top.cur # 0 /\ Top.ph \in {"l", "u"}
               /\ frames' = SetTop([Top EXCEPT !.cur = 0])
               /\ UNCHANGED <<lst, flt, nn, nf, ndisp, bad>> /\ UQ /\ H("t", 0, 0)
RetFilter(d, v) == /\ frames # <<>> /\ Top.k = "D" /\ Top.cur # 0 /\ Top.ph = "f"
                   /\ frames' = IF v = 1 THEN SetTop([Top EXCEPT !.cur = 0])
                                ELSE SetTop([Top EXCEPT !.cur = 0, !.ftodo = <<>>, !.ph = "x"])        \* blocked: no further filter, no listener
                   /\ UNCHANGED <<lst, flt, nn, nf, ndisp, bad>> /\ UQ /\ H("ft", d, v)
RetPred(v) == /\ frames # <<>> /\ Top.k = "P" /\ Top.inpred
              /\ LET go == (Top.mode = "if" /\ v = 1) \/ (Top.mode = "until" /\ v = 0) IN
                 frames' = IF go THEN Append(SetTop([Top EXCEPT !.inpred = FALSE, !.busy = TRUE]), NewD(ekey[occ[Top.temp[Top.pos]]], occ[Top.temp[Top.pos]], FALSE))
                           ELSE IF Top.mode = "if" THEN SetTop([Top EXCEPT !.inpred = FALSE, !.pos = @ + 1])
                           ELSE SetTop([Top EXCEPT !.inpred = FALSE, !.stopped = TRUE])
              /\ UNCHANGED <<lst, flt, nn, nf, ndisp, bad>> /\ UQ /\ H("pt", v, 0)

\* user code throws (listener, filter or predicate): the exception leaves the dispatch; if that dispatch belongs to a processing
\* call the exception leaves that call too: its tempList/idleList are destroyed (every event it still held is discarded, the
\* slots are modelled as recycled - their identity is not observable) and the CounterGuard drops the guard
Discard(oc, ss) == [s \in Slots |-> IF InSeq(ss, s) THEN 0 ELSE oc[s]]
RetThrow ==
  /\ frames # <<>> /\ "x" \in Ops /\ InUser
  /\ LET n == Len(frames)
         inProc == IF Top.k = "P" THEN TRUE ELSE (~Top.explicit /\ n > 1)
         pidx == IF Top.k = "P" THEN n ELSE n - 1 IN
     IF ~inProc
     THEN frames' = PopF /\ UNCHANGED <<qlist, flist, occ, ecount, where>>
     ELSE LET p == frames[pidx]  held == p.temp IN
          /\ frames' = SubSeq(frames, 1, pidx - 1)
          /\ occ' = Discard(occ, held)
          /\ where' = [u \in DOMAIN where |-> IF \E i \in 1..Len(held) : occ[held[i]] = u THEN "done" ELSE where[u]]
          /\ flist' = flist \o held \o p.idle
          /\ ecount' = IF Fixed("no_guard_one") \/ p.mode # "one" THEN ecount - 1 ELSE ecount
          /\ UNCHANGED qlist
  /\ UNCHANGED <<lst, flt, nn, nf, nslot, nuid, ndisp, ekey, bad>> /\ H("x", 0, 0)

\* ------------------------------------------------------------------ the library's own control flow between user code
Tau ==
  /\ ~InUser /\ UNCHANGED <<lst, flt, nn, nf, nslot, nuid, ndisp, ekey, hist>>
  /\ IF Top.k = "D"
     THEN /\ UNCHANGED <<qlist, flist, occ, ecount, where, bad>>
          /\ IF Top.ph = "f" THEN
                 IF LiveF(Top.ftodo) # <<>> THEN frames' = SetTop([Top EXCEPT !.ftodo = Tail(LiveF(@)), !.cur = Head(LiveF(Top.ftodo))])
                 ELSE frames' = SetTop([Top EXCEPT !.ph = "l", !.todo = lst[Top.e]])
             ELSE IF Top.ph \in {"l", "u"} /\ Live(Top.e, Top.todo) # <<>> THEN frames' = SetTop([Top EXCEPT !.todo = Tail(Live(Top.e, @)), !.cur = Head(Live(Top.e, Top.todo))])
             ELSE frames' = PopF                                                  \* dispatch finished (or blocked by a filter)
     ELSE \* processing frame
          LET p == Top IN
          IF p.busy THEN          \* the dispatch of temp[pos] has returned: item.clear(), move on
             LET s == p.temp[p.pos] IN
             /\ occ' = [occ EXCEPT ![s] = 0] /\ where' = [where EXCEPT ![occ[s]] = "done"]
             /\ bad' = Flag(occ[s] = 0, "clear-on-empty")
             /\ frames' = IF p.mode \in {"if", "until"}
                          THEN SetTop([p EXCEPT !.busy = FALSE, !.idle = Append(@, s), !.temp = SubSeq(p.temp, 1, p.pos - 1) \o SubSeq(p.temp, p.pos + 1, Len(p.temp))])
                          ELSE SetTop([p EXCEPT !.busy = FALSE, !.pos = @ + 1])
             /\ UNCHANGED <<qlist, flist, ecount>>
          ELSE IF p.pos <= Len(p.temp) /\ ~p.stopped THEN
             /\ frames' = IF p.mode \in {"if", "until"} THEN SetTop([p EXCEPT !.inpred = TRUE])
                          ELSE Append(SetTop([p EXCEPT !.busy = TRUE]), NewD(ekey[occ[p.temp[p.pos]]], occ[p.temp[p.pos]], FALSE))
             /\ UNCHANGED <<qlist, flist, occ, ecount, where, bad>>
          ELSE \* finish: put the rest back in FRONT of the queue, recycle the dispatched slots, drop the guard
             /\ qlist' = IF p.mode \in {"if", "until"} THEN QOrder(p.temp \o qlist, occ, ekey) ELSE qlist
             /\ flist' = flist \o (IF p.mode \in {"if", "until"} THEN p.idle ELSE p.temp)
             /\ where' = [u \in DOMAIN where |-> IF p.mode \in {"if", "until"} /\ \E i \in 1..Len(p.temp) : occ[p.temp[i]] = u THEN "pending" ELSE where[u]]
             /\ ecount' = IF Fixed("no_guard_one") \/ p.mode # "one" THEN ecount - 1 ELSE ecount
             /\ frames' = PopF
             /\ UNCHANGED <<occ, bad>>

Next == \/ \E e \in Events : \/ OpAppendL(e) \/ OpPrependL(e) \/ OpAppendW("aw", e) \/ OpAppendW("aa", e) \/ OpDispatch(e) \/ OpEnqueue(e)
                             \/ \E h \in 0..MaxNodes : OpInsertL(e, h) \/ OpRemoveL(e, h) \/ OpQueryL("ol", e, h)
                             \/ OpQueryL("hl", e, 0) \/ OpQueryL("fl", e, 0) \/ OpForEachUser(e)
        \/ OpAppendF \/ \E h \in 1..MaxFilters : OpRemoveF(h)
        \/ OpProcess("pa", "all") \/ OpProcess("po", "one") \/ OpProcess("pi", "if") \/ OpProcess("pu", "until")
        \/ OpPeek \/ OpTake \/ OpTakeDispatch \/ OpClear \/ OpEmptyQ \/ OpEndNoDrain
        \/ RetThrow
        \/ RetListener \/ \E d \in 0..1, v \in 0..1 : RetFilter(d, v)
        \/ \E v \in 0..1 : RetPred(v)
        \/ Tau

\* ---- invariants
Ok == bad = "ok"
\* ledger (C05, C06 sequentially, C08): every enqueued event is in exactly one place
HeldSlots == LET RECURSIVE Cat(_)
                 Cat(d) == IF d = 0 THEN <<>> ELSE Cat(d - 1) \o (IF frames[d].k = "P" THEN frames[d].temp ELSE <<>>)
             IN Cat(Len(frames))
Ledger == /\ \A u \in 1..nuid :
               /\ where[u] = "pending" <=> \E i \in 1..Len(qlist) : occ[qlist[i]] = u
               /\ where[u] = "held" <=> \E i \in 1..Len(HeldSlots) : occ[HeldSlots[i]] = u
               /\ where[u] \in {"pending", "held", "done"}
          /\ \A i, j \in 1..Len(qlist) : i # j => qlist[i] # qlist[j]
          /\ \A i \in 1..Len(flist) : occ[flist[i]] = 0                   \* recycled slots are empty
          /\ \A i \in 1..Len(qlist) : occ[qlist[i]] # 0                   \* queued slots are occupied
          /\ \A s \in 1..nslot : Cardinality({i \in 1..Len(qlist) : qlist[i] = s}) + Cardinality({i \in 1..Len(flist) : flist[i] = s})
                                  + Cardinality({i \in 1..Len(HeldSlots) : HeldSlots[i] = s})
                                  + Cardinality({d \in DOMAIN frames : frames[d].k = "P" /\ InSeq(frames[d].idle, s)}) = 1
\* FIFO: pending uids ascend except that put-back events precede newer ones (they are older): queue order = uid order
Fifo == \A i, j \in 1..Len(qlist) : i < j =>
          IF Ordered THEN ekey[occ[qlist[i]]] < ekey[occ[qlist[j]]] \/ (ekey[occ[qlist[i]]] = ekey[occ[qlist[j]]] /\ occ[qlist[i]] < occ[qlist[j]])
          ELSE occ[qlist[i]] < occ[qlist[j]]
GuardBalanced == ecount = Cardinality({d \in DOMAIN frames : frames[d].k = "P"})
AtRest == frames = <<>> => ecount = 0 /\ \A u \in 1..nuid : where[u] \in {"pending", "done"}

Emit == IF hist' # hist THEN PrintT(ToJson(hist')) ELSE TRUE
=============================================================================
