------------------------------- MODULE RemGen -------------------------------
(***************************************************************************)
(* Generator + reference model for the remover utilities:                  *)
(*   ScopedRemover (C15): removers with a target dispatcher and the set of *)
(*     listeners they are responsible for; add / remove through a remover, *)
(*     reset, setDispatcher, move construction, move assignment (into      *)
(*     empty and non-empty removers), swap, destruction, in any order,     *)
(*     mixed with direct additions and dispatches;                         *)
(*   CounterRemover / ConditionalRemover (C16): listeners that detach      *)
(*     themselves on their max(n,1)-th trigger / on the first trigger for  *)
(*     which their (scripted) condition holds; flat, nested (the wrapped   *)
(*     listener re-dispatches its own event) and queued triggers.          *)
(* The state is the abstract meaning itself (these utilities are thin);    *)
(* TLC checks the invariants of the statements on all bounded histories    *)
(* and prints one script per transition; the scripts run on the real       *)
(* classes (harness/dq_interp.cpp) and TraceDQ.tla judges the executions.  *)
(* Two dispatchers: d=1 (events 1,2) and d=2 (events 3,4 in the trace).    *)
(***************************************************************************)
EXTENDS Naturals, Integers, Sequences, FiniteSets, TLC, Json

CONSTANTS MaxNodes, MaxRemovers, MaxDisp, MaxEnq, MaxDepth, Counts, Ops, NestOps, Defects,
          EvKeys      \* event keys used per dispatcher: {1,2}; {1} when the targets are plain callback lists

Keys == 1..4                      \* 1,2: dispatcher 1; 3,4: dispatcher 2
Rs == 1..MaxRemovers
\* TLC configuration files cannot spell negative numbers: an element 100 + k of Counts stands for the trigger count -k
RealCount(c) == IF c >= 100 THEN 0 - (c - 100) ELSE c
VARIABLES lst,       \* [Keys -> Seq(node)]
          kind,      \* node -> [k: "plain"|"ctr"|"cond", left: Int]   (a sequence indexed by node)
          rem,       \* [Rs -> [alive, tgt, resp: set of nodes]]
          frames,    \* stack of dispatches: [e, todo, cur, ph]  ph: "l" listener running, "c" condition running
          pending, ndisp, nenq, added, bad, hist
vars == <<lst, kind, rem, frames, pending, ndisp, nenq, added, bad, hist>>
View == <<lst, kind, rem, frames, pending, ndisp, nenq, added, bad>>

Fixed(d) == d \notin Defects
InSeq(s, x) == \E i \in 1..Len(s) : s[i] = x
Without(s, x) == SelectSeq(s, LAMBDA y : y # x)
Strip(l, S) == [k \in Keys |-> SelectSeq(l[k], LAMBDA y : y \notin S)]
Attached(n) == \E k \in Keys : InSeq(lst[k], n)
nn == Len(kind)
KeyOf(d, e) == e + 2 * (d - 1)

Init == /\ lst = [k \in Keys |-> <<>>] /\ kind = <<>> /\ rem = [r \in Rs |-> [alive |-> r = 1, tgt |-> 1, resp |-> {}]]
        /\ frames = <<>> /\ pending = <<>> /\ ndisp = 0 /\ nenq = 0 /\ added = {} /\ bad = "ok" /\ hist = <<>>

Top == frames[Len(frames)]
InUser == IF frames = <<>> THEN TRUE ELSE Top.cur # 0
En(op) == InUser /\ op \in Ops /\ (frames = <<>> \/ op \in NestOps)
H(op, a, b) == hist' = Append(hist, <<op, a, b>>)
Flag(c, w) == IF bad = "ok" /\ c THEN w ELSE bad

\* ---- direct listener management on dispatcher 1
OpAppend(e) == /\ En("al") /\ nn < MaxNodes /\ lst' = [lst EXCEPT ![e] = Append(@, nn + 1)] /\ kind' = Append(kind, [k |-> "plain", left |-> 0])
               /\ UNCHANGED <<rem, frames, pending, ndisp, nenq, added, bad>> /\ H("al", e, 0)
OpRemove(e, h) == /\ En("rl") /\ h \in 1..nn /\ (\A k \in Keys : k # e => ~InSeq(lst[k], h))
                  /\ lst' = [lst EXCEPT ![e] = Without(@, h)]
                  /\ UNCHANGED <<kind, rem, frames, pending, ndisp, nenq, added, bad>> /\ H("rl", e, h)
\* CounterRemover(count c) / ConditionalRemover
OpAppendCtr(e, c) == /\ En("ac") /\ nn < MaxNodes /\ lst' = [lst EXCEPT ![e] = Append(@, nn + 1)]
                     /\ kind' = Append(kind, [k |-> "ctr", left |-> IF c < 1 THEN 1 ELSE c])
                     /\ UNCHANGED <<rem, frames, pending, ndisp, nenq, added, bad>> /\ H("ac", e, c)
OpAppendCond(e) == /\ En("ak") /\ nn < MaxNodes /\ lst' = [lst EXCEPT ![e] = Append(@, nn + 1)] /\ kind' = Append(kind, [k |-> "cond", left |-> 0])
                   /\ UNCHANGED <<rem, frames, pending, ndisp, nenq, added, bad>> /\ H("ak", e, 0)

\* the other two ways of registering through the helpers: at the front, and before an existing listener h of the same event (h = 0, or a
\* handle that is no longer attached: appended).  Script item: pc [e, c], ic [e + 10h, c], qk [e, 0], ik [e, h]
Before(s, h, n) == IF InSeq(s, h) THEN LET p == CHOOSE i \in 1..Len(s) : s[i] = h IN SubSeq(s, 1, p - 1) \o <<n>> \o SubSeq(s, p, Len(s)) ELSE Append(s, n)
UsableH(e, h) == h = 0 \/ (h \in 1..nn /\ \A k \in Keys : k # e => ~InSeq(lst[k], h))
OpPrependCtr(e, c) == /\ En("pc") /\ nn < MaxNodes /\ lst' = [lst EXCEPT ![e] = <<nn + 1>> \o @]
                      /\ kind' = Append(kind, [k |-> "ctr", left |-> IF c < 1 THEN 1 ELSE c])
                      /\ UNCHANGED <<rem, frames, pending, ndisp, nenq, added, bad>> /\ H("pc", e, c)
OpInsertCtr(e, h, c) == /\ En("ic") /\ nn < MaxNodes /\ UsableH(e, h) /\ lst' = [lst EXCEPT ![e] = Before(@, h, nn + 1)]
                        /\ kind' = Append(kind, [k |-> "ctr", left |-> IF c < 1 THEN 1 ELSE c])
                        /\ UNCHANGED <<rem, frames, pending, ndisp, nenq, added, bad>> /\ H("ic", e + 10 * h, c)
OpPrependCond(e) == /\ En("qk") /\ nn < MaxNodes /\ lst' = [lst EXCEPT ![e] = <<nn + 1>> \o @] /\ kind' = Append(kind, [k |-> "cond", left |-> 0])
                    /\ UNCHANGED <<rem, frames, pending, ndisp, nenq, added, bad>> /\ H("qk", e, 0)
OpInsertCond(e, h) == /\ En("ik") /\ nn < MaxNodes /\ UsableH(e, h) /\ lst' = [lst EXCEPT ![e] = Before(@, h, nn + 1)]
                      /\ kind' = Append(kind, [k |-> "cond", left |-> 0])
                      /\ UNCHANGED <<rem, frames, pending, ndisp, nenq, added, bad>> /\ H("ik", e, h)

\* ---- ScopedRemover
Alive(r) == rem[r].alive
OpSAdd(r, e, front) == /\ En(IF front THEN "sp" ELSE "sa") /\ Alive(r) /\ nn < MaxNodes
                       /\ LET k == KeyOf(rem[r].tgt, e) IN lst' = [lst EXCEPT ![k] = IF front THEN <<nn + 1>> \o @ ELSE Append(@, nn + 1)]
                       /\ kind' = Append(kind, [k |-> "plain", left |-> 0]) /\ rem' = [rem EXCEPT ![r].resp = @ \cup {nn + 1}]
                       /\ added' = added \cup {nn + 1}
                       /\ UNCHANGED <<frames, pending, ndisp, nenq, bad>> /\ H(IF front THEN "sp" ELSE "sa", r, e)
\* remover.removeListener(event of h, h): true iff h is one of mine (then detached at once)
OpSRemove(r, h) == /\ En("sr") /\ Alive(r) /\ h \in 1..nn
                   /\ IF h \in rem[r].resp THEN lst' = Strip(lst, {h}) /\ rem' = [rem EXCEPT ![r].resp = @ \ {h}] ELSE UNCHANGED <<lst, rem>>
                   /\ UNCHANGED <<kind, frames, pending, ndisp, nenq, added, bad>> /\ H("sr", r, h)
Release(l, r) == Strip(l, rem[r].resp)
OpSReset(r) == /\ En("sx") /\ Alive(r) /\ lst' = Release(lst, r) /\ rem' = [rem EXCEPT ![r].resp = {}]
               /\ UNCHANGED <<kind, frames, pending, ndisp, nenq, added, bad>> /\ H("sx", r, 0)
OpSTarget(r, d) == /\ En("st") /\ Alive(r)
                   /\ IF rem[r].tgt = d THEN UNCHANGED <<lst, rem>> ELSE lst' = Release(lst, r) /\ rem' = [rem EXCEPT ![r].resp = {}, ![r].tgt = d]
                   /\ UNCHANGED <<kind, frames, pending, ndisp, nenq, added, bad>> /\ H("st", r, d)
OpSMoveConstruct(s, t) == /\ En("sc") /\ Alive(s) /\ ~Alive(t)
                          /\ rem' = [rem EXCEPT ![t] = [alive |-> TRUE, tgt |-> rem[s].tgt, resp |-> rem[s].resp], ![s].resp = {}]
                          /\ UNCHANGED <<lst, kind, frames, pending, ndisp, nenq, added, bad>> /\ H("sc", s, t)
\* move assignment: what the destination held is detached (the D6 repair); with the defect it is orphaned
\* (a remover move-assigned from itself, or swapped with itself, keeps what it answers for - seed S86)
OpSMoveAssign(s, t) == /\ En("sm") /\ Alive(s) /\ Alive(t)
                       /\ lst' = IF Fixed("orphan") /\ s # t THEN Release(lst, t) ELSE lst
                       /\ rem' = IF s = t THEN rem ELSE [rem EXCEPT ![t].resp = rem[s].resp, ![t].tgt = rem[s].tgt, ![s].resp = {}]
                       /\ UNCHANGED <<kind, frames, pending, ndisp, nenq, added, bad>> /\ H("sm", s, t)
OpSSwap(s, t) == /\ En("ss") /\ Alive(s) /\ Alive(t) /\ s <= t
                 /\ rem' = [rem EXCEPT ![t] = rem[s], ![s] = rem[t]]
                 /\ UNCHANGED <<lst, kind, frames, pending, ndisp, nenq, added, bad>> /\ H("ss", s, t)
OpSDestroy(r) == /\ En("sd") /\ Alive(r) /\ lst' = Release(lst, r) /\ rem' = [rem EXCEPT ![r] = [alive |-> FALSE, tgt |-> 1, resp |-> {}]]
                 /\ UNCHANGED <<kind, frames, pending, ndisp, nenq, added, bad>> /\ H("sd", r, 0)
OpSCreate(r, d) == /\ En("sn") /\ ~Alive(r) /\ rem' = [rem EXCEPT ![r] = [alive |-> TRUE, tgt |-> d, resp |-> {}]]
                   /\ UNCHANGED <<lst, kind, frames, pending, ndisp, nenq, added, bad>> /\ H("sn", r, d)

\* ---- triggers: direct dispatch, or enqueue + process (the frame semantics are those of TraceDQ / DQImpl)
OpDispatch(e) == /\ En("dp") /\ ndisp < MaxDisp /\ Len(frames) < MaxDepth
                 /\ frames' = Append(frames, [e |-> e, todo |-> lst[e], cur |-> 0, ph |-> "l", q |-> FALSE]) /\ ndisp' = ndisp + 1
                 /\ UNCHANGED <<lst, kind, rem, pending, nenq, added, bad>> /\ H("dp", e, Len(hist) % 3)
OpEnqueue(e) == /\ En("nq") /\ nenq < MaxEnq /\ pending' = Append(pending, e) /\ nenq' = nenq + 1
                /\ UNCHANGED <<lst, kind, rem, frames, ndisp, added, bad>> /\ H("nq", e, Len(hist) % 3)
OpProcessOne == /\ En("po") /\ Len(frames) < MaxDepth
                /\ IF pending = <<>> THEN UNCHANGED <<frames, pending>>
                   ELSE /\ frames' = Append(frames, [e |-> Head(pending), todo |-> lst[Head(pending)], cur |-> 0, ph |-> "l", q |-> TRUE])
                        /\ pending' = Tail(pending)
                /\ UNCHANGED <<lst, kind, rem, ndisp, nenq, added, bad>> /\ H("po", 0, 0)

Live(e, s) == SelectSeq(s, LAMBDA x : InSeq(lst[e], x))
\* the library enters the next listener; counter listeners count down and detach themselves BEFORE the wrapped listener runs,
\* conditional ones first run their condition (user code)
Tau == /\ ~InUser /\ hist' = hist
       /\ LET f == Top  t == Live(f.e, f.todo) IN
          IF t = <<>> THEN frames' = SubSeq(frames, 1, Len(frames) - 1) /\ UNCHANGED <<lst, kind>>
          ELSE LET n == Head(t) IN
               CASE kind[n].k = "ctr" ->
                      /\ kind' = [kind EXCEPT ![n].left = @ - 1]
                      /\ lst' = IF kind[n].left - 1 <= 0 THEN Strip(lst, {n}) ELSE lst
                      /\ frames' = [frames EXCEPT ![Len(frames)] = [f EXCEPT !.todo = Tail(t), !.cur = n, !.ph = "l"]]
                 [] kind[n].k = "cond" ->
                      /\ frames' = [frames EXCEPT ![Len(frames)] = [f EXCEPT !.todo = Tail(t), !.cur = n, !.ph = "c"]] /\ UNCHANGED <<lst, kind>>
                 [] OTHER ->
                      /\ frames' = [frames EXCEPT ![Len(frames)] = [f EXCEPT !.todo = Tail(t), !.cur = n, !.ph = "l"]] /\ UNCHANGED <<lst, kind>>
       /\ UNCHANGED <<rem, pending, ndisp, nenq, added, bad>>
RetListener == /\ frames # <<>> /\ Top.cur # 0 /\ Top.ph = "l"
               /\ frames' = [frames EXCEPT ![Len(frames)].cur = 0]
               /\ UNCHANGED <<lst, kind, rem, pending, ndisp, nenq, added, bad>> /\ H("t", 0, 0)
\* the condition returns v: true = detach now; the wrapped listener runs in both cases
RetCond(v) == /\ frames # <<>> /\ Top.cur # 0 /\ Top.ph = "c"
              /\ lst' = IF v = 1 THEN Strip(lst, {Top.cur}) ELSE lst
              /\ frames' = [frames EXCEPT ![Len(frames)].ph = "l"]
              /\ UNCHANGED <<kind, rem, pending, ndisp, nenq, added, bad>> /\ H("ct", v, 0)

Next == \/ \E e \in EvKeys : \/ OpAppend(e) \/ OpAppendCond(e) \/ OpDispatch(e) \/ OpEnqueue(e)
                           \/ \E h \in 1..MaxNodes : OpRemove(e, h)
                           \/ (\E c0 \in Counts : LET c == RealCount(c0) IN OpAppendCtr(e, c) \/ OpPrependCtr(e, c) \/ (\E b \in 0..MaxNodes : OpInsertCtr(e, b, c)))
                           \/ OpPrependCond(e) \/ (\E b2 \in 0..MaxNodes : OpInsertCond(e, b2))
        \/ \E r \in Rs : \/ OpSReset(r) \/ OpSDestroy(r)
                         \/ \E e \in EvKeys : OpSAdd(r, e, FALSE) \/ OpSAdd(r, e, TRUE)
                         \/ \E h \in 1..MaxNodes : OpSRemove(r, h)
                         \/ \E d \in 1..2 : OpSTarget(r, d) \/ OpSCreate(r, d)
                         \/ \E t \in Rs : OpSMoveConstruct(r, t) \/ OpSMoveAssign(r, t) \/ OpSSwap(r, t)
        \/ OpProcessOne \/ RetListener \/ \E v \in 0..1 : RetCond(v) \/ Tau

Emit == IF hist' # hist THEN PrintT(ToJson(hist')) ELSE TRUE

\* ---- what the statements demand, as invariants of the reference model
\* C15: a listener added through a remover and still attached has a live responsible remover
Responsible == \A n \in added : Attached(n) => \E r \in Rs : rem[r].alive /\ n \in rem[r].resp
\* nobody is responsible twice; dead removers are responsible for nothing
Exclusive == /\ \A r, s \in Rs : r # s => rem[r].resp \cap rem[s].resp = {}
             /\ \A r \in Rs : ~rem[r].alive => rem[r].resp = {}
\* a remover only ever holds listeners that were added through a remover; listeners of its resp live on its target
OnTarget == \A r \in Rs : \A n \in rem[r].resp : \A k \in Keys : InSeq(lst[k], n) => (k \in {KeyOf(rem[r].tgt, 1), KeyOf(rem[r].tgt, 2)})
\* C16: a counter listener that is still attached has triggers left
CtrLeft == \A n \in 1..nn : (kind[n].k = "ctr" /\ Attached(n)) => kind[n].left >= 1
Ok == bad = "ok"
=============================================================================
