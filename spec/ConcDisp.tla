------------------------------ MODULE ConcDisp ------------------------------
(***************************************************************************)
(* Threads x micro-steps model of EventDispatcher's event -> CallbackList   *)
(* map (eventdispatcher.h): appendListener holds listenerMutex across       *)
(* find-or-create AND the append; removeListener / hasAnyListener /         *)
(* dispatch look the list up under listenerMutex (doFindCallableList),      *)
(* release it and work on the list through the pointer they got - which is *)
(* sound because map entries are never erased and node addresses are        *)
(* stable.  The lists themselves are the objects verified by ConcCL.tla:    *)
(* one list operation is one step here, except the traversal of a dispatch, *)
(* which visits one listener per step so that other threads run between.    *)
(* An insertion into the map is two steps (the tree / bucket array is       *)
(* inconsistent in between), which nobody can observe while the mutex is    *)
(* held.                                                                    *)
(* Ghost: abstract listener sequence per event, updated when an append /    *)
(* remove takes effect; listeners present for the whole dispatch must be    *)
(* visited; touching a destroyed list or reading the map during an          *)
(* insertion is recorded.                                                   *)
(* Defects: "erase_empty" = removeListener erases the map entry (and        *)
(* destroys the list) when the last listener went (seed S61);               *)
(* "lookup_unlocked" = the lookup takes and releases the mutex before it    *)
(* reads the map (seed S69).                                                *)
(***************************************************************************)
EXTENDS Naturals, Sequences, FiniteSets, TLC
CONSTANTS Threads, Scenarios, Defects, Keys
Fixed(d) == d \notin Defects
MaxLists == 6
VARIABLES entry,      \* key -> list id (0 = no entry)
          lists,      \* list id -> Seq of listener ids
          dead,       \* destroyed list ids
          nlists, mapBusy, mtx,
          prog, ip, pc, ptr, todo,      \* ptr[t] = list pointer the thread holds; todo[t] = what its traversal still has to visit
          abs, must, seen, bad
vars == <<entry, lists, dead, nlists, mapBusy, mtx, prog, ip, pc, ptr, todo, abs, must, seen, bad>>
Init == /\ entry = [k \in Keys |-> 0] /\ lists = [i \in 1..MaxLists |-> <<>>] /\ dead = {} /\ nlists = 0 /\ mapBusy = FALSE /\ mtx = 0
        /\ prog \in Scenarios /\ ip = [t \in Threads |-> 1] /\ pc = [t \in Threads |-> "idle"]
        /\ ptr = [t \in Threads |-> 0] /\ todo = [t \in Threads |-> <<>>]
        /\ abs = [k \in Keys |-> <<>>] /\ must = [t \in Threads |-> {}] /\ seen = [t \in Threads |-> {}] /\ bad = "ok"
Op(t) == prog[t][ip[t]]
HasOp(t) == ip[t] <= Len(prog[t])
Goto(t, l) == pc' = [pc EXCEPT ![t] = l]
Done(t) == pc' = [pc EXCEPT ![t] = "idle"] /\ ip' = [ip EXCEPT ![t] = @ + 1]
Range(s) == {s[i] : i \in 1..Len(s)}
InSeq(s, x) == x \in Range(s)
Flag(cond, what) == bad' = IF cond /\ bad = "ok" THEN what ELSE bad
Shared == <<entry, lists, dead, nlists, mapBusy, mtx>>
Ghost == <<abs, must, seen, bad>>

Start(t) == /\ pc[t] = "idle" /\ HasOp(t)
            /\ Goto(t, IF Op(t).k = "append" THEN "a_lock" ELSE "f_lock")
            /\ must' = [must EXCEPT ![t] = IF Op(t).k = "dispatch" THEN Range(abs[Op(t).e]) ELSE {}] /\ seen' = [seen EXCEPT ![t] = {}]
            /\ UNCHANGED Shared /\ UNCHANGED <<prog, ip, ptr, todo, abs, bad>>
\* ---- appendListener(e, c): lock; map[e] (find or create: two steps); append; unlock
ALock(t) == pc[t] = "a_lock" /\ mtx = 0 /\ mtx' = t /\ Goto(t, "a_find") /\ UNCHANGED <<entry, lists, dead, nlists, mapBusy, prog, ip, ptr, todo>> /\ UNCHANGED Ghost
AFind(t) == /\ pc[t] = "a_find"
            /\ IF entry[Op(t).e] # 0 THEN Goto(t, "a_app") /\ UNCHANGED mapBusy ELSE Goto(t, "a_ins") /\ mapBusy' = TRUE
            /\ UNCHANGED <<entry, lists, dead, nlists, mtx, prog, ip, ptr, todo>> /\ UNCHANGED Ghost
AIns(t) == /\ pc[t] = "a_ins" /\ nlists < MaxLists /\ nlists' = nlists + 1 /\ entry' = [entry EXCEPT ![Op(t).e] = nlists + 1] /\ mapBusy' = FALSE
           /\ Goto(t, "a_app") /\ UNCHANGED <<lists, dead, mtx, prog, ip, ptr, todo>> /\ UNCHANGED Ghost
AApp(t) == /\ pc[t] = "a_app" /\ mtx = t /\ mtx' = 0
           /\ LET l == entry[Op(t).e] IN
              /\ Flag(l \in dead, "append-to-destroyed-list")
              /\ lists' = [lists EXCEPT ![l] = Append(@, Op(t).c)]
           /\ abs' = [abs EXCEPT ![Op(t).e] = Append(@, Op(t).c)]
           /\ Done(t) /\ UNCHANGED <<entry, dead, nlists, mapBusy, prog, ptr, todo, must, seen>>
\* ---- doFindCallableList: lock; find; unlock; the caller keeps the pointer
FLock(t) == /\ pc[t] = "f_lock" /\ mtx = 0
            /\ IF Fixed("lookup_unlocked") THEN mtx' = t ELSE UNCHANGED mtx          \* (defect: locked and released at once by a temporary)
            /\ Goto(t, "f_find") /\ UNCHANGED <<entry, lists, dead, nlists, mapBusy, prog, ip, ptr, todo>> /\ UNCHANGED Ghost
FFind(t) == /\ pc[t] = "f_find" /\ (Fixed("lookup_unlocked") => mtx = t)
            /\ Flag(mapBusy, "map-read-during-insertion")
            /\ ptr' = [ptr EXCEPT ![t] = entry[Op(t).e]]
            /\ mtx' = IF mtx = t THEN 0 ELSE mtx
            /\ Goto(t, "act") /\ UNCHANGED <<entry, lists, dead, nlists, mapBusy, prog, ip, todo, abs, must, seen>>
\* ---- what the caller does with the list it found
Act(t) ==
  /\ pc[t] = "act"
  /\ LET l == ptr[t]  e == Op(t).e IN
     CASE Op(t).k = "remove" ->
            LET did == l # 0 /\ l \notin dead /\ InSeq(lists[l], Op(t).c)
                emptied == did /\ Len(lists[l]) = 1 IN
            /\ Flag((l \in dead) \/ (did # InSeq(abs[e], Op(t).c)), IF l \in dead THEN "use-of-destroyed-list" ELSE "remove-result")
            /\ lists' = IF did THEN [lists EXCEPT ![l] = SelectSeq(@, LAMBDA x : x # Op(t).c)] ELSE lists
            /\ abs' = [abs EXCEPT ![e] = SelectSeq(@, LAMBDA x : x # Op(t).c)]
            /\ must' = [u \in Threads |-> must[u] \ {Op(t).c}]
            \* (defect: the emptied list is erased from the map and destroyed - atomically here, which is the kindest reading)
            /\ IF ~Fixed("erase_empty") /\ emptied THEN entry' = [entry EXCEPT ![e] = 0] /\ dead' = dead \cup {l} ELSE UNCHANGED <<entry, dead>>
            /\ Done(t) /\ UNCHANGED <<nlists, mapBusy, mtx, prog, ptr, todo, seen>>
       [] Op(t).k = "hasAny" ->
            /\ Flag(l \in dead, "use-of-destroyed-list")
            /\ Done(t) /\ UNCHANGED <<entry, lists, dead, nlists, mapBusy, mtx, prog, ptr, todo, abs, must, seen>>
       [] Op(t).k = "dispatch" ->
            /\ Flag(l \in dead, "use-of-destroyed-list")
            /\ todo' = [todo EXCEPT ![t] = IF l = 0 \/ l \in dead THEN <<>> ELSE lists[l]]
            /\ Goto(t, "visit") /\ UNCHANGED <<entry, lists, dead, nlists, mapBusy, mtx, prog, ip, ptr, abs, must, seen>>
\* one listener per step; every step back into the list (its mutex, node->next) touches the list object
Visit(t) ==
  /\ pc[t] = "visit"
  /\ IF todo[t] = <<>>
     THEN /\ Flag(~(must[t] \subseteq seen[t]), "dispatch-missed-a-listener") /\ Done(t) /\ UNCHANGED <<todo, seen>>
     ELSE /\ Flag(ptr[t] \in dead, "use-of-destroyed-list")
          /\ seen' = [seen EXCEPT ![t] = IF ptr[t] \notin dead /\ InSeq(lists[ptr[t]], Head(todo[t])) THEN @ \cup {Head(todo[t])} ELSE @]
          /\ todo' = [todo EXCEPT ![t] = Tail(@)] /\ UNCHANGED <<pc, ip>>
  /\ UNCHANGED Shared /\ UNCHANGED <<prog, ptr, abs, must>>
Step(t) == Start(t) \/ ALock(t) \/ AFind(t) \/ AIns(t) \/ AApp(t) \/ FLock(t) \/ FFind(t) \/ Act(t) \/ Visit(t)
Next == (\E t \in Threads : Step(t)) /\ UNCHANGED prog
Linearizable == bad = "ok"
AllDone == \A t \in Threads : pc[t] = "idle" /\ ~HasOp(t)
NothingLost == AllDone => \A k \in Keys : (IF entry[k] = 0 THEN <<>> ELSE lists[entry[k]]) = abs[k]
EntriesStay == \A k \in Keys : entry[k] # 0 => entry[k] \notin dead
NoDeadlock == AllDone \/ ENABLED Next
=============================================================================
