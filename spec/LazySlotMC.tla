---- MODULE LazySlotMC ----
EXTENDS LazySlot
A(p, c) == [k |-> "append", p |-> p, c |-> c]
R(p, c) == [k |-> "remove", p |-> p, c |-> c]
V(p) == [k |-> "invoke", p |-> p, c |-> 0]
\* thread t adds callbacks 10*t+1.. to prototype 1 or 2, invokes, removes its own
Progs(t) == {<<A(1, 10 * t + 1)>>, <<A(1, 10 * t + 1), V(1)>>, <<A(2, 10 * t + 1), A(1, 10 * t + 2)>>, <<V(1), A(1, 10 * t + 1)>>,
             <<A(1, 10 * t + 1), R(1, 10 * t + 1)>>, <<V(2), V(1)>>, <<A(1, 10 * t + 1), A(2, 10 * t + 2), V(2)>>}
Scen == {f \in [Threads -> UNION {Progs(t) : t \in Threads}] : \A t \in Threads : f[t] \in Progs(t)}
====
