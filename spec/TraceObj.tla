------------------------------- MODULE TraceObj -------------------------------
(***************************************************************************)
(* Abstract oracle for C10 (and the whole-object part of C08): several     *)
(* dispatcher / queue objects; copies are independent and hold the same    *)
(* listeners and filters in the same order and no pending events; moves    *)
(* transfer and leave the source valid (nothing, or what the destination   *)
(* held); swap exchanges the listeners (filters: exchanged or not);        *)
(* self-assignment and self-swap change nothing; every object obtained     *)
(* behaves like a freshly built one: reports empty until something is      *)
(* enqueued into it, waitFor succeeds exactly when an event is pending,    *)
(* processing dispatches what was enqueued into THIS object.               *)
(* Executions recorded by harness/obj_interp.cpp (callbacks change         *)
(* nothing here; re-entrancy of the lists is C02's and C19's business).    *)
(* HETER (environment) = "1": two prototypes on one event key instead of   *)
(* two event keys; a filter is then bound to the first prototype only.     *)
(***************************************************************************)
EXTENDS Naturals, Sequences, FiniteSets, TLC, Json, IOUtils

TraceLog == ndJsonDeserialize(IOEnv.TRACE)
Heter == IF "HETER" \in DOMAIN IOEnv THEN IOEnv.HETER = "1" ELSE FALSE
Objs == 1..3
Ch == 1..2
VARIABLES obj,     \* [Objs -> [alive, lst: [Ch -> Seq(cb)], flt: Seq(filter), pend: Seq(channel)]]
          exp,     \* what the running dispatch / processing call still has to invoke: Seq of <<"f"|"l", id, object, channel>>
          running, \* 0, or the object whose dispatch / process is in progress
          ncb, nflt, l,
          hv       \* callback id -> the object on which the handle kept from its addition still has a promised meaning (0: none), as in ObjGen
vars == <<obj, exp, running, ncb, nflt, l, hv>>

Dead == [alive |-> FALSE, lst |-> [c \in Ch |-> <<>>], flt |-> <<>>, pend |-> <<>>]
Init == /\ obj = [o \in Objs |-> IF o = 1 THEN [Dead EXCEPT !.alive = TRUE] ELSE Dead] /\ exp = <<>> /\ running = 0 /\ ncb = 0 /\ nflt = 0 /\ l = 1 /\ hv = <<>>
E == TraceLog[l]
Is(e) == l <= Len(TraceLog) /\ E.e = e /\ l' = l + 1
Alive(o) == o \in Objs /\ obj[o].alive
Idle == running = 0 /\ exp = <<>>
Count(ob) == LET RECURSIVE S(_)
                 S(o) == IF o = 0 THEN 0 ELSE (IF ob[o].alive THEN Len(ob[o].lst[1]) + Len(ob[o].lst[2]) + Len(ob[o].flt) ELSE 0) + S(o - 1)
             IN S(3)
Pend(ob) == LET RECURSIVE S(_)
                S(o) == IF o = 0 THEN 0 ELSE (IF ob[o].alive THEN Len(ob[o].pend) ELSE 0) + S(o - 1)
            IN S(3)
Ledger == E.lv = Count(obj') /\ E.pv = Pend(obj')
\* the invocations one dispatch of channel c on object o owes: its filters (if they apply), then its listeners
FilterApplies(c) == IF Heter THEN c = 1 ELSE TRUE
Owes(o, c) == (IF FilterApplies(c) THEN [i \in 1..Len(obj[o].flt) |-> <<"f", obj[o].flt[i], o, c>>] ELSE <<>>)
              \o [i \in 1..Len(obj[o].lst[c]) |-> <<"l", obj[o].lst[c][i], o, c>>]
RECURSIVE OwesAll(_,_)
OwesAll(o, chans) == IF chans = <<>> THEN <<>> ELSE Owes(o, Head(chans)) \o OwesAll(o, Tail(chans))

EvAppend == /\ Is("al") /\ Idle /\ Alive(E.o) /\ E.r = ncb + 1 /\ obj' = [obj EXCEPT ![E.o].lst[E.a] = Append(@, ncb + 1)] /\ ncb' = ncb + 1
            /\ UNCHANGED <<exp, running, nflt>> /\ Ledger
EvRemoveFirst == /\ Is("rl") /\ Idle /\ Alive(E.o) /\ E.r = (IF obj[E.o].lst[E.a] # <<>> THEN 1 ELSE 0)
                 /\ obj' = [obj EXCEPT ![E.o].lst[E.a] = IF @ = <<>> THEN @ ELSE Tail(@)]
                 /\ UNCHANGED <<exp, running, ncb, nflt>> /\ Ledger
EvAppendFilter == /\ Is("af") /\ Idle /\ Alive(E.o) /\ E.r = nflt + 1 /\ obj' = [obj EXCEPT ![E.o].flt = Append(@, nflt + 1)] /\ nflt' = nflt + 1
                  /\ UNCHANGED <<exp, running, ncb>> /\ Ledger
EvDispatchBegin == /\ Is("db") /\ Idle /\ Alive(E.o) /\ exp' = Owes(E.o, E.a) /\ running' = E.o /\ UNCHANGED <<obj, ncb, nflt>>
EvFilter == /\ Is("fi") /\ exp # <<>> /\ Head(exp) = <<"f", E.a, E.o, E.b>> /\ exp' = Tail(exp) /\ UNCHANGED <<obj, running, ncb, nflt>>
EvEnter == /\ Is("en") /\ exp # <<>> /\ Head(exp) = <<"l", E.a, E.o, E.b>> /\ exp' = Tail(exp) /\ UNCHANGED <<obj, running, ncb, nflt>>
EvDispatchEnd == /\ Is("de") /\ running = E.o /\ exp = <<>> /\ running' = 0 /\ UNCHANGED <<obj, exp, ncb, nflt>> /\ Ledger
EvEnqueue == /\ Is("nq") /\ Idle /\ Alive(E.o) /\ obj' = [obj EXCEPT ![E.o].pend = Append(@, E.a)] /\ UNCHANGED <<exp, running, ncb, nflt>> /\ Ledger
EvProcessBegin == /\ Is("pb") /\ Idle /\ Alive(E.o) /\ exp' = OwesAll(E.o, obj[E.o].pend) /\ running' = E.o /\ UNCHANGED <<obj, ncb, nflt>>
EvProcessEnd == /\ Is("pe") /\ running = E.o /\ exp = <<>> /\ E.r = (IF obj[E.o].pend # <<>> THEN 1 ELSE 0)
                /\ obj' = [obj EXCEPT ![E.o].pend = <<>>] /\ running' = 0 /\ UNCHANGED <<exp, ncb, nflt>> /\ Ledger
EvEmptyQ == /\ Is("eq") /\ Idle /\ Alive(E.o) /\ E.r = (IF obj[E.o].pend = <<>> THEN 1 ELSE 0) /\ UNCHANGED <<obj, exp, running, ncb, nflt>>
EvWaitFor == /\ Is("wf") /\ Idle /\ Alive(E.o) /\ E.r = (IF obj[E.o].pend # <<>> THEN 1 ELSE 0) /\ UNCHANGED <<obj, exp, running, ncb, nflt>>

\* ---- whole-object operations
Copy(s) == [alive |-> TRUE, lst |-> obj[s].lst, flt |-> obj[s].flt, pend |-> <<>>]
EvCopyConstruct == /\ Is("cc") /\ Idle /\ Alive(E.o) /\ E.a \in Objs /\ ~Alive(E.a) /\ obj' = [obj EXCEPT ![E.a] = Copy(E.o)]
                   /\ UNCHANGED <<exp, running, ncb, nflt>> /\ Ledger
EvCopyAssign == /\ Is("ca") /\ Idle /\ Alive(E.o) /\ Alive(E.a)
                /\ obj' = IF E.o = E.a THEN obj ELSE [obj EXCEPT ![E.a].lst = obj[E.o].lst, ![E.a].flt = obj[E.o].flt]
                /\ UNCHANGED <<exp, running, ncb, nflt>> /\ Ledger
\* the moved-from source is valid: it holds nothing, or what the destination held before
EvMoveConstruct == /\ Is("mc") /\ Idle /\ Alive(E.o) /\ E.a \in Objs /\ ~Alive(E.a)
                   /\ obj' = [obj EXCEPT ![E.a] = Copy(E.o), ![E.o].lst = [c \in Ch |-> <<>>], ![E.o].flt = <<>>]
                   /\ UNCHANGED <<exp, running, ncb, nflt>> /\ Ledger
EvMoveAssign == /\ Is("ma") /\ Idle /\ Alive(E.o) /\ Alive(E.a) /\ E.o # E.a
                /\ \/ obj' = [obj EXCEPT ![E.a].lst = obj[E.o].lst, ![E.a].flt = obj[E.o].flt, ![E.o].lst = [c \in Ch |-> <<>>], ![E.o].flt = <<>>]
                   \/ obj' = [obj EXCEPT ![E.a].lst = obj[E.o].lst, ![E.a].flt = obj[E.o].flt, ![E.o].lst = obj[E.a].lst, ![E.o].flt = obj[E.a].flt]
                /\ UNCHANGED <<exp, running, ncb, nflt>> /\ Ledger
\* swap exchanges the listeners; the filters are exchanged or not
EvSwap == /\ Is("sw") /\ Idle /\ Alive(E.o) /\ Alive(E.a)
          /\ \/ obj' = [obj EXCEPT ![E.a].lst = obj[E.o].lst, ![E.o].lst = obj[E.a].lst]
             \/ obj' = [obj EXCEPT ![E.a].lst = obj[E.o].lst, ![E.o].lst = obj[E.a].lst, ![E.a].flt = obj[E.o].flt, ![E.o].flt = obj[E.a].flt]
          /\ UNCHANGED <<exp, running, ncb, nflt>> /\ Ledger
\* C09: an operation failed with an injected fault and left everything as it was; a failed copy ASSIGNMENT of a dispatcher / queue
\* leaves the destination in some valid state (not constrained here: the harness only destroys it), the source untouched
EvFaulted == Is("xf") /\ Idle /\ UNCHANGED <<obj, exp, running, ncb, nflt>> /\ Ledger
EvAssignFaulted == /\ Is("xa") /\ Idle /\ Alive(E.o) /\ Alive(E.a) /\ UNCHANGED <<obj, exp, running, ncb, nflt>>
                   /\ E.pv = Pend(obj)
EvDestroy == /\ Is("de2") /\ Idle /\ Alive(E.o) /\ obj' = [obj EXCEPT ![E.o] = Dead] /\ UNCHANGED <<exp, running, ncb, nflt>> /\ Ledger
EvReset == /\ Is("rs") /\ Idle /\ \A o \in Objs : ~obj[o].alive /\ E.lv = 0 /\ E.pv = 0
           /\ obj' = [o \in Objs |-> IF o = 1 THEN [Dead EXCEPT !.alive = TRUE] ELSE Dead] /\ exp' = <<>> /\ running' = 0 /\ ncb' = 0 /\ nflt' = 0

\* removal through the handle kept from the addition of callback E.a to object E.o: the handle still means that listener of that object unless the
\* object was the destination of an assignment from another object, moved from / to, swapped with another object or destroyed since (C10: self
\* assignment and self swap change nothing; copies are independent): true exactly when the listener is still there, and it is gone afterwards
WithoutId(q, x) == SelectSeq(q, LAMBDA y : y # x)
EvRemoveStored == /\ Is("rh") /\ Idle /\ Alive(E.o) /\ E.a \in 1..Len(hv) /\ hv[E.a] = E.o
                  /\ E.r = (IF \E c \in Ch : \E i \in 1..Len(obj[E.o].lst[c]) : obj[E.o].lst[c][i] = E.a THEN 1 ELSE 0)
                  /\ obj' = [obj EXCEPT ![E.o].lst = [c \in Ch |-> WithoutId(obj[E.o].lst[c], E.a)]]
                  /\ UNCHANGED <<exp, running, ncb, nflt>> /\ Ledger
Retire(S) == [i \in 1..Len(hv) |-> IF hv[i] \in S THEN 0 ELSE hv[i]]
HvStep == hv' = CASE E.e = "al" -> Append(hv, E.o)
                  [] E.e = "ca" /\ E.o # E.a -> Retire({E.a})
                  [] E.e = "xa" -> Retire({E.a})
                  [] E.e = "mc" -> Retire({E.o})
                  [] E.e = "ma" -> Retire({E.o, E.a})
                  [] E.e = "sw" /\ E.o # E.a -> Retire({E.o, E.a})
                  [] E.e = "de2" -> Retire({E.o})
                  [] E.e = "rs" -> <<>>
                  [] OTHER -> hv
Next0 == \/ EvAppend \/ EvRemoveFirst \/ EvAppendFilter \/ EvDispatchBegin \/ EvFilter \/ EvEnter \/ EvDispatchEnd
        \/ EvEnqueue \/ EvProcessBegin \/ EvProcessEnd \/ EvEmptyQ \/ EvWaitFor
        \/ EvFaulted \/ EvAssignFaulted
        \/ EvCopyConstruct \/ EvCopyAssign \/ EvMoveConstruct \/ EvMoveAssign \/ EvSwap \/ EvDestroy \/ EvReset \/ EvRemoveStored
Next == Next0 /\ HvStep
Report == IF TLCGet("stats").diameter - 1 = Len(TraceLog) THEN TRUE
          ELSE PrintT(<<"REJECTED", TLCGet("stats").diameter, Len(TraceLog)>>) /\ FALSE
=============================================================================
