------------------------------ MODULE SpinLock ------------------------------
(***************************************************************************)
(* eventpp::SpinLock (eventpolicies.h) at the level of its atomic          *)
(* operations: lock() = while(flag.test_and_set(acquire)) {} ;             *)
(* unlock() = flag.clear(release).  Threads run Rounds lock/unlock rounds. *)
(* The property is the abstraction every other model uses for a policy     *)
(* mutex (`mtx`): at most one thread is inside, and `holder` - the ghost   *)
(* variable updated where TraceLock.tla's acq / rel records are written -  *)
(* behaves like that variable.                                             *)
(* Defect "cas_stale" = a test-and-test-and-set rewrite whose CAS keeps    *)
(* its `expected` variable across iterations (a failed CAS stores the      *)
(* observed `true` there, the retry then "succeeds" against a held lock).  *)
(***************************************************************************)
EXTENDS Naturals, FiniteSets, TLC
CONSTANTS Threads, Rounds, Defects
VARIABLES flag, pc, expected, left, holder
vars == <<flag, pc, expected, left, holder>>
Fixed(d) == d \notin Defects
Init == /\ flag = FALSE /\ pc = [t \in Threads |-> "idle"] /\ expected = [t \in Threads |-> FALSE]
        /\ left = [t \in Threads |-> Rounds] /\ holder = 0
Goto(t, l) == pc' = [pc EXCEPT ![t] = l]
Begin(t) == /\ pc[t] = "idle" /\ left[t] > 0 /\ Goto(t, "try") /\ expected' = [expected EXCEPT ![t] = FALSE] /\ UNCHANGED <<flag, left, holder>>
\* test_and_set: one atomic read-modify-write
TestAndSet(t) == /\ Fixed("cas_stale") /\ pc[t] = "try"
                 /\ IF flag THEN UNCHANGED <<flag, pc>> ELSE flag' = TRUE /\ Goto(t, "in")
                 /\ UNCHANGED <<expected, left, holder>>
\* the defective variant: compare_exchange(expected, true) with `expected` declared outside the loop, then spin on a plain load
Cas(t) == /\ ~Fixed("cas_stale") /\ pc[t] = "try"
          /\ IF flag = expected[t] THEN flag' = TRUE /\ Goto(t, "in") /\ UNCHANGED expected
             ELSE expected' = [expected EXCEPT ![t] = flag] /\ Goto(t, "spin") /\ UNCHANGED flag
          /\ UNCHANGED <<left, holder>>
Spin(t) == /\ pc[t] = "spin" /\ (IF flag THEN UNCHANGED pc ELSE Goto(t, "try")) /\ UNCHANGED <<flag, expected, left, holder>>
\* inside the critical section: where lock_stress.cpp writes "acq", later "rel"
Enter(t) == /\ pc[t] = "in" /\ Goto(t, "cs") /\ holder' = t /\ UNCHANGED <<flag, expected, left>>
Leave(t) == /\ pc[t] = "cs" /\ Goto(t, "unlock") /\ holder' = 0 /\ UNCHANGED <<flag, expected, left>>
Unlock(t) == /\ pc[t] = "unlock" /\ flag' = FALSE /\ Goto(t, "idle") /\ left' = [left EXCEPT ![t] = @ - 1] /\ UNCHANGED <<expected, holder>>
Next == \E t \in Threads : Begin(t) \/ TestAndSet(t) \/ Cas(t) \/ Spin(t) \/ Enter(t) \/ Leave(t) \/ Unlock(t)
Spec == Init /\ [][Next]_vars /\ \A t \in Threads : WF_vars(Unlock(t) \/ Leave(t) \/ Enter(t))

Inside == {t \in Threads : pc[t] \in {"in", "cs", "unlock"}}
MutualExclusion == Cardinality(Inside) <= 1
\* the ghost holder is written only by the thread that is inside: an acq is recorded only when the lock is free, a rel only by the holder
HolderIsMtx == /\ (holder # 0 => pc[holder] = "cs")
               /\ \A t \in Threads : pc[t] = "in" => holder = 0
FlagMeansHeld == Inside # {} => flag
\* nobody is stuck while the lock is free
NoDeadlock == (\A t \in Threads : pc[t] = "idle" /\ left[t] = 0) \/ ENABLED Next
=============================================================================
