---- MODULE CLImpl_TTrace_1790642491 ----
EXTENDS Sequences, TLCExt, Toolbox, Naturals, TLC, CLImpl

_expression ==
    LET CLImpl_TEExpression == INSTANCE CLImpl_TEExpression
    IN CLImpl_TEExpression!expression
----

_trace ==
    LET CLImpl_TETrace == INSTANCE CLImpl_TETrace
    IN CLImpl_TETrace!trace
----

_inv ==
    ~(
        TLCGet("level") = Len(_TETrace)
        /\
        cur = (<<2>>)
        /\
        bad = ("ok")
        /\
        alive = (<<TRUE>>)
        /\
        frames = (<<[l |-> 1, node |-> 1, cnt |-> 1]>>)
        /\
        tail = (<<0>>)
        /\
        atodo = (<<[wrapped |-> FALSE, todo |-> <<1>>]>>)
        /\
        freed = ({})
        /\
        nxt = (<<0, 1, 0>>)
        /\
        head = (<<0>>)
        /\
        gen = (<<0, 2, 0>>)
        /\
        hist = (<<<<"k", 1, 100>>, <<"a", 1, 0>>, <<"v", 1, 2>>, <<"r", 1, 1>>, <<"i", 1, 1>>>>)
        /\
        prv = (<<2, 0, 0>>)
        /\
        alist = (<<<<2>>>>)
        /\
        nalloc = (2)
    )
----

_init ==
    /\ bad = _TETrace[1].bad
    /\ alist = _TETrace[1].alist
    /\ nxt = _TETrace[1].nxt
    /\ tail = _TETrace[1].tail
    /\ atodo = _TETrace[1].atodo
    /\ cur = _TETrace[1].cur
    /\ alive = _TETrace[1].alive
    /\ hist = _TETrace[1].hist
    /\ prv = _TETrace[1].prv
    /\ frames = _TETrace[1].frames
    /\ nalloc = _TETrace[1].nalloc
    /\ gen = _TETrace[1].gen
    /\ freed = _TETrace[1].freed
    /\ head = _TETrace[1].head
----

_next ==
    /\ \E i,j \in DOMAIN _TETrace:
        /\ \/ /\ j = i + 1
              /\ i = TLCGet("level")
        /\ bad  = _TETrace[i].bad
        /\ bad' = _TETrace[j].bad
        /\ alist  = _TETrace[i].alist
        /\ alist' = _TETrace[j].alist
        /\ nxt  = _TETrace[i].nxt
        /\ nxt' = _TETrace[j].nxt
        /\ tail  = _TETrace[i].tail
        /\ tail' = _TETrace[j].tail
        /\ atodo  = _TETrace[i].atodo
        /\ atodo' = _TETrace[j].atodo
        /\ cur  = _TETrace[i].cur
        /\ cur' = _TETrace[j].cur
        /\ alive  = _TETrace[i].alive
        /\ alive' = _TETrace[j].alive
        /\ hist  = _TETrace[i].hist
        /\ hist' = _TETrace[j].hist
        /\ prv  = _TETrace[i].prv
        /\ prv' = _TETrace[j].prv
        /\ frames  = _TETrace[i].frames
        /\ frames' = _TETrace[j].frames
        /\ nalloc  = _TETrace[i].nalloc
        /\ nalloc' = _TETrace[j].nalloc
        /\ gen  = _TETrace[i].gen
        /\ gen' = _TETrace[j].gen
        /\ freed  = _TETrace[i].freed
        /\ freed' = _TETrace[j].freed
        /\ head  = _TETrace[i].head
        /\ head' = _TETrace[j].head

\* Uncomment the ASSUME below to write the states of the error trace
\* to the given file in Json format. Note that you can pass any tuple
\* to `JsonSerialize`. For example, a sub-sequence of _TETrace.
    \* ASSUME
    \*     LET J == INSTANCE Json
    \*         IN J!JsonSerialize("CLImpl_TTrace_1790642491.json", _TETrace)

=============================================================================

 Note that you can extract this module `CLImpl_TEExpression`
  to a dedicated file to reuse `expression` (the module in the 
  dedicated `CLImpl_TEExpression.tla` file takes precedence 
  over the module `CLImpl_TEExpression` below).

---- MODULE CLImpl_TEExpression ----
EXTENDS Sequences, TLCExt, Toolbox, Naturals, TLC, CLImpl

expression == 
    [
        \* To hide variables of the `CLImpl` spec from the error trace,
        \* remove the variables below.  The trace will be written in the order
        \* of the fields of this record.
        bad |-> bad
        ,alist |-> alist
        ,nxt |-> nxt
        ,tail |-> tail
        ,atodo |-> atodo
        ,cur |-> cur
        ,alive |-> alive
        ,hist |-> hist
        ,prv |-> prv
        ,frames |-> frames
        ,nalloc |-> nalloc
        ,gen |-> gen
        ,freed |-> freed
        ,head |-> head
        
        \* Put additional constant-, state-, and action-level expressions here:
        \* ,_stateNumber |-> _TEPosition
        \* ,_badUnchanged |-> bad = bad'
        
        \* Format the `bad` variable as Json value.
        \* ,_badJson |->
        \*     LET J == INSTANCE Json
        \*     IN J!ToJson(bad)
        
        \* Lastly, you may build expressions over arbitrary sets of states by
        \* leveraging the _TETrace operator.  For example, this is how to
        \* count the number of times a spec variable changed up to the current
        \* state in the trace.
        \* ,_badModCount |->
        \*     LET F[s \in DOMAIN _TETrace] ==
        \*         IF s = 1 THEN 0
        \*         ELSE IF _TETrace[s].bad # _TETrace[s-1].bad
        \*             THEN 1 + F[s-1] ELSE F[s-1]
        \*     IN F[_TEPosition - 1]
    ]

=============================================================================



Parsing and semantic processing can take forever if the trace below is long.
 In this case, it is advised to uncomment the module below to deserialize the
 trace from a generated binary file.

\*
\*---- MODULE CLImpl_TETrace ----
\*EXTENDS IOUtils, TLC, CLImpl
\*
\*trace == IODeserialize("CLImpl_TTrace_1790642491.bin", TRUE)
\*
\*=============================================================================
\*

---- MODULE CLImpl_TETrace ----
EXTENDS TLC, CLImpl

trace == 
    <<
    ([cur |-> <<0>>,bad |-> "ok",alive |-> <<TRUE>>,frames |-> <<>>,tail |-> <<0>>,atodo |-> <<>>,freed |-> {},nxt |-> <<0, 0, 0>>,head |-> <<0>>,gen |-> <<0, 0, 0>>,hist |-> <<<<"k", 1, 100>>>>,prv |-> <<0, 0, 0>>,alist |-> <<<<>>>>,nalloc |-> 0]),
    ([cur |-> <<1>>,bad |-> "ok",alive |-> <<TRUE>>,frames |-> <<>>,tail |-> <<1>>,atodo |-> <<>>,freed |-> {},nxt |-> <<0, 0, 0>>,head |-> <<1>>,gen |-> <<1, 0, 0>>,hist |-> <<<<"k", 1, 100>>, <<"a", 1, 0>>>>,prv |-> <<0, 0, 0>>,alist |-> <<<<1>>>>,nalloc |-> 1]),
    ([cur |-> <<1>>,bad |-> "ok",alive |-> <<TRUE>>,frames |-> <<[l |-> 1, node |-> 1, cnt |-> 1]>>,tail |-> <<1>>,atodo |-> <<[wrapped |-> FALSE, todo |-> <<1>>]>>,freed |-> {},nxt |-> <<0, 0, 0>>,head |-> <<1>>,gen |-> <<1, 0, 0>>,hist |-> <<<<"k", 1, 100>>, <<"a", 1, 0>>, <<"v", 1, 2>>>>,prv |-> <<0, 0, 0>>,alist |-> <<<<1>>>>,nalloc |-> 1]),
    ([cur |-> <<1>>,bad |-> "ok",alive |-> <<TRUE>>,frames |-> <<[l |-> 1, node |-> 1, cnt |-> 1]>>,tail |-> <<0>>,atodo |-> <<[wrapped |-> FALSE, todo |-> <<1>>]>>,freed |-> {},nxt |-> <<0, 0, 0>>,head |-> <<0>>,gen |-> <<0, 0, 0>>,hist |-> <<<<"k", 1, 100>>, <<"a", 1, 0>>, <<"v", 1, 2>>, <<"r", 1, 1>>>>,prv |-> <<0, 0, 0>>,alist |-> <<<<>>>>,nalloc |-> 1]),
    ([cur |-> <<2>>,bad |-> "ok",alive |-> <<TRUE>>,frames |-> <<[l |-> 1, node |-> 1, cnt |-> 1]>>,tail |-> <<0>>,atodo |-> <<[wrapped |-> FALSE, todo |-> <<1>>]>>,freed |-> {},nxt |-> <<0, 1, 0>>,head |-> <<0>>,gen |-> <<0, 2, 0>>,hist |-> <<<<"k", 1, 100>>, <<"a", 1, 0>>, <<"v", 1, 2>>, <<"r", 1, 1>>, <<"i", 1, 1>>>>,prv |-> <<2, 0, 0>>,alist |-> <<<<2>>>>,nalloc |-> 2])
    >>
----


=============================================================================

---- CONFIG CLImpl_TTrace_1790642491 ----
CONSTANTS
    MaxNodes = 3
    MaxDepth = 2
    MaxGen = 100
    MaxLists = 1
    InitDist = { 100 }
    Ops = { "a" , "p" , "i" , "r" , "o" , "e" , "f" , "g" , "v" }
    Defects = { "stale" }

INVARIANT
    _inv

CHECK_DEADLOCK
    \* CHECK_DEADLOCK off because of PROPERTY or INVARIANT above.
    FALSE

INIT
    _init

NEXT
    _next

CONSTANT
    _TETrace <- _trace

ALIAS
    _expression
=============================================================================
\* Generated on Tue Sep 29 00:41:33 UTC 2026