------------------------------- MODULE TraceHet -------------------------------
(***************************************************************************)
(* Abstract oracle for the heterogeneous classes (C14), executions         *)
(* recorded by harness/het_interp.cpp.  A callback is bound to the first   *)
(* listed prototype it can be called with (Binds); an invocation, dispatch *)
(* or enqueue selects the first listed prototype callable with its         *)
(* argument types (Accepts) and reaches exactly the callbacks bound to it, *)
(* in order, once each, with intact arguments; queued events are consumed  *)
(* exactly once in FIFO order by process / processOne; processIf examines  *)
(* only events of prototypes its predicate is callable with (Callable),    *)
(* each at most once per call, in FIFO order within a prototype, and       *)
(* leaves every other event untouched, intact and in place.  Which of the  *)
(* callable prototypes a call gets to, and in what order, is left open.    *)
(* Listeners registered through CounterRemover (count c) run on exactly    *)
(* their first max(c,1) triggers, those registered through                 *)
(* ConditionalRemover run up to and including the trigger at which their   *)
(* condition (asked exactly once per trigger, before the listener) holds - *)
(* the harness's condition holds at its second evaluation (C16).           *)
(* MixinHeterFilter (C12, heterogeneous dispatcher): before the listeners, *)
(* a dispatch of prototype p runs the filters registered for p in the      *)
(* order they were added, each sees the current argument value, a change   *)
(* it makes (behaviour 1: +10 on an int argument) is seen by later filters *)
(* and by the listeners, the first false verdict (behaviour 2: the value   *)
(* is odd) ends the dispatch; removed filters and filters of other         *)
(* prototypes do not run.                                                  *)
(***************************************************************************)
EXTENDS Naturals, Sequences, FiniteSets, TLC, Json, IOUtils

TraceLog == ndJsonDeserialize(IOEnv.TRACE)
Protos == 1..5
Binds == <<1, 2, 3, 4, 5, 2, 1, 2, 2>>   \* shape 8: a void(int) listener that itself enqueues further events; shape 9: one that throws (C09)
Accepts == <<1, 2, 2, 3, 4, 5, 2, 2>>
Callable == <<{1}, {2}, {3}, {4}, {5}, {2, 5}>>
HasPayload(p) == p \in {3, 4, 5}

VARIABLES lst, kind, pending, exp, proc, ncb, flt, fkd, l
vars == <<lst, kind, pending, exp, proc, ncb, flt, fkd, l>>
NoProc == [on |-> FALSE, mode |-> 0, shape |-> 0, seen |-> {}, hit |-> FALSE, cur |-> 0, any |-> FALSE, thrown |-> FALSE, taken |-> {}]
Init == flt = [p \in Protos |-> <<>>] /\ fkd = <<>> /\ lst = [p \in Protos |-> <<>>] /\ kind = <<>> /\ pending = <<>> /\ exp = <<>> /\ proc = NoProc /\ ncb = 0 /\ l = 1
E == TraceLog[l]
Is(e) == l <= Len(TraceLog) /\ E.e = e /\ l' = l + 1
InSeq(s, x) == \E i \in 1..Len(s) : s[i] = x
Pos(s, x) == CHOOSE i \in 1..Len(s) : s[i] = x
Without(s, x) == SelectSeq(s, LAMBDA y : y # x)
Idle == exp = <<>> /\ ~proc.on
NCb(ls) == Len(ls[1]) + Len(ls[2]) + Len(ls[3]) + Len(ls[4]) + Len(ls[5])
NPay(pd) == Len(SelectSeq(pd, LAMBDA e : HasPayload(e.p)))
Ledger == E.lv = NCb(lst') /\ E.pv = NPay(pending')
\* calls owed by one dispatch of prototype p with argument value v (prototype 1 has no arguments: the callbacks see 0):
\* <<0, callback, p, value>> a listener runs, <<1, callback, p, 0>> the condition of a ConditionalRemover listener is asked first
\* <<3, callback, p, value>> that listener throws: nothing of this dispatch, and nothing of the call that made it, follows (C09)
RECURSIVE OwesOf(_,_,_,_)
OwesOf(s, p, v, kd) == IF s = <<>> THEN <<>>
                       ELSE IF kd[Head(s)].k = "thr" THEN << <<0, Head(s), p, v>>, <<3, Head(s), p, v>> >>
                       ELSE (IF kd[Head(s)].k = "cond" THEN << <<1, Head(s), p, 0>> >> ELSE <<>>) \o << <<0, Head(s), p, IF p = 1 THEN 0 ELSE v>> >> \o OwesOf(Tail(s), p, v, kd)
RECURSIVE Upto(_,_)
Upto(s, kd) == IF s = <<>> THEN <<>> ELSE IF kd[Head(s)].k = "thr" THEN <<Head(s)>> ELSE <<Head(s)>> \o Upto(Tail(s), kd)
Throws(p, ls, kd) == \E i \in 1..Len(ls[p]) : kd[ls[p][i]].k = "thr"
\* one trigger of prototype p: every self-removing listener it reaches (all, or those up to the first thrower) counts down and detaches itself at zero
Trig(p, ls, kd) == LET S == {n \in 1..Len(kd) : InSeq(Upto(ls[p], kd), n) /\ kd[n].k \in {"ctr", "cond"}} IN
                   [ls |-> [ls EXCEPT ![p] = SelectSeq(@, LAMBDA x : x \notin S \/ kd[x].left > 1)],
                    kd |-> [n \in 1..Len(kd) |-> IF n \in S THEN [kd[n] EXCEPT !.left = @ - 1] ELSE kd[n]]]
\* a batch of queued events dispatched one after the other
RECURSIVE Batch(_,_,_)
Batch(evs, ls, kd) == IF evs = <<>> THEN [exp |-> <<>>, ls |-> ls, kd |-> kd]
                      ELSE LET e == Head(evs)  t == Trig(e.p, ls, kd)  r == Batch(Tail(evs), t.ls, t.kd) IN
                           IF Throws(e.p, ls, kd) THEN [exp |-> OwesOf(ls[e.p], e.p, e.uid, kd), ls |-> t.ls, kd |-> t.kd]     \* the rest of the batch is never dispatched
                           ELSE [exp |-> OwesOf(ls[e.p], e.p, e.uid, kd) \o r.exp, ls |-> r.ls, kd |-> r.kd]
Plain == [k |-> "plain", left |-> 0]
Before(s, h, n) == IF InSeq(s, h) THEN SubSeq(s, 1, Pos(s, h) - 1) \o <<n>> \o SubSeq(s, Pos(s, h), Len(s)) ELSE Append(s, n)

\* a callback of shape E.a is added (position: where == 0 back, 1 front, 2 before E.o); it must land in prototype Binds[E.a]
Add(p, where, kd) == /\ Idle /\ E.r = ncb + 1 /\ E.b = p
                     /\ lst' = [lst EXCEPT ![p] = IF where = 0 THEN Append(@, ncb + 1) ELSE IF where = 1 THEN <<ncb + 1>> \o @ ELSE Before(@, E.o, ncb + 1)]
                     /\ kind' = Append(kind, kd) /\ ncb' = ncb + 1 /\ UNCHANGED <<pending, exp, proc>> /\ Ledger
KindOf(shape) == IF shape = 9 THEN [k |-> "thr", left |-> 0] ELSE Plain
EvAppend == Is("al") /\ Add(Binds[E.a], 0, KindOf(E.a))
EvPrepend == Is("pl") /\ Add(Binds[E.a], 1, KindOf(E.a))
EvInsert == Is("il") /\ Add(Binds[E.a], 2, KindOf(E.a))
\* CounterRemover (trigger count E.u) / ConditionalRemover
CtrOf(c) == [k |-> "ctr", left |-> IF c < 1 THEN 1 ELSE c]
CondK == [k |-> "cond", left |-> 2]
EvAppendCtr == Is("ac") /\ Add(Binds[E.a], 0, CtrOf(E.u))
EvPrependCtr == Is("pc") /\ Add(Binds[E.a], 1, CtrOf(E.u))
EvInsertCtr == Is("ic") /\ Add(Binds[E.a], 2, CtrOf(E.u))
EvAppendCond == Is("ak") /\ Add(1, 0, CondK)
EvPrependCond == Is("qk") /\ Add(1, 1, CondK)
EvInsertCond == Is("ik") /\ Add(1, 2, CondK)
EvRemove == /\ Is("rl") /\ Idle /\ E.r = (IF \E p \in Protos : InSeq(lst[p], E.a) THEN 1 ELSE 0)
            /\ lst' = [p \in Protos |-> Without(lst[p], E.a)] /\ UNCHANGED <<kind, pending, exp, proc, ncb>> /\ Ledger
\* the filters of prototype p applied to value v: the calls owed (<<2, filter, p, value seen>>), the value afterwards, whether all passed
RECURSIVE Filtered(_,_,_)
Filtered(fs, p, v) == IF fs = <<>> THEN [exp |-> <<>>, v |-> v, pass |-> TRUE]
                      ELSE LET f == Head(fs)  me == << <<2, f, p, v>> >> IN
                           IF fkd[f] = 2 /\ v % 2 = 1 THEN [exp |-> me, v |-> v, pass |-> FALSE]
                           ELSE LET r == Filtered(Tail(fs), p, IF fkd[f] = 1 /\ p = 2 THEN v + 10 ELSE v) IN [exp |-> me \o r.exp, v |-> r.v, pass |-> r.pass]
\* invocation / dispatch with argument shape E.a and value E.u
EvInvokeBegin == /\ Is("ib") /\ Idle
                 /\ LET p == Accepts[E.a]  f == Filtered(flt[p], p, IF p = 1 THEN 0 ELSE E.u)  t == Trig(p, lst, kind) IN
                    IF f.pass THEN exp' = f.exp \o OwesOf(lst[p], p, f.v, kind) /\ lst' = t.ls /\ kind' = t.kd
                    ELSE exp' = f.exp /\ UNCHANGED <<lst, kind>>
                 /\ UNCHANGED <<pending, proc, ncb>>
EvFilterAsked == /\ Is("fq") /\ exp # <<>> /\ Head(exp) = <<2, E.a, E.o, E.u>> /\ exp' = Tail(exp) /\ UNCHANGED <<lst, kind, pending, proc, ncb, flt, fkd>>
\* a filter of prototype E.a (behaviour E.u) is added: it must be bound to that prototype's filter list (E.b); a filter is removed
EvAppendFilter == /\ Is("af") /\ Idle /\ E.a \in Protos /\ E.b = E.a /\ E.r = Len(fkd) + 1 /\ E.u \in 0..2
                  /\ flt' = [flt EXCEPT ![E.a] = Append(@, Len(fkd) + 1)] /\ fkd' = Append(fkd, E.u) /\ UNCHANGED <<lst, kind, pending, exp, proc, ncb>>
EvRemoveFilter == /\ Is("rf") /\ Idle /\ E.r = (IF \E p \in Protos : InSeq(flt[p], E.a) THEN 1 ELSE 0)
                  /\ flt' = [p \in Protos |-> Without(flt[p], E.a)] /\ UNCHANGED <<lst, kind, pending, exp, proc, ncb, fkd>>
EvEnter == /\ Is("en") /\ exp # <<>> /\ Head(exp) = <<0, E.a, E.o, E.u>> /\ E.b = 1 /\ exp' = Tail(exp) /\ UNCHANGED <<lst, kind, pending, proc, ncb>>
EvCondAsked == /\ Is("cq") /\ exp # <<>> /\ Head(exp) = <<1, E.a, E.o, E.u>> /\ exp' = Tail(exp) /\ UNCHANGED <<lst, kind, pending, proc, ncb>>
EvInvokeEnd == /\ Is("ie") /\ exp = <<>> /\ ~proc.on /\ ~proc.thrown /\ UNCHANGED <<lst, kind, pending, exp, proc, ncb>> /\ Ledger
\* a listener throws: the exception reaches the caller of the invocation / dispatch / processing call (ix / px), nothing else of that call runs,
\* the listener lists stay as the callbacks left them, a processing call discards exactly the events it had taken out of the queue
EvThrown == /\ Is("xt") /\ exp # <<>> /\ Head(exp) = <<3, E.a, E.o, E.u>> /\ exp' = Tail(exp) /\ proc' = [proc EXCEPT !.thrown = TRUE]
            /\ UNCHANGED <<lst, kind, pending, ncb>>
EvInvokeExit == /\ Is("ix") /\ exp = <<>> /\ ~proc.on /\ proc.thrown /\ proc' = NoProc /\ UNCHANGED <<lst, kind, pending, exp, ncb>> /\ Ledger
EvProcessExit == /\ Is("px") /\ proc.on /\ proc.thrown /\ exp = <<>> /\ E.a = proc.mode
                 /\ pending' = SelectSeq(pending, LAMBDA e : e.uid \notin proc.taken)
                 /\ proc' = NoProc /\ UNCHANGED <<lst, kind, exp, ncb>> /\ Ledger
\* emptyQueue() at rest: true exactly when nothing is pending (also after processing calls were left by exceptions)
EvEmptyQueue == /\ Is("eq") /\ Idle /\ ~proc.thrown /\ E.r = (IF pending = <<>> THEN 1 ELSE 0) /\ UNCHANGED <<lst, kind, pending, exp, proc, ncb>>
\* an enqueue at top level, or by a listener while a dispatch or a processing call runs: the event goes behind everything queued
\* (argument objects of events in flight are still alive then, so the ledger is only read at rest)
EvEnqueue == /\ Is("nq") /\ pending' = Append(pending, [uid |-> E.u, p |-> Accepts[E.a]]) /\ UNCHANGED <<lst, kind, exp, proc, ncb>>
             /\ (Idle => Ledger)
\* process (1) / processOne (2): the taken events are dispatched in order; processIf (3) with predicate shape E.b
EvProcessBegin == /\ Is("pb") /\ Idle
                  /\ IF E.a = 3 THEN proc' = [NoProc EXCEPT !.on = TRUE, !.mode = 3, !.shape = E.b, !.taken = {pending[i].uid : i \in 1..Len(pending)}] /\ UNCHANGED <<exp, pending, lst, kind>>
                     ELSE LET batch == IF E.a = 2 THEN (IF pending = <<>> THEN <<>> ELSE <<Head(pending)>>) ELSE pending
                              r == Batch(batch, lst, kind) IN
                          /\ proc' = [NoProc EXCEPT !.on = TRUE, !.mode = E.a, !.any = batch # <<>>]
                          /\ exp' = r.exp /\ lst' = r.ls /\ kind' = r.kd
                          /\ pending' = IF E.a = 2 THEN (IF pending = <<>> THEN <<>> ELSE Tail(pending)) ELSE <<>>
                  /\ UNCHANGED ncb
\* the predicate is asked about event E.u as prototype E.o: callable prototype, not yet examined in this call, FIFO within its prototype
EvPredBegin == /\ Is("qb") /\ proc.on /\ proc.mode = 3 /\ proc.cur = 0 /\ exp = <<>> /\ ~proc.thrown
               /\ \E i \in 1..Len(pending) :
                    /\ pending[i].uid = E.u /\ pending[i].p = E.o /\ E.o \in Callable[proc.shape] /\ E.u \notin proc.seen /\ E.b = 1
                    /\ \A j \in 1..(i - 1) : pending[j].p = E.o => pending[j].uid \in proc.seen
               /\ proc' = [proc EXCEPT !.cur = E.u, !.seen = @ \cup {E.u}]
               /\ UNCHANGED <<lst, kind, pending, exp, ncb>>
EvPredEnd == /\ Is("qe") /\ proc.on /\ proc.cur # 0
             /\ LET i == CHOOSE j \in 1..Len(pending) : pending[j].uid = proc.cur IN
                IF E.r = 1 THEN /\ LET r == Batch(<<pending[i]>>, lst, kind) IN exp' = r.exp /\ lst' = r.ls /\ kind' = r.kd
                                /\ pending' = SubSeq(pending, 1, i - 1) \o SubSeq(pending, i + 1, Len(pending))
                                /\ proc' = [proc EXCEPT !.cur = 0, !.any = TRUE]
                ELSE UNCHANGED <<exp, pending, lst, kind>> /\ proc' = [proc EXCEPT !.cur = 0]
             /\ UNCHANGED ncb
\* a processIf call that reports "nothing dispatched" has asked its predicate about every pending event of every prototype the predicate is
\* callable with (the call may stop early only after a pass that dispatched something): otherwise an acceptable event could stay queued for ever
Unasked == {i \in 1..Len(pending) : pending[i].p \in Callable[proc.shape] /\ pending[i].uid \notin proc.seen /\ pending[i].uid \in proc.taken}
EvProcessEnd == /\ Is("pe") /\ proc.on /\ proc.cur = 0 /\ exp = <<>> /\ ~proc.thrown /\ E.a = proc.mode /\ E.r = (IF proc.any THEN 1 ELSE 0)
                /\ (proc.mode = 3 /\ ~proc.any => Unasked = {})
                /\ proc' = NoProc /\ UNCHANGED <<lst, kind, pending, exp, ncb>> /\ Ledger
EvReset == /\ Is("rs") /\ Idle /\ E.lv = 0 /\ E.pv = 0
           /\ flt' = [p \in Protos |-> <<>>] /\ fkd' = <<>> /\ lst' = [p \in Protos |-> <<>>] /\ kind' = <<>> /\ pending' = <<>> /\ exp' = <<>> /\ proc' = NoProc /\ ncb' = 0

Next == \/ ((EvAppend \/ EvPrepend \/ EvInsert \/ EvAppendCtr \/ EvPrependCtr \/ EvInsertCtr \/ EvAppendCond \/ EvPrependCond \/ EvInsertCond \/ EvCondAsked \/ EvRemove
             \/ EvInvokeBegin \/ EvEnter \/ EvInvokeEnd \/ EvEnqueue \/ EvProcessBegin \/ EvPredBegin \/ EvPredEnd \/ EvProcessEnd
             \/ EvThrown \/ EvInvokeExit \/ EvProcessExit \/ EvEmptyQueue) /\ UNCHANGED <<flt, fkd>>)
        \/ EvFilterAsked \/ EvAppendFilter \/ EvRemoveFilter \/ EvReset
Report == IF TLCGet("stats").diameter - 1 = Len(TraceLog) THEN TRUE
          ELSE PrintT(<<"REJECTED", TLCGet("stats").diameter, Len(TraceLog)>>) /\ FALSE
=============================================================================
