------------------------------- MODULE TraceHet -------------------------------
(***************************************************************************)
(* Abstract oracle for the heterogeneous classes (C14), executions         *)
(* recorded by harness/het_interp.cpp.  A callback is bound to the first   *)
(* listed prototype it can be called with (Binds); an invocation, dispatch *)
(* or enqueue selects the first listed prototype callable with its         *)
(* argument types (Accepts) and reaches exactly the callbacks bound to it, *)
(* in order, once each, with intact arguments; queued events are consumed  *)
(* exactly once in FIFO order by process / processOne; processIf examines  *)
(* only events of prototypes its predicate is callable with (Callable),    *)
(* each at most once per call, in FIFO order within a prototype, and       *)
(* leaves every other event untouched, intact and in place.  Which of the  *)
(* callable prototypes a call gets to, and in what order, is left open.    *)
(***************************************************************************)
EXTENDS Naturals, Sequences, FiniteSets, TLC, Json, IOUtils

TraceLog == ndJsonDeserialize(IOEnv.TRACE)
Protos == 1..5
Binds == <<1, 2, 3, 4, 5, 2, 1>>
Accepts == <<1, 2, 2, 3, 4, 5, 2>>
Callable == <<{1}, {2}, {3}, {4}, {5}, {2, 5}>>
HasPayload(p) == p \in {3, 4, 5}

VARIABLES lst, pending, exp, proc, ncb, l
vars == <<lst, pending, exp, proc, ncb, l>>
NoProc == [on |-> FALSE, mode |-> 0, shape |-> 0, seen |-> {}, hit |-> FALSE, cur |-> 0, any |-> FALSE]
Init == lst = [p \in Protos |-> <<>>] /\ pending = <<>> /\ exp = <<>> /\ proc = NoProc /\ ncb = 0 /\ l = 1
E == TraceLog[l]
Is(e) == l <= Len(TraceLog) /\ E.e = e /\ l' = l + 1
InSeq(s, x) == \E i \in 1..Len(s) : s[i] = x
Pos(s, x) == CHOOSE i \in 1..Len(s) : s[i] = x
Without(s, x) == SelectSeq(s, LAMBDA y : y # x)
Idle == exp = <<>> /\ ~proc.on
NCb(ls) == Len(ls[1]) + Len(ls[2]) + Len(ls[3]) + Len(ls[4]) + Len(ls[5])
NPay(pd) == Len(SelectSeq(pd, LAMBDA e : HasPayload(e.p)))
Ledger == E.lv = NCb(lst') /\ E.pv = NPay(pending')
\* invocations owed by one dispatch of prototype p with argument value v (prototype 1 has no arguments: the callbacks see 0)
Owes(p, v) == [i \in 1..Len(lst[p]) |-> <<lst[p][i], p, IF p = 1 THEN 0 ELSE v>>]
RECURSIVE OwesAll(_)
OwesAll(evs) == IF evs = <<>> THEN <<>> ELSE Owes(Head(evs).p, Head(evs).uid) \o OwesAll(Tail(evs))

EvAppend == /\ Is("al") /\ Idle /\ E.r = ncb + 1 /\ E.b = Binds[E.a] /\ lst' = [lst EXCEPT ![Binds[E.a]] = Append(@, ncb + 1)] /\ ncb' = ncb + 1
            /\ UNCHANGED <<pending, exp, proc>> /\ Ledger
EvPrepend == /\ Is("pl") /\ Idle /\ E.r = ncb + 1 /\ E.b = Binds[E.a] /\ lst' = [lst EXCEPT ![Binds[E.a]] = <<ncb + 1>> \o @] /\ ncb' = ncb + 1
             /\ UNCHANGED <<pending, exp, proc>> /\ Ledger
EvInsert == /\ Is("il") /\ Idle /\ E.r = ncb + 1 /\ E.b = Binds[E.a]
            /\ LET p == Binds[E.a]  s == lst[p] IN
               lst' = [lst EXCEPT ![p] = IF InSeq(s, E.o) THEN SubSeq(s, 1, Pos(s, E.o) - 1) \o <<ncb + 1>> \o SubSeq(s, Pos(s, E.o), Len(s)) ELSE Append(s, ncb + 1)]
            /\ ncb' = ncb + 1 /\ UNCHANGED <<pending, exp, proc>> /\ Ledger
EvRemove == /\ Is("rl") /\ Idle /\ E.r = (IF \E p \in Protos : InSeq(lst[p], E.a) THEN 1 ELSE 0)
            /\ lst' = [p \in Protos |-> Without(lst[p], E.a)] /\ UNCHANGED <<pending, exp, proc, ncb>> /\ Ledger
\* invocation / dispatch with argument shape E.a and value E.u
EvInvokeBegin == /\ Is("ib") /\ Idle /\ exp' = Owes(Accepts[E.a], E.u) /\ UNCHANGED <<lst, pending, proc, ncb>>
EvEnter == /\ Is("en") /\ exp # <<>> /\ Head(exp) = <<E.a, E.o, E.u>> /\ E.b = 1 /\ exp' = Tail(exp) /\ UNCHANGED <<lst, pending, proc, ncb>>
EvInvokeEnd == /\ Is("ie") /\ exp = <<>> /\ ~proc.on /\ UNCHANGED <<lst, pending, exp, proc, ncb>> /\ Ledger
EvEnqueue == /\ Is("nq") /\ Idle /\ pending' = Append(pending, [uid |-> E.u, p |-> Accepts[E.a]]) /\ UNCHANGED <<lst, exp, proc, ncb>> /\ Ledger
\* process (1) / processOne (2): the taken events are dispatched in order; processIf (3) with predicate shape E.b
EvProcessBegin == /\ Is("pb") /\ Idle
                  /\ IF E.a = 3 THEN proc' = [NoProc EXCEPT !.on = TRUE, !.mode = 3, !.shape = E.b] /\ UNCHANGED <<exp, pending>>
                     ELSE LET batch == IF E.a = 2 THEN (IF pending = <<>> THEN <<>> ELSE <<Head(pending)>>) ELSE pending IN
                          /\ proc' = [NoProc EXCEPT !.on = TRUE, !.mode = E.a, !.any = batch # <<>>]
                          /\ exp' = OwesAll(batch)
                          /\ pending' = IF E.a = 2 THEN (IF pending = <<>> THEN <<>> ELSE Tail(pending)) ELSE <<>>
                  /\ UNCHANGED <<lst, ncb>>
\* the predicate is asked about event E.u as prototype E.o: callable prototype, not yet examined in this call, FIFO within its prototype
EvPredBegin == /\ Is("qb") /\ proc.on /\ proc.mode = 3 /\ proc.cur = 0 /\ exp = <<>>
               /\ \E i \in 1..Len(pending) :
                    /\ pending[i].uid = E.u /\ pending[i].p = E.o /\ E.o \in Callable[proc.shape] /\ E.u \notin proc.seen /\ E.b = 1
                    /\ \A j \in 1..(i - 1) : pending[j].p = E.o => pending[j].uid \in proc.seen
               /\ proc' = [proc EXCEPT !.cur = E.u, !.seen = @ \cup {E.u}]
               /\ UNCHANGED <<lst, pending, exp, ncb>>
EvPredEnd == /\ Is("qe") /\ proc.on /\ proc.cur # 0
             /\ LET i == CHOOSE j \in 1..Len(pending) : pending[j].uid = proc.cur IN
                IF E.r = 1 THEN /\ exp' = Owes(pending[i].p, pending[i].uid)
                                /\ pending' = SubSeq(pending, 1, i - 1) \o SubSeq(pending, i + 1, Len(pending))
                                /\ proc' = [proc EXCEPT !.cur = 0, !.any = TRUE]
                ELSE UNCHANGED <<exp, pending>> /\ proc' = [proc EXCEPT !.cur = 0]
             /\ UNCHANGED <<lst, ncb>>
EvProcessEnd == /\ Is("pe") /\ proc.on /\ proc.cur = 0 /\ exp = <<>> /\ E.a = proc.mode /\ E.r = (IF proc.any THEN 1 ELSE 0)
                /\ proc' = NoProc /\ UNCHANGED <<lst, pending, exp, ncb>> /\ Ledger
EvReset == /\ Is("rs") /\ Idle /\ E.lv = 0 /\ E.pv = 0
           /\ lst' = [p \in Protos |-> <<>>] /\ pending' = <<>> /\ exp' = <<>> /\ proc' = NoProc /\ ncb' = 0

Next == EvAppend \/ EvPrepend \/ EvInsert \/ EvRemove \/ EvInvokeBegin \/ EvEnter \/ EvInvokeEnd \/ EvEnqueue
        \/ EvProcessBegin \/ EvPredBegin \/ EvPredEnd \/ EvProcessEnd \/ EvReset
Report == IF TLCGet("stats").diameter - 1 = Len(TraceLog) THEN TRUE
          ELSE PrintT(<<"REJECTED", TLCGet("stats").diameter, Len(TraceLog)>>) /\ FALSE
=============================================================================
