------------------------------- MODULE TraceCC -------------------------------
(***************************************************************************)
(* Abstract concurrent oracle for CallbackList / EventDispatcher listener   *)
(* management (C03): validates API-level histories recorded by             *)
(* harness/cc_run.cpp under the controlled scheduler.                      *)
(*                                                                         *)
(* Linearizability is decided without guessing: `cfgs` is the SET of all   *)
(* abstract configurations (list content + which pending calls have taken  *)
(* effect, with what result) that are consistent with the history so far.  *)
(* A call's begin adds it as pending and closes the set under "any pending *)
(* call takes effect now"; a call's end keeps only the configurations in   *)
(* which it has taken effect with exactly the reported result.  An empty   *)
(* set = no sequential execution explains the history = not enabled.       *)
(* The final listener order reported after the threads are joined must be  *)
(* the list of a surviving configuration.                                  *)
(*                                                                         *)
(* Traversals (invoke / forEach) have no result; their visits obey:        *)
(* never twice; never a callback whose removal had ended before the        *)
(* traversal began; every callback whose addition had ended before it      *)
(* began and whose removal had not begun when it ended is visited; visits  *)
(* respect the list order (checked against the initial and final order -   *)
(* the relative order of two callbacks never changes while both are in).   *)
(* `ua` (unlocked structural access) and `stuck` have no step.             *)
(***************************************************************************)
EXTENDS Naturals, Integers, Sequences, FiniteSets, TLC, Json, IOUtils

TraceLog == ndJsonDeserialize(IOEnv.TRACE)
Threads == {0, 1, 2, 3}

VARIABLES cfgs,      \* set of [list: Seq(id), pend: [Threads -> pending call or idle]]
          addEnd,    \* id -> trace index at which its addition ended (0: not yet); initial callbacks: 1
          remBegin,  \* id -> index at which a successful-or-not removal of it first began (0: none)
          remEnd,    \* id -> index at which a removal of it that returned true ended (0: none)
          trav,      \* thread -> [on, at, seen] traversal in progress
          travs,     \* finished traversals: set of visit sequences (for the order check at the end)
          init0,     \* the initial list
          l
vars == <<cfgs, addEnd, remBegin, remEnd, trav, travs, init0, l>>

E == TraceLog[l]
Is(e) == l <= Len(TraceLog) /\ E.e = e /\ l' = l + 1
Idle == [op |-> "idle", h |-> 0, n |-> 0, done |-> FALSE, res |-> 0]
NoTrav == [on |-> FALSE, at |-> 0, seen |-> <<>>]
InSeq(s, x) == \E i \in 1..Len(s) : s[i] = x
Pos(s, x) == CHOOSE i \in 1..Len(s) : s[i] = x
Without(s, x) == SelectSeq(s, LAMBDA y : y # x)
Get(f, k) == IF k \in DOMAIN f THEN f[k] ELSE 0

Init == cfgs = {} /\ addEnd = <<>> /\ remBegin = <<>> /\ remEnd = <<>> /\ trav = [t \in Threads |-> NoTrav] /\ travs = {} /\ init0 = <<>> /\ l = 1

\* effect of pending call p of a configuration
Apply(c, t) ==
  LET p == c.pend[t]  s == c.list IN
  CASE p.op = "a" -> [list |-> Append(s, p.n), pend |-> [c.pend EXCEPT ![t].done = TRUE, ![t].res = p.n]]
    [] p.op = "p" -> [list |-> <<p.n>> \o s, pend |-> [c.pend EXCEPT ![t].done = TRUE, ![t].res = p.n]]
    [] p.op = "i" -> [list |-> IF InSeq(s, p.h) THEN LET k == Pos(s, p.h) IN SubSeq(s, 1, k - 1) \o <<p.n>> \o SubSeq(s, k, Len(s)) ELSE Append(s, p.n),
                      pend |-> [c.pend EXCEPT ![t].done = TRUE, ![t].res = p.n]]
    [] p.op = "r" -> [list |-> Without(s, p.h), pend |-> [c.pend EXCEPT ![t].done = TRUE, ![t].res = IF InSeq(s, p.h) THEN 1 ELSE 0]]
    [] p.op = "o" -> [list |-> s, pend |-> [c.pend EXCEPT ![t].done = TRUE, ![t].res = IF InSeq(s, p.h) THEN 1 ELSE 0]]
    [] p.op = "e" -> [list |-> s, pend |-> [c.pend EXCEPT ![t].done = TRUE, ![t].res = IF s = <<>> THEN 1 ELSE 0]]
RECURSIVE Close(_)
Close(S) == LET new == {x \in UNION {{Apply(c, t) : t \in {u \in Threads : c.pend[u].op # "idle" /\ ~c.pend[u].done}} : c \in S} : x \notin S} IN
            IF new = {} THEN S ELSE Close(S \cup new)

\* ---- set-up by the main thread: the initial callbacks (ids Ev.a, in order), before any worker runs
EvInit == /\ Is("in") /\ cfgs' = {[list |-> Append(IF cfgs = {} THEN <<>> ELSE (CHOOSE c \in cfgs : TRUE).list, E.a), pend |-> [t \in Threads |-> Idle]]}
          /\ addEnd' = (E.a :> 1) @@ addEnd /\ init0' = Append(init0, E.a)
          /\ UNCHANGED <<remBegin, remEnd, trav, travs>>
EvStart == /\ Is("go") /\ cfgs' = IF cfgs = {} THEN {[list |-> <<>>, pend |-> [t \in Threads |-> Idle]]} ELSE cfgs
           /\ UNCHANGED <<addEnd, remBegin, remEnd, trav, travs, init0>>

\* ---- linearizable calls: begin / end
EvBegin == /\ Is("b") /\ E.op \in {"a", "p", "i", "r", "o", "e"}
           /\ \A c \in cfgs : c.pend[E.t].op = "idle"
           /\ cfgs' = Close({[c EXCEPT !.pend[E.t] = [op |-> E.op, h |-> E.a, n |-> E.n, done |-> FALSE, res |-> 0]] : c \in cfgs})
           /\ remBegin' = IF E.op = "r" /\ Get(remBegin, E.a) = 0 THEN (E.a :> l) @@ remBegin ELSE remBegin
           /\ UNCHANGED <<addEnd, remEnd, trav, travs, init0>>
EvEnd == /\ Is("e") /\ E.op \in {"a", "p", "i", "r", "o", "e"}
         /\ LET ok == {c \in cfgs : c.pend[E.t].op = E.op /\ c.pend[E.t].done /\ c.pend[E.t].res = E.r} IN
            /\ ok # {}
            /\ cfgs' = Close({[c EXCEPT !.pend[E.t] = Idle] : c \in ok})
         /\ addEnd' = IF E.op \in {"a", "p", "i"} THEN (E.r :> l) @@ addEnd ELSE addEnd
         /\ remEnd' = IF E.op = "r" /\ E.r = 1 /\ Get(remEnd, E.a) = 0 THEN (E.a :> l) @@ remEnd ELSE remEnd
         /\ UNCHANGED <<remBegin, trav, travs, init0>>

\* ---- traversals
EvTravBegin == /\ Is("b") /\ E.op \in {"v", "f"} /\ ~trav[E.t].on
               /\ trav' = [trav EXCEPT ![E.t] = [on |-> TRUE, at |-> l, seen |-> <<>>]]
               /\ UNCHANGED <<cfgs, addEnd, remBegin, remEnd, travs, init0>>
EvVisit == /\ Is("vi") /\ trav[E.t].on
           /\ ~InSeq(trav[E.t].seen, E.a)                                            \* never twice
           /\ ~(Get(remEnd, E.a) # 0 /\ Get(remEnd, E.a) < trav[E.t].at)             \* not one whose removal had ended before
           /\ trav' = [trav EXCEPT ![E.t].seen = Append(@, E.a)]
           /\ UNCHANGED <<cfgs, addEnd, remBegin, remEnd, travs, init0>>
EvTravEnd == /\ Is("e") /\ E.op \in {"v", "f"} /\ trav[E.t].on
             /\ \A n \in DOMAIN addEnd : (addEnd[n] # 0 /\ addEnd[n] < trav[E.t].at /\ Get(remBegin, n) = 0) => InSeq(trav[E.t].seen, n)
             /\ travs' = travs \cup {trav[E.t].seen} /\ trav' = [trav EXCEPT ![E.t] = NoTrav]
             /\ UNCHANGED <<cfgs, addEnd, remBegin, remEnd, init0>>
\* calls on another event of the same dispatcher (they share the map with event 1): no effect on event 1's list; a thread removing the
\* listener it added itself to that event must succeed
EvOther == /\ (Is("b") \/ Is("e")) /\ E.op \in {"x", "y", "z"} /\ (E.e = "e" /\ E.op = "y" => E.r = 1)
           /\ UNCHANGED <<cfgs, addEnd, remBegin, remEnd, trav, travs, init0>>
EvFin == Is("fin") /\ UNCHANGED <<cfgs, addEnd, remBegin, remEnd, trav, travs, init0>>

\* ---- after the join: the final order (E.s = ids as a sequence) is the list of a surviving configuration, visits respected the order
OrderRespects(seen, ref) == \A i, j \in 1..Len(seen) : (i < j /\ InSeq(ref, seen[i]) /\ InSeq(ref, seen[j])) => Pos(ref, seen[i]) < Pos(ref, seen[j])
EvFinal == /\ Is("fl")
           /\ \E c \in cfgs : c.list = E.s /\ \A t \in Threads : c.pend[t].op = "idle"
           /\ \A s \in travs : OrderRespects(s, E.s) /\ OrderRespects(s, init0)
           /\ UNCHANGED <<cfgs, addEnd, remBegin, remEnd, trav, travs, init0>>
EvReset == /\ Is("rs") /\ E.a = 0
           /\ cfgs' = {} /\ addEnd' = <<>> /\ remBegin' = <<>> /\ remEnd' = <<>> /\ trav' = [t \in Threads |-> NoTrav] /\ travs' = {} /\ init0' = <<>>

Next == EvInit \/ EvStart \/ EvOther \/ EvBegin \/ EvEnd \/ EvTravBegin \/ EvVisit \/ EvTravEnd \/ EvFin \/ EvFinal \/ EvReset

Report == IF TLCGet("stats").diameter - 1 = Len(TraceLog) THEN TRUE
          ELSE PrintT(<<"REJECTED", TLCGet("stats").diameter, Len(TraceLog)>>) /\ FALSE
=============================================================================
