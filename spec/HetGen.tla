------------------------------- MODULE HetGen -------------------------------
(***************************************************************************)
(* Generator + reference model for the heterogeneous classes (C14):        *)
(* HeterCallbackList / HeterEventDispatcher / HeterEventQueue over the      *)
(* prototype list  <void(), void(int), void(const TS&), void(const Big&),  *)
(* void(int, const TS&)>  (prototypes 1..5).                               *)
(*   Binds[k]    prototype a callback of shape k is bound to (the first    *)
(*               listed prototype it can be called with)                   *)
(*   Accepts[a]  prototype selected by an invocation / dispatch / enqueue  *)
(*               with argument shape a (first listed prototype callable    *)
(*               with those argument types, conversions included)          *)
(*   Callable[s] prototypes a processIf predicate of shape s is callable   *)
(*               with                                                       *)
(* The same tables are computed in C++ with the library's own type traits  *)
(* by harness/het_interp.cpp and static_assert-ed equal to these constants.*)
(* State: callbacks per prototype (a sequence each), queued events         *)
(* [uid, proto].  TLC checks exactly-once / FIFO / untouched on all        *)
(* bounded histories and prints the transition cover.                      *)
(***************************************************************************)
EXTENDS Naturals, Sequences, FiniteSets, TLC, Json

CONSTANTS MaxCbs, MaxEnq, MaxInv, Ops, CbShapes, ArgShapes, PredShapes
Protos == 1..5
Binds == <<1, 2, 3, 4, 5, 2, 1>>                 \* shapes 1..5: exact; 6: callable with (int) and (int,const TS&); 7: callable with anything
Accepts == <<1, 2, 2, 3, 4, 5, 2>>               \* (), (int), (long), (TS), (Big), (int,TS), (char)
Callable == <<{1}, {2}, {3}, {4}, {5}, {2, 5}>>   \* predicates: bool(), bool(int), bool(const TS&), bool(const Big&), bool(int,const TS&), generic {(int), (int,const TS&)}

VARIABLES lst, pending, ncb, nuid, ninv, consumed, hist
vars == <<lst, pending, ncb, nuid, ninv, consumed, hist>>
View == <<lst, pending, ncb, nuid, ninv, consumed>>

Init == lst = [p \in Protos |-> <<>>] /\ pending = <<>> /\ ncb = 0 /\ nuid = 0 /\ ninv = 0 /\ consumed = {} /\ hist = <<>>
H(op, a, b) == hist' = Append(hist, <<op, a, b>>)
InSeq(s, x) == \E i \in 1..Len(s) : s[i] = x
Pos(s, x) == CHOOSE i \in 1..Len(s) : s[i] = x
Without(s, x) == SelectSeq(s, LAMBDA y : y # x)
ProtoOf(h) == IF \E p \in Protos : InSeq(lst[p], h) THEN CHOOSE p \in Protos : InSeq(lst[p], h) ELSE 0

OpAppend(k) == /\ "al" \in Ops /\ ncb < MaxCbs /\ lst' = [lst EXCEPT ![Binds[k]] = Append(@, ncb + 1)] /\ ncb' = ncb + 1
               /\ UNCHANGED <<pending, nuid, ninv, consumed>> /\ H("al", k, 0)
OpPrepend(k) == /\ "pl" \in Ops /\ ncb < MaxCbs /\ lst' = [lst EXCEPT ![Binds[k]] = <<ncb + 1>> \o @] /\ ncb' = ncb + 1
                /\ UNCHANGED <<pending, nuid, ninv, consumed>> /\ H("pl", k, 0)
\* insert before handle h: immediately before it when h is a live callback of the SAME prototype, else at the back of its own prototype's list
OpInsert(k, h) == /\ "il" \in Ops /\ ncb < MaxCbs /\ h \in 1..ncb
                  /\ LET p == Binds[k]  s == lst[p] IN
                     lst' = [lst EXCEPT ![p] = IF InSeq(s, h) THEN SubSeq(s, 1, Pos(s, h) - 1) \o <<ncb + 1>> \o SubSeq(s, Pos(s, h), Len(s)) ELSE Append(s, ncb + 1)]
                  /\ ncb' = ncb + 1 /\ UNCHANGED <<pending, nuid, ninv, consumed>> /\ H("il", k, h)
OpRemove(h) == /\ "rl" \in Ops /\ h \in 1..ncb /\ lst' = [p \in Protos |-> Without(lst[p], h)]
               /\ UNCHANGED <<pending, ncb, nuid, ninv, consumed>> /\ H("rl", h, 0)
OpInvoke(a) == /\ "iv" \in Ops /\ ninv < MaxInv /\ ninv' = ninv + 1 /\ UNCHANGED <<lst, pending, ncb, nuid, consumed>> /\ H("iv", a, 0)
OpEnqueue(a) == /\ "nq" \in Ops /\ nuid < MaxEnq /\ pending' = Append(pending, [uid |-> nuid + 1, p |-> Accepts[a]]) /\ nuid' = nuid + 1
                /\ UNCHANGED <<lst, ncb, ninv, consumed>> /\ H("nq", a, 0)
OpProcess == /\ "pa" \in Ops /\ consumed' = consumed \cup {pending[i].uid : i \in 1..Len(pending)} /\ pending' = <<>>
             /\ UNCHANGED <<lst, ncb, nuid, ninv>> /\ H("pa", 0, 0)
OpProcessOne == /\ "po" \in Ops
                /\ IF pending = <<>> THEN UNCHANGED <<pending, consumed>> ELSE pending' = Tail(pending) /\ consumed' = consumed \cup {Head(pending).uid}
                /\ UNCHANGED <<lst, ncb, nuid, ninv>> /\ H("po", 0, 0)
\* processIf with a predicate of shape s whose verdict is "uid is odd": the code runs one pass per callable prototype in list order and
\* returns after the first pass that dispatched something
RECURSIVE Passes(_,_)
Passes(ps, pend) == IF ps = <<>> THEN pend
                    ELSE LET p == Head(ps)
                             hit == {pend[i].uid : i \in {j \in 1..Len(pend) : pend[j].p = p /\ pend[j].uid % 2 = 1}} IN
                         IF hit # {} THEN SelectSeq(pend, LAMBDA e : e.uid \notin hit) ELSE Passes(Tail(ps), pend)
SortedSeq(S) == LET RECURSIVE F(_)
                    F(T) == IF T = {} THEN <<>> ELSE LET m == CHOOSE x \in T : \A y \in T : x <= y IN <<m>> \o F(T \ {m})
                IN F(S)
OpProcessIf(s) == /\ "pi" \in Ops
                  /\ pending' = Passes(SortedSeq(Callable[s]), pending)
                  /\ consumed' = consumed \cup ({pending[i].uid : i \in 1..Len(pending)} \ {pending'[i].uid : i \in 1..Len(pending')})
                  /\ UNCHANGED <<lst, ncb, nuid, ninv>> /\ H("pi", s, 0)

Next == \/ \E k \in CbShapes : OpAppend(k) \/ OpPrepend(k) \/ \E h \in 1..MaxCbs : OpInsert(k, h)
        \/ \E h \in 1..MaxCbs : OpRemove(h)
        \/ \E a \in ArgShapes : OpInvoke(a) \/ OpEnqueue(a)
        \/ OpProcess \/ OpProcessOne \/ \E s \in PredShapes : OpProcessIf(s)
Emit == PrintT(ToJson(hist'))

\* every event is pending or consumed, never both; the queue keeps enqueue order
Ledger == /\ \A u \in 1..nuid : (u \in consumed) # (\E i \in 1..Len(pending) : pending[i].uid = u)
          /\ \A i, j \in 1..Len(pending) : i < j => pending[i].uid < pending[j].uid
\* a callback sits in exactly one prototype's list
OnePlace == \A h \in 1..ncb : Cardinality({p \in Protos : InSeq(lst[p], h)}) <= 1
=============================================================================
