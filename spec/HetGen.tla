------------------------------- MODULE HetGen -------------------------------
(***************************************************************************)
(* Generator + reference model for the heterogeneous classes (C14):        *)
(* HeterCallbackList / HeterEventDispatcher / HeterEventQueue over the      *)
(* prototype list  <void(), void(int), void(const TS&), void(const Big&),  *)
(* void(int, const TS&)>  (prototypes 1..5).                               *)
(*   Binds[k]    prototype a callback of shape k is bound to (the first    *)
(*               listed prototype it can be called with)                   *)
(*   Accepts[a]  prototype selected by an invocation / dispatch / enqueue  *)
(*               with argument shape a (first listed prototype callable    *)
(*               with those argument types, conversions included)          *)
(*   Callable[s] prototypes a processIf predicate of shape s is callable   *)
(*               with                                                       *)
(* The same tables are computed in C++ with the library's own type traits  *)
(* by harness/het_interp.cpp and static_assert-ed equal to these constants.*)
(* CounterRemover (any shape, trigger count c) and ConditionalRemover      *)
(* (callbacks without arguments only: its wrapper is callable with         *)
(* anything, so it always binds to the first prototype; the condition      *)
(* holds at its second evaluation) listeners detach themselves on their    *)
(* max(c,1)-th / 2nd trigger (C16, heterogeneous targets).                 *)
(* State: callbacks per prototype (a sequence each), queued events         *)
(* [uid, proto].  TLC checks exactly-once / FIFO / untouched on all        *)
(* bounded histories and prints the transition cover.                      *)
(***************************************************************************)
EXTENDS Naturals, Integers, Sequences, FiniteSets, TLC, Json

CONSTANTS MaxCbs, MaxEnq, MaxInv, Ops, CbShapes, ArgShapes, PredShapes, Counts,
          MaxFilters, FilterProtos     \* heterogeneous filters: how many, of which prototypes
Protos == 1..5
Binds == <<1, 2, 3, 4, 5, 2, 1, 2, 2>>           \* shapes 1..5: exact; 6: callable with (int) and (int,const TS&); 7: callable with anything;
                                                 \* 8: void(int) that enqueues one more (int) event per call (at most MaxListenerEnq per script)
                                                 \* 9: void(int) that throws every time it is called (C09): the listeners behind it do not run, the
                                                 \*    exception leaves the invocation / dispatch / processing call, which discards the events it had taken
MaxListenerEnq == 3
Accepts == <<1, 2, 2, 3, 4, 5, 2, 2>>               \* (), (int), (long), (TS), (Big), (int,TS), (char), (float: converts to int, another representation)
Callable == <<{1}, {2}, {3}, {4}, {5}, {2, 5}>>   \* predicates: bool(), bool(int), bool(const TS&), bool(const Big&), bool(int,const TS&), generic {(int), (int,const TS&)}

\* TLC configuration files cannot spell negative numbers: an element 100 + k of Counts stands for the trigger count -k
RealCount(c) == IF c >= 100 THEN 0 - (c - 100) ELSE c
VARIABLES lst, kind, pending, ncb, nuid, ninv, consumed, nle, flt, fkd, hist
vars == <<lst, kind, pending, ncb, nuid, ninv, consumed, nle, flt, fkd, hist>>
View == <<lst, kind, pending, ncb, nuid, ninv, consumed, nle, flt, fkd>>

Init == lst = [p \in Protos |-> <<>>] /\ kind = <<>> /\ pending = <<>> /\ ncb = 0 /\ nuid = 0 /\ ninv = 0 /\ consumed = {} /\ nle = 0 /\ flt = [p \in Protos |-> <<>>] /\ fkd = <<>> /\ hist = <<>>
H(op, a, b) == hist' = Append(hist, <<op, a, b>>)
InSeq(s, x) == \E i \in 1..Len(s) : s[i] = x
Pos(s, x) == CHOOSE i \in 1..Len(s) : s[i] = x
Without(s, x) == SelectSeq(s, LAMBDA y : y # x)
ProtoOf(h) == IF \E p \in Protos : InSeq(lst[p], h) THEN CHOOSE p \in Protos : InSeq(lst[p], h) ELSE 0

Plain == [k |-> "plain", left |-> 0]
PlainOf(k) == IF k = 8 THEN [k |-> "enq", left |-> 0] ELSE IF k = 9 THEN [k |-> "thr", left |-> 0] ELSE Plain
Ctr(c) == [k |-> "ctr", left |-> IF c < 1 THEN 1 ELSE c]
Cond == [k |-> "cond", left |-> 2]
Before(s, h, n) == IF InSeq(s, h) THEN SubSeq(s, 1, Pos(s, h) - 1) \o <<n>> \o SubSeq(s, Pos(s, h), Len(s)) ELSE Append(s, n)
\* the listeners one trigger reaches: all of the list, or up to and including the first one that throws
RECURSIVE Upto(_,_)
Upto(s, kd) == IF s = <<>> THEN <<>> ELSE IF kd[Head(s)].k = "thr" THEN <<Head(s)>> ELSE <<Head(s)>> \o Upto(Tail(s), kd)
Throws(p, ls, kd) == \E i \in 1..Len(ls[p]) : kd[ls[p][i]].k = "thr"
\* one trigger of prototype p: every self-removing listener it reaches counts down and detaches itself when it reaches zero
Trig(p, ls, kd) == LET S == {n \in 1..Len(kd) : InSeq(Upto(ls[p], kd), n) /\ kd[n].k \in {"ctr", "cond"}} IN
                   [ls |-> [ls EXCEPT ![p] = SelectSeq(@, LAMBDA x : x \notin S \/ kd[x].left > 1)],
                    kd |-> [n \in 1..Len(kd) |-> IF n \in S THEN [kd[n] EXCEPT !.left = @ - 1] ELSE kd[n]]]
\* enqueuing listeners of prototype p add one event each per trigger (while the script's budget lasts)
Enqueuers(p, ls, kd) == Cardinality({n \in 1..Len(kd) : InSeq(Upto(ls[p], kd), n) /\ kd[n].k = "enq"})
Min(a, b) == IF a < b THEN a ELSE b
RECURSIVE TrigAll(_,_,_,_)
TrigAll(ps, ls, kd, ne) == IF ps = <<>> THEN [ls |-> ls, kd |-> kd, ne |-> ne]
                           ELSE LET t == Trig(Head(ps), ls, kd)  ne2 == Min(MaxListenerEnq, ne + Enqueuers(Head(ps), ls, kd)) IN
                                IF Throws(Head(ps), ls, kd) THEN [ls |-> t.ls, kd |-> t.kd, ne |-> ne2]       \* the exception ends the whole call
                                ELSE TrigAll(Tail(ps), t.ls, t.kd, ne2)
AddNode(op, p, newseq, kd) == /\ op \in Ops /\ ncb < MaxCbs /\ lst' = [lst EXCEPT ![p] = newseq] /\ kind' = Append(kind, kd) /\ ncb' = ncb + 1
                              /\ UNCHANGED <<pending, nuid, ninv, consumed, nle, flt, fkd>>
OpAppend(k) == AddNode("al", Binds[k], Append(lst[Binds[k]], ncb + 1), PlainOf(k)) /\ H("al", k, 0)
OpPrepend(k) == AddNode("pl", Binds[k], <<ncb + 1>> \o lst[Binds[k]], PlainOf(k)) /\ H("pl", k, 0)
\* CounterRemover: append / prepend / insert-before forms; script items ac [k, c], pc [k, c], ic [k + 10h, c]
OpAppendCtr(k, c) == AddNode("ac", Binds[k], Append(lst[Binds[k]], ncb + 1), Ctr(c)) /\ H("ac", k, c)
OpPrependCtr(k, c) == AddNode("pc", Binds[k], <<ncb + 1>> \o lst[Binds[k]], Ctr(c)) /\ H("pc", k, c)
OpInsertCtr(k, h, c) == h \in 0..ncb /\ AddNode("ic", Binds[k], Before(lst[Binds[k]], h, ncb + 1), Ctr(c)) /\ H("ic", k + 10 * h, c)
\* ConditionalRemover (prototype 1 only): ak [0, 0], qk [0, 0], ik [0, h]
OpAppendCond == AddNode("ak", 1, Append(lst[1], ncb + 1), Cond) /\ H("ak", 0, 0)
OpPrependCond == AddNode("qk", 1, <<ncb + 1>> \o lst[1], Cond) /\ H("qk", 0, 0)
OpInsertCond(h) == h \in 0..ncb /\ AddNode("ik", 1, Before(lst[1], h, ncb + 1), Cond) /\ H("ik", 0, h)
\* insert before handle h: immediately before it when h is a live callback of the SAME prototype, else at the back of its own prototype's list
OpInsert(k, h) == /\ h \in 1..ncb /\ AddNode("il", Binds[k], Before(lst[Binds[k]], h, ncb + 1), PlainOf(k)) /\ H("il", k, h)
OpRemove(h) == /\ "rl" \in Ops /\ h \in 1..ncb /\ lst' = [p \in Protos |-> Without(lst[p], h)]
               /\ UNCHANGED <<kind, pending, ncb, nuid, ninv, consumed, nle, flt, fkd>> /\ H("rl", h, 0)
\* MixinHeterFilter (HeterEventDispatcher): a filter of prototype p (bool of the prototype's arguments as lvalues) with behaviour b:
\* 0 passes, 1 passes and adds 10 to an int argument (prototype 2), 2 rejects odd values; filters of other prototypes never see the dispatch
OpAppendFilter(p, b) == /\ "af" \in Ops /\ Len(fkd) < MaxFilters /\ flt' = [flt EXCEPT ![p] = Append(@, Len(fkd) + 1)] /\ fkd' = Append(fkd, b)
                        /\ UNCHANGED <<lst, kind, pending, ncb, nuid, ninv, consumed, nle>> /\ H("af", p, b)
OpRemoveFilter(f) == /\ "rf" \in Ops /\ f \in 1..Len(fkd) /\ flt' = [p \in Protos |-> Without(flt[p], f)]
                     /\ UNCHANGED <<lst, kind, pending, ncb, nuid, ninv, consumed, nle, fkd>> /\ H("rf", f, 0)
ProtosOf(evs) == [i \in 1..Len(evs) |-> evs[i].p]
\* the triggers ps happen one after the other; what stays queued is `rest`, the events enqueued by listeners go behind it
Fire(ps, rest) == LET t == TrigAll(ps, lst, kind, nle)  new == t.ne - nle IN
                  /\ lst' = t.ls /\ kind' = t.kd /\ nle' = t.ne /\ nuid' = nuid + new
                  /\ pending' = rest \o [i \in 1..new |-> [uid |-> nuid + i, p |-> 2, cv |-> 0]]
OpInvoke(a) == /\ "iv" \in Ops /\ ninv < MaxInv /\ ninv' = ninv + 1 /\ Fire(<<Accepts[a]>>, pending)
               /\ UNCHANGED <<ncb, consumed, flt, fkd>> /\ H("iv", a, 0)
\* (cv: the event was enqueued with an argument that CONVERTS to the prototype's parameter type - what the slot then holds is part of the
\* state, so that the cover also continues such histories: processIf after a converting enqueue, seed S93)
OpEnqueue(a) == /\ "nq" \in Ops /\ nuid < MaxEnq /\ pending' = Append(pending, [uid |-> nuid + 1, p |-> Accepts[a], cv |-> IF a \in {3, 7, 8} THEN a ELSE 0]) /\ nuid' = nuid + 1
                /\ UNCHANGED <<lst, kind, ncb, ninv, consumed, nle, flt, fkd>> /\ H("nq", a, 0)
OpProcess == /\ "pa" \in Ops /\ consumed' = consumed \cup {pending[i].uid : i \in 1..Len(pending)} /\ Fire(ProtosOf(pending), <<>>)
             /\ UNCHANGED <<ncb, ninv, flt, fkd>> /\ H("pa", 0, 0)
OpProcessOne == /\ "po" \in Ops
                /\ IF pending = <<>> THEN UNCHANGED <<pending, consumed, lst, kind, nuid, nle>>
                   ELSE consumed' = consumed \cup {Head(pending).uid} /\ Fire(<<Head(pending).p>>, Tail(pending))
                /\ UNCHANGED <<ncb, ninv, flt, fkd>> /\ H("po", 0, 0)
\* processIf with a predicate of shape s whose verdict is "uid is odd": the code runs one pass per callable prototype in list order and
\* returns after the first pass that dispatched something
RECURSIVE Passes(_,_)
Passes(ps, pend) == IF ps = <<>> THEN pend
                    ELSE LET p == Head(ps)
                             hit == {pend[i].uid : i \in {j \in 1..Len(pend) : pend[j].p = p /\ pend[j].uid % 2 = 1}} IN
                         IF hit # {} THEN SelectSeq(pend, LAMBDA e : e.uid \notin hit) ELSE Passes(Tail(ps), pend)
SortedSeq(S) == LET RECURSIVE F(_)
                    F(T) == IF T = {} THEN <<>> ELSE LET m == CHOOSE x \in T : \A y \in T : x <= y IN <<m>> \o F(T \ {m})
                IN F(S)
OpProcessIf(s) == /\ "pi" \in Ops
                  /\ LET rest0 == Passes(SortedSeq(Callable[s]), pending)
                         disp == SelectSeq(pending, LAMBDA e : \A i \in 1..Len(rest0) : rest0[i].uid # e.uid)
                         \* a throwing listener ends the call: everything the call had swapped out of the queue is discarded with it
                         rest == IF \E i \in 1..Len(disp) : Throws(disp[i].p, lst, kind) THEN <<>> ELSE rest0 IN
                     /\ consumed' = consumed \cup ({pending[i].uid : i \in 1..Len(pending)} \ {rest[i].uid : i \in 1..Len(rest)})
                     /\ Fire(ProtosOf(disp), rest)
                  /\ UNCHANGED <<ncb, ninv, flt, fkd>> /\ H("pi", s, 0)

Next == \/ \E k \in CbShapes : OpAppend(k) \/ OpPrepend(k) \/ \E h \in 1..MaxCbs : OpInsert(k, h)
        \/ \E k \in CbShapes \ {8, 9}, c0 \in Counts : LET c == RealCount(c0) IN OpAppendCtr(k, c) \/ OpPrependCtr(k, c) \/ \E h \in 0..MaxCbs : OpInsertCtr(k, h, c)
        \/ OpAppendCond \/ OpPrependCond \/ \E h \in 0..MaxCbs : OpInsertCond(h)
        \/ \E h \in 1..MaxCbs : OpRemove(h)
        \/ \E p \in FilterProtos, b \in 0..2 : OpAppendFilter(p, b)
        \/ \E f \in 1..MaxFilters : OpRemoveFilter(f)
        \/ \E a \in ArgShapes : OpInvoke(a) \/ OpEnqueue(a)
        \/ OpProcess \/ OpProcessOne \/ \E s \in PredShapes : OpProcessIf(s)
Emit == PrintT(ToJson(hist'))

\* every event is pending or consumed, never both; the queue keeps enqueue order
Ledger == /\ \A u \in 1..nuid : (u \in consumed) # (\E i \in 1..Len(pending) : pending[i].uid = u)
          /\ \A i, j \in 1..Len(pending) : i < j => pending[i].uid < pending[j].uid
\* a callback sits in exactly one prototype's list
OnePlace == \A h \in 1..ncb : Cardinality({p \in Protos : InSeq(lst[p], h)}) <= 1
\* C16: a self-removing listener that is still attached has triggers left
CtrLeft == \A n \in 1..ncb : (kind[n].k \in {"ctr", "cond"} /\ \E p \in Protos : InSeq(lst[p], n)) => kind[n].left >= 1
=============================================================================
