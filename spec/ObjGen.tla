------------------------------- MODULE ObjGen -------------------------------
(***************************************************************************)
(* Generator + reference model for C10: several dispatcher / queue objects *)
(* (homogeneous or heterogeneous) that are copy-constructed, copy-assigned,*)
(* move-constructed, move-assigned, swapped and destroyed, interleaved     *)
(* with listener / filter changes, dispatches and queue operations on      *)
(* sources and results.  Two channels per object: two event keys in the    *)
(* homogeneous worlds, two prototypes in the heterogeneous ones.           *)
(* The implementation-level hazards are modelled as explicit defects:      *)
(*   "uninit"  the copy/move constructors of the queues do not initialise  *)
(*             the two counters (D4): a new object's counters are whatever *)
(*             the storage held;                                           *)
(*   "share"   a copy shares (instead of cloning) the listener storage.    *)
(* With Defects = {} TLC checks Independent / FreshQueue on all bounded    *)
(* histories; the transition cover runs on the real classes.               *)
(***************************************************************************)
EXTENDS Naturals, Sequences, FiniteSets, TLC, Json

CONSTANTS MaxObjs, MaxCbs, MaxEnq, MaxFilters, Ops, Defects
Objs == 1..MaxObjs
Ch == 1..2
VARIABLES obj,      \* [Objs -> [alive, lst: [Ch -> Seq(cb)], flt: Seq(filter id), pend: Seq(channel), ec, nc]]  ec/nc: the two counters
          ncb, nflt, nenq, alias, bad, hist,
          hv        \* callback id -> the object whose handle (kept from the addition) still has a promised meaning, 0 = none
vars == <<obj, ncb, nflt, nenq, alias, bad, hist, hv>>
View == <<obj, ncb, nflt, nenq, alias, bad, hv>>
Fixed(d) == d \notin Defects

Dead == [alive |-> FALSE, lst |-> [c \in Ch |-> <<>>], flt |-> <<>>, pend |-> <<>>, ec |-> 0, nc |-> 0]
Fresh == [Dead EXCEPT !.alive = TRUE]
Init == /\ obj = [o \in Objs |-> IF o = 1 THEN Fresh ELSE Dead] /\ ncb = 0 /\ nflt = 0 /\ nenq = 0 /\ alias = {} /\ bad = "ok" /\ hist = <<>> /\ hv = <<>>

En(op) == op \in Ops
H(op, a, b) == hist' = Append(hist, <<op, a, b>>)
Alive(o) == obj[o].alive
\* objects that (defect "share") use the same listener storage as o
Peers(o) == {p \in Objs : <<o, p>> \in alias \/ <<p, o>> \in alias} \cup {o}
SetLst(o, c, s) == [p \in Objs |-> IF p \in Peers(o) THEN [obj[p] EXCEPT !.lst[c] = s] ELSE obj[p]]

OpAppend(o, c) == /\ En("al") /\ Alive(o) /\ ncb < MaxCbs /\ obj' = SetLst(o, c, Append(obj[o].lst[c], ncb + 1)) /\ ncb' = ncb + 1
                  /\ UNCHANGED <<nflt, nenq, alias, bad>> /\ H("al", o, c)
OpRemoveFirst(o, c) == /\ En("rl") /\ Alive(o) /\ obj[o].lst[c] # <<>> /\ obj' = SetLst(o, c, Tail(obj[o].lst[c]))
                       /\ UNCHANGED <<ncb, nflt, nenq, alias, bad>> /\ H("rl", o, c)
OpAppendFilter(o) == /\ En("af") /\ Alive(o) /\ nflt < MaxFilters /\ obj' = [obj EXCEPT ![o].flt = Append(@, nflt + 1)] /\ nflt' = nflt + 1
                     /\ UNCHANGED <<ncb, nenq, alias, bad>> /\ H("af", o, 0)
OpDispatch(o, c) == /\ En("dp") /\ Alive(o) /\ UNCHANGED <<obj, ncb, nflt, nenq, alias, bad>> /\ H("dp", o, c)
OpEnqueue(o, c) == /\ En("nq") /\ Alive(o) /\ nenq < MaxEnq /\ obj' = [obj EXCEPT ![o].pend = Append(@, c)] /\ nenq' = nenq + 1
                   /\ UNCHANGED <<ncb, nflt, alias, bad>> /\ H("nq", o, c)
OpProcess(o) == /\ En("pa") /\ Alive(o) /\ obj' = [obj EXCEPT ![o].pend = <<>>] /\ UNCHANGED <<ncb, nflt, nenq, alias, bad>> /\ H("pa", o, 0)
\* emptyQueue() = list empty && emptyCounter == 0 ; waitFor(0) = !emptyQueue() && notifyCounter == 0
OpEmptyQ(o) == /\ En("eq") /\ Alive(o)
               /\ bad' = IF bad = "ok" /\ ((obj[o].pend = <<>> /\ obj[o].ec = 0) # (obj[o].pend = <<>>)) THEN "empty-report" ELSE bad
               /\ UNCHANGED <<obj, ncb, nflt, nenq, alias>> /\ H("eq", o, 0)
OpWaitFor(o) == /\ En("wf") /\ Alive(o)
                /\ bad' = IF bad = "ok" /\ ((~(obj[o].pend = <<>> /\ obj[o].ec = 0) /\ obj[o].nc = 0) # (obj[o].pend # <<>>)) THEN "wait-report" ELSE bad
                /\ UNCHANGED <<obj, ncb, nflt, nenq, alias>> /\ H("wf", o, 0)

\* a constructed object's counters: zero when the constructor initialises them, else what the storage held (1 stands for garbage)
Ctr == IF Fixed("uninit") THEN {0} ELSE {0, 1}
OpCopyConstruct(s, t) == /\ En("cc") /\ Alive(s) /\ ~Alive(t)
                         /\ \E g \in Ctr : obj' = [obj EXCEPT ![t] = [alive |-> TRUE, lst |-> obj[s].lst, flt |-> obj[s].flt, pend |-> <<>>, ec |-> g, nc |-> g]]
                         /\ alias' = IF Fixed("share") THEN alias ELSE alias \cup {<<s, t>>}
                         /\ UNCHANGED <<ncb, nflt, nenq, bad>> /\ H("cc", s, t)
OpMoveConstruct(s, t) == /\ En("mc") /\ Alive(s) /\ ~Alive(t)
                         /\ \E g \in Ctr : obj' = [obj EXCEPT ![t] = [alive |-> TRUE, lst |-> obj[s].lst, flt |-> obj[s].flt, pend |-> <<>>, ec |-> g, nc |-> g],
                                                             ![s].lst = [c \in Ch |-> <<>>], ![s].flt = <<>>]
                         /\ UNCHANGED <<ncb, nflt, nenq, alias, bad>> /\ H("mc", s, t)
OpCopyAssign(s, t) == /\ En("ca") /\ Alive(s) /\ Alive(t)
                      /\ obj' = IF s = t THEN obj ELSE [obj EXCEPT ![t].lst = obj[s].lst, ![t].flt = obj[s].flt]
                      /\ UNCHANGED <<ncb, nflt, nenq, alias, bad>> /\ H("ca", s, t)
OpMoveAssign(s, t) == /\ En("ma") /\ Alive(s) /\ Alive(t) /\ s # t
                      /\ obj' = [obj EXCEPT ![t].lst = obj[s].lst, ![t].flt = obj[s].flt, ![s].lst = [c \in Ch |-> <<>>], ![s].flt = <<>>]
                      /\ UNCHANGED <<ncb, nflt, nenq, alias, bad>> /\ H("ma", s, t)
OpSwap(s, t) == /\ En("sw") /\ Alive(s) /\ Alive(t) /\ s <= t
                /\ obj' = [obj EXCEPT ![t].lst = obj[s].lst, ![s].lst = obj[t].lst]      \* listeners are exchanged (filters: as the code does, not)
                /\ UNCHANGED <<ncb, nflt, nenq, alias, bad>> /\ H("sw", s, t)
OpDestroy(o) == /\ En("de") /\ Alive(o) /\ \E p \in Objs : p # o /\ Alive(p)
                /\ obj' = [obj EXCEPT ![o] = Dead] /\ alias' = {x \in alias : x[1] # o /\ x[2] # o}
                /\ UNCHANGED <<ncb, nflt, nenq, bad>> /\ H("de", o, 0)

\* ---- handles kept from the addition (seed S123).  The statement promises: copy assignment from itself and swap with itself change nothing, a copy is
\* independent (the source's handles keep working on the source, whatever happens to the copy).  It does not say what the handles of an assignment's
\* destination, of a moved-from / moved-to object or of two swapped objects mean afterwards: those are retired here, the others must keep working.
Without(q, x) == SelectSeq(q, LAMBDA y : y # x)
OpRemoveStored(i) == /\ En("rh") /\ i \in 1..Len(hv) /\ hv[i] # 0 /\ Alive(hv[i])
                     /\ obj' = [p \in Objs |-> IF p \in Peers(hv[i]) THEN [obj[p] EXCEPT !.lst = [c \in Ch |-> Without(obj[p].lst[c], i)]] ELSE obj[p]]
                     /\ UNCHANGED <<ncb, nflt, nenq, alias, bad>> /\ H("rh", hv[i], i)
Retire(S) == [i \in 1..Len(hv) |-> IF hv[i] \in S THEN 0 ELSE hv[i]]
\* (configurations that do not generate "rh" do not track the handles: the state space stays what it was; every script's epilogue probes them anyway)
HvStep == LET h == hist'[Len(hist')] IN
          hv' = IF "rh" \notin Ops THEN hv ELSE
                CASE h[1] = "al" -> Append(hv, h[2])
                  [] h[1] = "ca" /\ h[2] # h[3] -> Retire({h[3]})
                  [] h[1] = "mc" -> Retire({h[2]})
                  [] h[1] = "ma" -> Retire({h[2], h[3]})
                  [] h[1] = "sw" /\ h[2] # h[3] -> Retire({h[2], h[3]})
                  [] h[1] = "de" -> Retire({h[2]})
                  [] OTHER -> hv

Next0 == \/ \E o \in Objs : \/ OpAppendFilter(o) \/ OpProcess(o) \/ OpEmptyQ(o) \/ OpWaitFor(o) \/ OpDestroy(o)
                           \/ \E c \in Ch : OpAppend(o, c) \/ OpRemoveFirst(o, c) \/ OpDispatch(o, c) \/ OpEnqueue(o, c)
                           \/ \E t \in Objs : OpCopyConstruct(o, t) \/ OpMoveConstruct(o, t) \/ OpCopyAssign(o, t) \/ OpMoveAssign(o, t) \/ OpSwap(o, t)
         \/ \E i \in 1..MaxCbs : OpRemoveStored(i)
Next == Next0 /\ HvStep
Emit == PrintT(ToJson(hist'))

Ok == bad = "ok"
\* independence: no two live objects share listener storage
Independent == alias = {}
\* a queue obtained by construction reports empty until something is enqueued into it, and its notification is enabled
FreshQueue == \A o \in Objs : Alive(o) => obj[o].ec = 0 /\ obj[o].nc = 0
=============================================================================
