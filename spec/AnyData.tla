------------------------------- MODULE AnyData -------------------------------
(***************************************************************************)
(* Generator + reference model for C17: eventpp::AnyData as a pure value   *)
(* container.  Up to MaxBoxes boxes (AnyData objects living in raw         *)
(* storage); a box is empty ("none"), holds an object with value val       *)
(* ("holds"), or keeps the object its content was moved out of             *)
(* ("movedfrom").  Operations (one script element <<op, a, b>> each):      *)
(*   <<"c", b, v>>   construct box b from a COPY of an object of value v   *)
(*                   (v odd: non-const lvalue, v even: const lvalue)       *)
(*   <<"r", b, v>>   construct box b from an RVALUE of value v             *)
(*   <<"m", s, t>>   move-construct box t from box s: t gets what s had,   *)
(*                   s keeps a moved-from object                           *)
(*   <<"g", b, 0>>   read box b through every accessor                     *)
(*   <<"d", b, 0>>   destroy box b                                         *)
(*   <<"q", v, w>>   queue round trip: EventQueue<int, void(const AnyData&)>*)
(*                   enqueue a value v (w = 0 from an lvalue, 1 from an    *)
(*                   rvalue, 2 from an AnyData rvalue), process, the       *)
(*                   listener reads it                                     *)
(* The size and the kind of the stored type are NOT a dimension of this    *)
(* model: the harness replays every script for every (size, kind).         *)
(* hops = how many AnyData moves the object went through (chains bounded   *)
(* by MaxMoves).  Ghost ledger: live = objects constructed and not yet     *)
(* destroyed; "every held object is destroyed exactly once" is             *)
(* Ledger /\ Ok.  Defect "relocate": the move forgets the source's object  *)
(* (bitwise relocation / nulling the source without destroying).           *)
(***************************************************************************)
EXTENDS Integers, Sequences, FiniteSets, TLC, Json

CONSTANTS MaxBoxes, Vals, QVals, MaxMoves, Ops, Defects
Boxes == 1..MaxBoxes
VARIABLES box,     \* [Boxes -> [state: "none"|"holds"|"movedfrom", val, hops]]
          live,    \* ghost: objects alive inside boxes
          bad, hist
vars == <<box, live, bad, hist>>
View == <<box, live, bad>>
Fixed(d) == d \notin Defects

None == [state |-> "none", val |-> 0, hops |-> 0]
Init == box = [b \in Boxes |-> None] /\ live = 0 /\ bad = "ok" /\ hist = <<>>

En(op) == op \in Ops
H(op, a, b) == hist' = Append(hist, <<op, a, b>>)
Full(b) == box[b].state # "none"
\* boxes are interchangeable: a new AnyData always goes to the lowest free box
LowestFree(b) == ~Full(b) /\ \A c \in Boxes : c < b => Full(c)

OpCopyIn(b, v) == /\ En("c") /\ LowestFree(b) /\ box' = [box EXCEPT ![b] = [state |-> "holds", val |-> v, hops |-> 0]]
                  /\ live' = live + 1 /\ UNCHANGED bad /\ H("c", b, v)
OpMoveIn(b, v) == /\ En("r") /\ LowestFree(b) /\ box' = [box EXCEPT ![b] = [state |-> "holds", val |-> v, hops |-> 0]]
                  /\ live' = live + 1 /\ UNCHANGED bad /\ H("r", b, v)
\* the destination gets what the source had (a moved-from object moves as a moved-from object); the source keeps a moved-from object
OpMove(s, t) == /\ En("m") /\ Full(s) /\ LowestFree(t) /\ box[s].hops < MaxMoves
                /\ box' = [box EXCEPT ![t] = [box[s] EXCEPT !.hops = @ + 1],
                                      ![s] = IF Fixed("relocate") THEN [box[s] EXCEPT !.state = "movedfrom"] ELSE None]
                /\ live' = live + 1 /\ UNCHANGED bad /\ H("m", s, t)
OpRead(b) == /\ En("g") /\ Full(b) /\ UNCHANGED <<box, live, bad>> /\ H("g", b, 0)
OpDestroy(b) == /\ En("d") /\ Full(b) /\ box' = [box EXCEPT ![b] = None]
                /\ live' = live - 1 /\ bad' = (IF live = 0 THEN "destroyed-twice" ELSE bad) /\ H("d", b, 0)
\* the queue owns its copy from enqueue to the end of process: nothing is left of it afterwards
OpQueue(v, w) == /\ En("q") /\ UNCHANGED <<box, live, bad>> /\ H("q", v, w)

Next == \/ \E b \in Boxes : \/ OpRead(b) \/ OpDestroy(b)
                            \/ \E v \in Vals : OpCopyIn(b, v) \/ OpMoveIn(b, v)
                            \/ \E t \in Boxes : OpMove(b, t)
        \/ \E v \in QVals, w \in 0..2 : OpQueue(v, w)
Emit == PrintT(ToJson(hist'))

Ok == bad = "ok"
\* every object constructed inside a box is alive exactly as long as its box: destroyed once, with the box, never earlier, never twice
Ledger == live = Cardinality({b \in Boxes : Full(b)})
\* move chains stay within the bound
ChainBound == \A b \in Boxes : box[b].hops <= MaxMoves
=============================================================================
