----------------------------- MODULE ConcSlots -----------------------------
(***************************************************************************)
(* Threads x micro-steps model of the SLOT protocol of eventqueue.h /        *)
(* hetereventqueue.h, the part ConcQueue.tla abstracts away: events live in *)
(* BufferedItem slots; a slot is in exactly one of queueList (under          *)
(* queueListMutex), freeList (under freeListMutex), the tempList / idleList *)
(* of a running call, or the private hand of an enqueue; enqueue re-uses a   *)
(* recycled slot through a double-checked pop (unlocked freeList.empty(),   *)
(* lock, check again) or allocates one, fills it (set() only on an empty    *)
(* slot) and splices it to the back; consumers take slots out under          *)
(* queueListMutex (processOne / takeEvent re-check emptiness under the       *)
(* lock), dispatch / move out / discard the content, clear the slot and      *)
(* only then recycle it under freeListMutex.                                 *)
(* Ghost: content of every slot, status of every event, and - like the       *)
(* harness's lockset rule - which mutex the thread holds at every access of *)
(* the two lists.                                                            *)
(* Defects (each is a change that compiles and reads plausibly):             *)
(*   "no_recheck_free"  the pop from freeList trusts the unlocked pre-check *)
(*   "no_recheck_queue" processOne / takeEvent trust the unlocked pre-check *)
(*   "recycle_wrong_mutex" takeEvent recycles under queueListMutex           *)
(*   "recycle_before_clear" process recycles the batch before clearing it    *)
(***************************************************************************)
EXTENDS Naturals, Sequences, FiniteSets, TLC
CONSTANTS Threads, Scenarios, Defects, MaxSlots
Fixed(d) == d \notin Defects
Slots == 1..MaxSlots
Events == 1..4
VARIABLES q, fl, content, nalloc, qm, fm, emptyCtr,           \* shared
          prog, ip, pc, tmp, idle, rd, hand,                  \* per thread
          status, bad, lastT                                  \* ghost
vars == <<q, fl, content, nalloc, qm, fm, emptyCtr, prog, ip, pc, tmp, idle, rd, hand, status, bad, lastT>>
Sh == <<q, fl, content, nalloc, qm, fm, emptyCtr>>
Loc == <<tmp, idle, rd, hand>>

Init == /\ q = <<>> /\ fl = <<>> /\ content = [s \in Slots |-> 0] /\ nalloc = 0 /\ qm = 0 /\ fm = 0 /\ emptyCtr = 0
        /\ prog \in Scenarios /\ ip = [t \in Threads |-> 1] /\ pc = [t \in Threads |-> "idle"]
        /\ tmp = [t \in Threads |-> <<>>] /\ idle = [t \in Threads |-> <<>>] /\ rd = [t \in Threads |-> <<>>] /\ hand = [t \in Threads |-> 0]
        /\ status = [e \in Events |-> "new"] /\ bad = "ok" /\ lastT = 0
Op(t) == prog[t][ip[t]]
HasOp(t) == ip[t] <= Len(prog[t])
Goto(t, l) == pc' = [pc EXCEPT ![t] = l]
Done(t) == pc' = [pc EXCEPT ![t] = "idle"] /\ ip' = [ip EXCEPT ![t] = @ + 1]
Range(s) == {s[i] : i \in 1..Len(s)}
Flag(cond, what) == bad' = IF cond /\ bad = "ok" THEN what ELSE bad

Start(t) ==
  /\ pc[t] = "idle" /\ HasOp(t)
  /\ Goto(t, CASE Op(t).k = "enq" -> "f_pre" [] Op(t).k = "process" -> "p_pre" [] Op(t).k = "processOne" -> "p_pre"
               [] Op(t).k = "take" -> "t_pre" [] Op(t).k = "clear" -> "c_pre" [] Op(t).k = "processIf" -> "p_pre")
  /\ UNCHANGED <<q, fl, content, nalloc, qm, fm, emptyCtr, prog, ip, tmp, idle, rd, hand, status, bad>>

\* ---- enqueue(e): if(! freeList.empty()) { lock freeListMutex; if(! freeList.empty()) take its front }; if none: new slot; set; lock queueListMutex; splice back
FPre(t) == /\ pc[t] = "f_pre" /\ Goto(t, IF fl = <<>> THEN "alloc" ELSE "f_lock")
           /\ UNCHANGED Sh /\ UNCHANGED Loc /\ UNCHANGED <<prog, ip, status, bad>>
FLock(t) == /\ pc[t] = "f_lock" /\ fm = 0 /\ fm' = t /\ Goto(t, "f_cs")
            /\ UNCHANGED <<q, fl, content, nalloc, qm, emptyCtr, prog, ip, status, bad>> /\ UNCHANGED Loc
FCs(t) == /\ pc[t] = "f_cs" /\ fm = t /\ fm' = 0
          /\ IF fl # <<>> THEN hand' = [hand EXCEPT ![t] = Head(fl)] /\ fl' = Tail(fl) /\ UNCHANGED bad
             ELSE /\ UNCHANGED <<hand, fl>>
                  /\ Flag(~Fixed("no_recheck_free"), "pop-from-empty-freelist")      \* splice(begin()) of an empty std::list
          /\ Goto(t, "alloc") /\ UNCHANGED <<q, content, nalloc, qm, emptyCtr, prog, ip, tmp, idle, rd, status>>
Alloc(t) == /\ pc[t] = "alloc"
            /\ IF hand[t] = 0 THEN nalloc < MaxSlots /\ nalloc' = nalloc + 1 /\ hand' = [hand EXCEPT ![t] = nalloc + 1]
               ELSE UNCHANGED <<nalloc, hand>>
            /\ Goto(t, "set") /\ UNCHANGED <<q, fl, content, qm, fm, emptyCtr, prog, ip, tmp, idle, rd, status, bad>>
SetSlot(t) == /\ pc[t] = "set" /\ Flag(content[hand[t]] # 0, "set-on-occupied-slot")
              /\ content' = [content EXCEPT ![hand[t]] = Op(t).e] /\ Goto(t, "e_lock")
              /\ UNCHANGED <<q, fl, nalloc, qm, fm, emptyCtr, prog, ip, status>> /\ UNCHANGED Loc
ELock(t) == /\ pc[t] = "e_lock" /\ qm = 0 /\ qm' = t /\ Goto(t, "e_cs")
            /\ UNCHANGED <<q, fl, content, nalloc, fm, emptyCtr, prog, ip, status, bad>> /\ UNCHANGED Loc
ECs(t) == /\ pc[t] = "e_cs" /\ qm = t /\ qm' = 0 /\ q' = Append(q, hand[t]) /\ hand' = [hand EXCEPT ![t] = 0]
          /\ status' = [status EXCEPT ![Op(t).e] = "pending"] /\ Done(t)
          /\ UNCHANGED <<fl, content, nalloc, fm, emptyCtr, prog, tmp, idle, rd, bad>>

\* ---- process / processOne / processIf: pre-check; guard++; lock; swap or splice the front out; unlock; per slot: dispatch (or keep), clear;
\*      put the kept ones back in front; recycle the finished ones under freeListMutex; guard--
PPre(t) == /\ pc[t] = "p_pre" /\ IF q = <<>> THEN Done(t) ELSE (Goto(t, "p_inc") /\ UNCHANGED ip)
           /\ UNCHANGED Sh /\ UNCHANGED Loc /\ UNCHANGED <<prog, status, bad>>
PInc(t) == /\ pc[t] = "p_inc" /\ emptyCtr' = emptyCtr + 1 /\ Goto(t, "p_lock")
           /\ UNCHANGED <<q, fl, content, nalloc, qm, fm, prog, ip, status, bad>> /\ UNCHANGED Loc
PLock(t) == /\ pc[t] = "p_lock" /\ qm = 0 /\ qm' = t /\ Goto(t, "p_cs")
            /\ UNCHANGED <<q, fl, content, nalloc, fm, emptyCtr, prog, ip, status, bad>> /\ UNCHANGED Loc
PCs(t) == /\ pc[t] = "p_cs" /\ qm = t /\ qm' = 0
          /\ IF Op(t).k = "processOne"
             THEN IF q # <<>> THEN tmp' = [tmp EXCEPT ![t] = <<Head(q)>>] /\ q' = Tail(q) /\ UNCHANGED bad
                  ELSE UNCHANGED <<tmp, q>> /\ Flag(~Fixed("no_recheck_queue"), "splice-from-empty-queue")
             ELSE tmp' = [tmp EXCEPT ![t] = q] /\ q' = <<>> /\ UNCHANGED bad
          /\ status' = [e \in Events |-> IF \E s \in Range(tmp'[t]) : content[s] = e THEN "held" ELSE status[e]]
          /\ Goto(t, IF Fixed("recycle_before_clear") \/ Op(t).k # "process" THEN "p_loop" ELSE "x_lock")
          /\ UNCHANGED <<fl, content, nalloc, fm, emptyCtr, prog, ip, idle, rd, hand>>
\* (defect recycle_before_clear: the batch goes to the free list first and is dispatched / cleared from there)
XLock(t) == /\ pc[t] = "x_lock" /\ fm = 0 /\ fm' = t /\ Goto(t, "x_cs")
            /\ UNCHANGED <<q, fl, content, nalloc, qm, emptyCtr, prog, ip, status, bad>> /\ UNCHANGED Loc
XCs(t) == /\ pc[t] = "x_cs" /\ fm = t /\ fm' = 0 /\ fl' = fl \o tmp[t] /\ Goto(t, "x_loop")
          /\ UNCHANGED <<q, content, nalloc, qm, emptyCtr, prog, ip, status, bad>> /\ UNCHANGED Loc
XLoop(t) == /\ pc[t] = "x_loop"
            /\ IF tmp[t] = <<>> THEN Goto(t, "p_dec") /\ UNCHANGED <<tmp, content, status, bad>>
               ELSE LET s == Head(tmp[t]) e == content[s] IN
                    /\ Flag(e = 0 \/ (e # 0 /\ status[e] # "held"), "dispatch-of-empty-or-foreign-slot")
                    /\ status' = IF e # 0 THEN [status EXCEPT ![e] = "dispatched"] ELSE status
                    /\ content' = [content EXCEPT ![s] = 0] /\ tmp' = [tmp EXCEPT ![t] = Tail(@)] /\ UNCHANGED pc
            /\ UNCHANGED <<q, fl, nalloc, qm, fm, emptyCtr, prog, ip, idle, rd, hand>>
PLoop(t) ==
  /\ pc[t] = "p_loop"
  /\ IF tmp[t] = <<>>
     THEN /\ Goto(t, IF rd[t] # <<>> THEN "pb_lock" ELSE IF idle[t] # <<>> THEN "r_lock" ELSE "p_dec")
          /\ UNCHANGED <<tmp, idle, rd, content, status, bad>>
     ELSE LET s == Head(tmp[t]) e == content[s] IN
          IF Op(t).k = "processIf" /\ e # 0 /\ e % 2 = 0
          THEN /\ rd' = [rd EXCEPT ![t] = Append(@, s)] /\ tmp' = [tmp EXCEPT ![t] = Tail(@)] /\ UNCHANGED <<pc, idle, content, status, bad>>
          ELSE /\ Flag(e = 0 \/ (e # 0 /\ status[e] # "held"), "dispatch-of-empty-or-foreign-slot")
               /\ status' = IF e # 0 THEN [status EXCEPT ![e] = "dispatched"] ELSE status
               /\ content' = [content EXCEPT ![s] = 0]          \* item.clear() right after the dispatch
               /\ idle' = [idle EXCEPT ![t] = Append(@, s)] /\ tmp' = [tmp EXCEPT ![t] = Tail(@)] /\ UNCHANGED <<pc, rd>>
  /\ UNCHANGED <<q, fl, nalloc, qm, fm, emptyCtr, prog, ip, hand>>
PbLock(t) == /\ pc[t] = "pb_lock" /\ qm = 0 /\ qm' = t /\ Goto(t, "pb_cs")
             /\ UNCHANGED <<q, fl, content, nalloc, fm, emptyCtr, prog, ip, status, bad>> /\ UNCHANGED Loc
PbCs(t) == /\ pc[t] = "pb_cs" /\ qm = t /\ qm' = 0 /\ q' = rd[t] \o q /\ rd' = [rd EXCEPT ![t] = <<>>]
           /\ status' = [e \in Events |-> IF \E s \in Range(rd[t]) : content[s] = e THEN "pending" ELSE status[e]]
           /\ Goto(t, IF idle[t] # <<>> THEN "r_lock" ELSE "p_dec")
           /\ UNCHANGED <<fl, content, nalloc, fm, emptyCtr, prog, ip, tmp, idle, hand, bad>>
\* ---- recycle (shared by every consumer): lock freeListMutex; freeList.splice(end, finished slots); unlock
WrongMutex(t) == ~Fixed("recycle_wrong_mutex") /\ Op(t).k = "take"
RLock(t) == /\ pc[t] = "r_lock"
            /\ IF WrongMutex(t) THEN qm = 0 /\ qm' = t /\ UNCHANGED fm ELSE fm = 0 /\ fm' = t /\ UNCHANGED qm
            /\ Goto(t, "r_cs") /\ UNCHANGED <<q, fl, content, nalloc, emptyCtr, prog, ip, status, bad>> /\ UNCHANGED Loc
RCs(t) == /\ pc[t] = "r_cs"
          /\ IF WrongMutex(t) THEN qm = t /\ qm' = 0 /\ UNCHANGED fm ELSE fm = t /\ fm' = 0 /\ UNCHANGED qm
          /\ Flag(fm' # 0 \/ fm # t, "freelist-touched-without-its-mutex")          \* the lockset rule, at design level
          /\ fl' = fl \o idle[t] /\ idle' = [idle EXCEPT ![t] = <<>>]
          /\ IF Op(t).k \in {"take", "clear"} THEN Done(t) ELSE (Goto(t, "p_dec") /\ UNCHANGED ip)
          /\ UNCHANGED <<q, content, nalloc, emptyCtr, prog, tmp, rd, hand, status>>
PDec(t) == /\ pc[t] = "p_dec" /\ emptyCtr' = emptyCtr - 1 /\ Done(t)
           /\ UNCHANGED <<q, fl, content, nalloc, qm, fm, prog, status, bad>> /\ UNCHANGED Loc
\* ---- takeEvent: pre-check; lock; if(! empty) splice front out; unlock; move the content out; clear; recycle
TPre(t) == /\ pc[t] = "t_pre" /\ IF q = <<>> THEN Done(t) ELSE (Goto(t, "t_lock") /\ UNCHANGED ip)
           /\ UNCHANGED Sh /\ UNCHANGED Loc /\ UNCHANGED <<prog, status, bad>>
TLock(t) == /\ pc[t] = "t_lock" /\ qm = 0 /\ qm' = t /\ Goto(t, "t_cs")
            /\ UNCHANGED <<q, fl, content, nalloc, fm, emptyCtr, prog, ip, status, bad>> /\ UNCHANGED Loc
TCs(t) == /\ pc[t] = "t_cs" /\ qm = t /\ qm' = 0
          /\ IF q # <<>> THEN /\ tmp' = [tmp EXCEPT ![t] = <<Head(q)>>] /\ q' = Tail(q) /\ UNCHANGED bad
                              /\ status' = [status EXCEPT ![content[Head(q)]] = "held"] /\ Goto(t, "t_move") /\ UNCHANGED ip
             ELSE /\ UNCHANGED <<tmp, q, status>> /\ Flag(~Fixed("no_recheck_queue"), "splice-from-empty-queue") /\ Done(t)
          /\ UNCHANGED <<fl, content, nalloc, fm, emptyCtr, prog, idle, rd, hand>>
TMove(t) == /\ pc[t] = "t_move"
            /\ LET s == Head(tmp[t]) e == content[s] IN
               /\ Flag(e = 0 \/ (e # 0 /\ status[e] # "held"), "take-of-empty-or-foreign-slot")
               /\ status' = IF e # 0 THEN [status EXCEPT ![e] = "taken"] ELSE status
               /\ content' = [content EXCEPT ![s] = 0] /\ idle' = [idle EXCEPT ![t] = <<s>>] /\ tmp' = [tmp EXCEPT ![t] = <<>>]
            /\ Goto(t, "r_lock") /\ UNCHANGED <<q, fl, nalloc, qm, fm, emptyCtr, prog, ip, rd, hand>>
\* ---- clearEvents: pre-check; lock; swap out; unlock; clear every slot; recycle
CPre(t) == /\ pc[t] = "c_pre" /\ IF q = <<>> THEN Done(t) ELSE (Goto(t, "c_lock") /\ UNCHANGED ip)
           /\ UNCHANGED Sh /\ UNCHANGED Loc /\ UNCHANGED <<prog, status, bad>>
CLock(t) == /\ pc[t] = "c_lock" /\ qm = 0 /\ qm' = t /\ Goto(t, "c_cs")
            /\ UNCHANGED <<q, fl, content, nalloc, fm, emptyCtr, prog, ip, status, bad>> /\ UNCHANGED Loc
CCs(t) == /\ pc[t] = "c_cs" /\ qm = t /\ qm' = 0 /\ tmp' = [tmp EXCEPT ![t] = q] /\ q' = <<>>
          /\ status' = [e \in Events |-> IF \E s \in Range(q) : content[s] = e THEN "held" ELSE status[e]]
          /\ Goto(t, "c_loop") /\ UNCHANGED <<fl, content, nalloc, fm, emptyCtr, prog, ip, idle, rd, hand, bad>>
CLoop(t) == /\ pc[t] = "c_loop"
            /\ IF tmp[t] = <<>> THEN (IF idle[t] # <<>> THEN Goto(t, "r_lock") /\ UNCHANGED ip ELSE Done(t)) /\ UNCHANGED <<tmp, idle, content, status, bad>>
               ELSE LET s == Head(tmp[t]) e == content[s] IN
                    /\ Flag(e = 0 \/ (e # 0 /\ status[e] # "held"), "clear-of-empty-or-foreign-slot")
                    /\ status' = IF e # 0 THEN [status EXCEPT ![e] = "cleared"] ELSE status
                    /\ content' = [content EXCEPT ![s] = 0] /\ idle' = [idle EXCEPT ![t] = Append(@, s)] /\ tmp' = [tmp EXCEPT ![t] = Tail(@)]
                    /\ UNCHANGED <<pc, ip>>
            /\ UNCHANGED <<q, fl, nalloc, qm, fm, emptyCtr, prog, rd, hand>>

Step(t) == Start(t) \/ FPre(t) \/ FLock(t) \/ FCs(t) \/ Alloc(t) \/ SetSlot(t) \/ ELock(t) \/ ECs(t)
           \/ PPre(t) \/ PInc(t) \/ PLock(t) \/ PCs(t) \/ PLoop(t) \/ PbLock(t) \/ PbCs(t) \/ RLock(t) \/ RCs(t) \/ PDec(t)
           \/ XLock(t) \/ XCs(t) \/ XLoop(t)
           \/ TPre(t) \/ TLock(t) \/ TCs(t) \/ TMove(t) \/ CPre(t) \/ CLock(t) \/ CCs(t) \/ CLoop(t)
Next == (\E t \in Threads : Step(t) /\ lastT' = t) /\ UNCHANGED prog

\* ---- properties
Ledger == bad = "ok"
Count(s, x) == Cardinality({i \in 1..Len(s) : s[i] = x})
Places(s) == Count(q, s) + Count(fl, s) + Cardinality({t \in Threads : hand[t] = s})
             + Cardinality({<<t, i>> \in Threads \X (1..MaxSlots) : i <= Len(tmp[t]) /\ tmp[t][i] = s})
             + Cardinality({<<t, i>> \in Threads \X (1..MaxSlots) : i <= Len(idle[t]) /\ idle[t][i] = s})
             + Cardinality({<<t, i>> \in Threads \X (1..MaxSlots) : i <= Len(rd[t]) /\ rd[t][i] = s})
\* every allocated slot is in exactly one place (C06: "an event is in exactly one list at a time")
SlotOnePlace == \A s \in Slots : Places(s) = (IF s <= nalloc THEN 1 ELSE 0)
\* slots are cleared before they are recycled; a queued slot holds a pending event; no event sits in two slots
FreeSlotsEmpty == \A i \in 1..Len(fl) : content[fl[i]] = 0
QueuedSlotsFull == \A i \in 1..Len(q) : content[q[i]] # 0 /\ status[content[q[i]]] = "pending"
EventOnePlace == \A s1, s2 \in Slots : (s1 # s2 /\ content[s1] # 0) => content[s1] # content[s2]
AllDone == \A t \in Threads : pc[t] = "idle" /\ ~HasOp(t)
\* at rest: every event that was enqueued is pending in the queue or was consumed exactly once; the guard counter is back to zero;
\* every slot is in the queue or in the free list
AtRest == AllDone => /\ emptyCtr = 0 /\ qm = 0 /\ fm = 0
                     /\ \A e \in Events : status[e] \in {"new", "pending", "dispatched", "taken", "cleared"}
                     /\ \A s \in 1..nalloc : Count(q, s) + Count(fl, s) = 1
\* recycling works: never more slots than enqueue operations in the scenario
NumEnq == Cardinality({<<t, i>> \in Threads \X (1..8) : i <= Len(prog[t]) /\ prog[t][i].k = "enq"})
SlotsBounded == nalloc <= NumEnq
NoDeadlock == AllDone \/ ENABLED Next
=============================================================================
