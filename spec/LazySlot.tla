------------------------------ MODULE LazySlot ------------------------------
(***************************************************************************)
(* Threads x micro-steps model of HeterCallbackList::doGetCallbackList: the  *)
(* per-prototype callback list is created lazily by whichever thread uses   *)
(* the prototype first - unlocked look at the slot, lock                    *)
(* callbackListListMutex, look again, create, unlock - and every operation  *)
(* (append, remove, invoke) then works on the list the slot points to.  The *)
(* inner lists are the objects verified by ConcCL.tla; here one operation    *)
(* on an inner list is one atomic step (they have their own mutex).          *)
(* Ghost: the abstract content of every prototype's list, updated when an    *)
(* append / remove takes effect.  Linearizable: an invocation that begins    *)
(* after an append ended reaches that callback; a remove of a callback whose *)
(* append ended succeeds; nothing is lost when all threads are done.         *)
(* Defect "no_recheck": the list is allocated before the lock and stored     *)
(* unconditionally (seed S63) - the list another thread already appended to  *)
(* is replaced.                                                              *)
(***************************************************************************)
EXTENDS Naturals, Sequences, FiniteSets, TLC
CONSTANTS Threads, Scenarios, Defects, Protos
Fixed(d) == d \notin Defects
MaxLists == 6
VARIABLES slot, lists, nlists, mtx,            \* slot[p] = id of the list (0 = none yet); lists[id] = callbacks
          prog, ip, pc, mine,                  \* mine[t] = the list id the thread obtained / allocated
          abs, bad
vars == <<slot, lists, nlists, mtx, prog, ip, pc, mine, abs, bad>>
Init == /\ slot = [p \in Protos |-> 0] /\ lists = [i \in 1..MaxLists |-> <<>>] /\ nlists = 0 /\ mtx = 0
        /\ prog \in Scenarios /\ ip = [t \in Threads |-> 1] /\ pc = [t \in Threads |-> "idle"] /\ mine = [t \in Threads |-> 0]
        /\ abs = [p \in Protos |-> <<>>] /\ bad = "ok"
Op(t) == prog[t][ip[t]]
HasOp(t) == ip[t] <= Len(prog[t])
Goto(t, l) == pc' = [pc EXCEPT ![t] = l]
Done(t) == pc' = [pc EXCEPT ![t] = "idle"] /\ ip' = [ip EXCEPT ![t] = @ + 1]
InSeq(s, x) == \E i \in 1..Len(s) : s[i] = x

\* every operation starts with doGetCallbackList (remove reads the slot directly: a handle's list exists already)
Start(t) == /\ pc[t] = "idle" /\ HasOp(t)
            /\ Goto(t, IF Op(t).k = "remove" THEN "act" ELSE "g_peek")
            /\ mine' = [mine EXCEPT ![t] = IF Op(t).k = "remove" THEN slot[Op(t).p] ELSE 0]
            /\ UNCHANGED <<slot, lists, nlists, mtx, prog, ip, abs, bad>>
GPeek(t) == /\ pc[t] = "g_peek"
            /\ IF slot[Op(t).p] # 0 THEN Goto(t, "g_ret") /\ UNCHANGED <<nlists, mine>>
               ELSE IF Fixed("no_recheck") THEN Goto(t, "g_lock") /\ UNCHANGED <<nlists, mine>>
               ELSE nlists' = nlists + 1 /\ mine' = [mine EXCEPT ![t] = nlists + 1] /\ Goto(t, "g_lock")     \* allocate before the lock
            /\ UNCHANGED <<slot, lists, mtx, prog, ip, abs, bad>>
GLock(t) == pc[t] = "g_lock" /\ mtx = 0 /\ mtx' = t /\ Goto(t, "g_cs") /\ UNCHANGED <<slot, lists, nlists, prog, ip, mine, abs, bad>>
GCs(t) == /\ pc[t] = "g_cs" /\ mtx = t /\ mtx' = 0
          /\ IF Fixed("no_recheck")
             THEN IF slot[Op(t).p] = 0 THEN nlists' = nlists + 1 /\ slot' = [slot EXCEPT ![Op(t).p] = nlists + 1]
                  ELSE UNCHANGED <<nlists, slot>>
             ELSE slot' = [slot EXCEPT ![Op(t).p] = mine[t]] /\ UNCHANGED nlists                              \* store unconditionally
          /\ Goto(t, "g_ret") /\ UNCHANGED <<lists, prog, ip, mine, abs, bad>>
GRet(t) == /\ pc[t] = "g_ret" /\ mine' = [mine EXCEPT ![t] = slot[Op(t).p]] /\ Goto(t, "act")
           /\ UNCHANGED <<slot, lists, nlists, mtx, prog, ip, abs, bad>>
\* the operation proper, on the list the thread holds a shared_ptr to
Act(t) ==
  /\ pc[t] = "act"
  /\ LET p == Op(t).p  l == mine[t] IN
     CASE Op(t).k = "append" ->
            /\ lists' = [lists EXCEPT ![l] = Append(@, Op(t).c)] /\ abs' = [abs EXCEPT ![p] = Append(@, Op(t).c)] /\ UNCHANGED bad
       [] Op(t).k = "remove" ->
            LET did == l # 0 /\ InSeq(lists[l], Op(t).c) IN
            /\ lists' = IF l # 0 THEN [lists EXCEPT ![l] = SelectSeq(@, LAMBDA x : x # Op(t).c)] ELSE lists
            /\ bad' = IF did # InSeq(abs[p], Op(t).c) /\ bad = "ok" THEN "remove-result" ELSE bad
            /\ abs' = [abs EXCEPT ![p] = SelectSeq(@, LAMBDA x : x # Op(t).c)]
       [] Op(t).k = "invoke" ->
            /\ bad' = IF lists[l] # abs[p] /\ bad = "ok" THEN "invoke-misses-or-adds-callbacks" ELSE bad
            /\ UNCHANGED <<lists, abs>>
  /\ Done(t) /\ UNCHANGED <<slot, nlists, mtx, prog, mine>>
Step(t) == Start(t) \/ GPeek(t) \/ GLock(t) \/ GCs(t) \/ GRet(t) \/ Act(t)
Next == (\E t \in Threads : Step(t)) /\ UNCHANGED prog
Linearizable == bad = "ok"
AllDone == \A t \in Threads : pc[t] = "idle" /\ ~HasOp(t)
NothingLost == AllDone => \A p \in Protos : (IF slot[p] = 0 THEN <<>> ELSE lists[slot[p]]) = abs[p]
OneListPerProto == nlists <= Cardinality(Protos) \/ ~Fixed("no_recheck")
NoDeadlock == AllDone \/ ENABLED Next
=============================================================================
