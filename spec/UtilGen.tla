------------------------------ MODULE UtilGen ------------------------------
(***************************************************************************)
(* Reference model and script generator for the eventutil.h helpers        *)
(* (hasListener, hasAnyListener, removeListener by callback VALUE) over a   *)
(* callback list that may hold the same comparable callback several times  *)
(* (C01: "the hasListener/removeListener helpers always describe that same *)
(* content").  The list is a sequence of nodes, each carrying a callback    *)
(* identity; a duplicate is a new node with the identity of an earlier one. *)
(* removeListener takes out exactly one callback - the first node whose     *)
(* callback equals the argument - and reports whether it did; hasListener   *)
(* says whether some node holds an equal callback.  Defect "remove_all":    *)
(* removeListener removes every equal callback (seed S72).                  *)
(* Script ops (harness/cl_interp.cpp): a / p / i = append / prepend /        *)
(* insert-before with b = identity to duplicate (0 = a fresh callback),     *)
(* r = remove(handle), hl / rl = helpers by identity, ha, v, f.             *)
(***************************************************************************)
EXTENDS Naturals, Sequences, FiniteSets, TLC, Json
CONSTANTS MaxNodes, Defects
Fixed(d) == d \notin Defects
VARIABLES list,    \* Seq of node ids, in list order
          idOf,    \* Seq: node -> callback identity
          bad, hist
vars == <<list, idOf, bad, hist>>
View == <<list, idOf, bad>>
Init == list = <<>> /\ idOf = <<>> /\ bad = "ok" /\ hist = <<<<"k", 1, 100>>>>
H(op, a, b) == hist' = Append(hist, <<op, a, b>>)
N == Len(idOf)
Ids == {idOf[n] : n \in 1..N}
InList(n) == \E i \in 1..Len(list) : list[i] = n
With(c) == SelectSeq(list, LAMBDA n : idOf[n] = c)
NewId(c) == IF c = 0 THEN N + 1 ELSE c
Add(c, newlist) == N < MaxNodes /\ (c = 0 \/ c \in Ids) /\ list' = newlist /\ idOf' = Append(idOf, NewId(c)) /\ UNCHANGED bad
OpAppend(c) == Add(c, Append(list, N + 1)) /\ H("a", 1, c)
OpPrepend(c) == Add(c, <<N + 1>> \o list) /\ H("p", 1, c)
\* insert a fresh callback before handle h (at the back when h is no longer in the list)
OpInsert(h) == /\ h \in 1..N
               /\ Add(0, IF InList(h) THEN LET p == CHOOSE i \in 1..Len(list) : list[i] = h IN SubSeq(list, 1, p - 1) \o <<N + 1>> \o SubSeq(list, p, Len(list))
                         ELSE Append(list, N + 1))
               /\ H("i", 1, h)
OpRemove(h) == h \in 1..N /\ list' = SelectSeq(list, LAMBDA n : n # h) /\ UNCHANGED <<idOf, bad>> /\ H("r", 1, h)
OpHas(c) == c \in Ids /\ UNCHANGED <<list, idOf, bad>> /\ H("hl", 1, c)
OpHasAny == UNCHANGED <<list, idOf, bad>> /\ H("ha", 1, 0)
OpRemoveListener(c) ==
  /\ c \in Ids
  /\ LET w == With(c) IN
     list' = IF w = <<>> THEN list
             ELSE IF Fixed("remove_all") THEN SelectSeq(list, LAMBDA n : n # Head(w)) ELSE SelectSeq(list, LAMBDA n : idOf[n] # c)
  \* exactly one callback leaves the list per successful call (this is what the defect breaks)
  /\ bad' = IF bad = "ok" /\ Len(list') < Len(list) - 1 THEN "removeListener-took-more-than-one" ELSE bad
  /\ UNCHANGED idOf /\ H("rl", 1, c)
OpInvoke == UNCHANGED <<list, idOf, bad>> /\ H("v", 1, 7)
OpForEach == UNCHANGED <<list, idOf, bad>> /\ H("f", 1, 0)
Next == \/ \E c \in 0..MaxNodes : OpAppend(c) \/ OpPrepend(c) \/ OpHas(c) \/ OpRemoveListener(c)
        \/ \E h \in 1..MaxNodes : OpInsert(h) \/ OpRemove(h)
        \/ OpHasAny \/ OpInvoke \/ OpForEach
Emit == PrintT(ToJson(hist'))
TypeOK == /\ \A i \in 1..Len(list) : list[i] \in 1..N
          /\ \A i, j \in 1..Len(list) : i # j => list[i] # list[j]
Ok == bad = "ok"
=============================================================================
