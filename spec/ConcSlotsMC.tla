---- MODULE ConcSlotsMC ----
(* Scenario sets for model checking ConcSlots: producers that enqueue again after slots were recycled, against every consumer kind *)
EXTENDS ConcSlots
Enq(e) == [k |-> "enq", e |-> e]
K(k) == [k |-> k, e |-> 0]
\* thread 1 enqueues 1, 2 (and maybe consumes in between so that its next enqueue finds a recycled slot)
P1 == {<<Enq(1), Enq(2)>>, <<Enq(1), K("processOne"), Enq(2)>>, <<Enq(1), K("take"), Enq(2)>>, <<Enq(1), Enq(2), K("process")>>}
\* the others consume, and some enqueue again afterwards (3, 4) out of the free list
C2 == {<<K("process"), Enq(3)>>, <<K("processOne"), K("processOne")>>, <<K("take"), Enq(3)>>, <<K("clear"), Enq(3)>>, <<K("processIf"), K("process")>>,
       <<K("take"), K("take")>>, <<Enq(3), K("process")>>}
C3 == {<<K("process")>>, <<K("take"), Enq(4)>>, <<K("processOne"), Enq(4)>>, <<K("clear")>>, <<K("processIf"), Enq(4)>>}
S2 == {[t \in Threads |-> IF t = 1 THEN a ELSE b] : a \in P1, b \in C2}
S3 == {[t \in Threads |-> IF t = 1 THEN a ELSE IF t = 2 THEN b ELSE c] : a \in P1, b \in C2, c \in C3}
\* smallest scenarios in which each defect shows
SFree == {[t \in Threads |-> IF t = 1 THEN <<Enq(1), K("processOne"), Enq(2)>> ELSE <<Enq(3)>>]}
SQueue == {[t \in Threads |-> IF t = 1 THEN <<Enq(1), K("take")>> ELSE <<K("processOne")>>]}
SRecycle == {[t \in Threads |-> IF t = 1 THEN <<Enq(1), K("take"), Enq(2)>> ELSE <<K("take"), Enq(3)>>]}
SClear == {[t \in Threads |-> IF t = 1 THEN <<Enq(1), Enq(2), K("process")>> ELSE <<Enq(3)>>]}
====
