---- MODULE ConcQueueMC ----
(* Scenario sets for model checking ConcQueue: every thread program of every scenario is explored in one TLC run. *)
EXTENDS ConcQueue
Enq(e) == [k |-> "enq", e |-> e]
K(k) == [k |-> k, e |-> 0]
Producer(e) == {<<Enq(e)>>, <<K("dqn_on"), Enq(e), K("dqn_off")>>}
Consumer == {<<K("process")>>, <<K("processOne"), K("processOne")>>, <<K("take"), K("process")>>, <<K("clear")>>,
             <<K("processIf"), K("process")>>, <<K("peek"), K("take")>>, <<K("processUntil"), K("process")>>}
Waiter == {<<K("wait"), K("process")>>, <<K("waitFor"), K("process")>>}
Observer == {<<K("empty")>>, <<K("empty"), K("empty")>>}
P1 == Producer(1) \cup {<<Enq(1), K("process")>>, <<Enq(1), Enq(2), K("processOne")>>, <<Enq(1), Enq(2)>>, <<K("dqn_on"), Enq(1), Enq(2), K("dqn_off")>>}
Any2 == Consumer \cup Waiter \cup Observer \cup Producer(3)
Scen2 == {[t \in Threads |-> IF t = 1 THEN a ELSE b] : a \in P1, b \in Any2}
Any3 == Consumer \cup Waiter \cup Observer
Scen3 == {[t \in Threads |-> IF t = 1 THEN a ELSE IF t = 2 THEN b ELSE c] : a \in P1, b \in Any2, c \in Any3}
\* the wake-up protocol alone (C07): one or two waiters against producers with nested DisableQueueNotify scopes
W2 == {[t \in Threads |-> IF t = 1 THEN a ELSE b] : a \in {<<K("dqn_on"), Enq(1), K("dqn_off")>>, <<K("dqn_on"), K("dqn_on"), Enq(1), K("dqn_off"), K("dqn_off")>>, <<Enq(1)>>}, b \in Waiter}
\* two waiters, or a waiter and a consumer, against a producer with a DisableQueueNotify scope
W3 == {[t \in Threads |-> IF t = 1 THEN a ELSE IF t = 2 THEN b ELSE c] :
         a \in {<<K("dqn_on"), Enq(1), K("dqn_off")>>, <<K("dqn_on"), Enq(1), Enq(2), K("dqn_off")>>, <<Enq(1), Enq(2)>>},
         b \in Waiter, c \in Waiter \cup {<<K("process")>>, <<K("dqn_on"), K("dqn_off")>>}}
\* single named scenarios (the harness replays counterexamples of these: model thread t = harness thread t-1)
SDqnWaiter == {[t \in Threads |-> IF t = 1 THEN <<K("dqn_on"), Enq(1), K("dqn_off")>> ELSE <<K("wait"), K("process")>>]}
SEmptyOrder == {[t \in Threads |-> IF t = 1 THEN <<Enq(1), K("process")>> ELSE IF t = 2 THEN <<K("empty")>> ELSE <<>>]}
\* waitFor against everything that can make the queue look empty while events are in flight (C11's second clause)
WF3 == {[t \in Threads |-> IF t = 1 THEN a ELSE IF t = 2 THEN <<K("waitFor")>> ELSE c] : a \in P1, c \in Consumer}
WF2 == {[t \in Threads |-> IF t = 1 THEN a ELSE <<K("waitFor")>>] : a \in P1 \cup {<<Enq(1), K("take")>>, <<Enq(1), Enq(2), K("processUntil"), K("clear")>>}}
\* two processing calls that overlap without nesting + an observer (S51); processOne with two events queued, the rest taken by somebody else (S76)
SOverlap == {[t \in Threads |-> IF t = 1 THEN <<Enq(1), Enq(2), K("processOne"), K("empty")>> ELSE <<K("processOne")>>]}
SLastOnly == {[t \in Threads |-> IF t = 1 THEN <<Enq(1), Enq(2), K("processOne")>> ELSE <<K("take"), K("empty")>>]}
\* DisableQueueNotify objects of two threads coming and going, then an event and a waitFor that must see it (S111)
STwoDqn == {[t \in Threads |-> IF t = 1 THEN <<K("dqn_on"), K("dqn_off")>> ELSE <<K("dqn_on"), K("dqn_off"), Enq(1), K("waitFor")>>]}
SPutBack == {[t \in Threads |-> IF t = 1 THEN <<Enq(2), Enq(3)>> ELSE <<K("processIf"), K("process")>>]}
====
