----------------------------- MODULE ConcQueue -----------------------------
(***************************************************************************)
(* Threads x micro-steps model of eventqueue.h: one action per critical     *)
(* section, per atomic operation and per unlocked read (sequentially        *)
(* consistent memory; the free list is abstracted away).  Operations:      *)
(* enqueue, DisableQueueNotify ctor/dtor, process, processOne, takeEvent,   *)
(* clearEvents, emptyQueue (two reads), wait (predicate under the mutex,    *)
(* atomic unlock+sleep, notify_one moves one waiter).                       *)
(* Ghost: status of every event (ledger, C06), enqueues finished before an  *)
(* emptyQueue call began (C11), lost wake-up as a state predicate (C07).    *)
(* processIf (accepting odd events) puts the declined ones back in front;   *)
(* defect "putback_end" puts them at the back (violates ProducerOrder).     *)
(* processUntil (stops at the first even event) puts the remainder back in  *)
(* front.  waitFor = wait whose sleep can also end by a time-out step,      *)
(* after which the predicate is evaluated once more under the mutex and is  *)
(* the result; a false result with no DisableQueueNotify alive is judged    *)
(* like emptyQueue() = true (C11).                                          *)
(* Defects: "dqn_unlocked" = ~DisableQueueNotify decrements outside the     *)
(* mutex (the code before the D5 repair); "empty_order" = emptyQueue reads  *)
(* the counter before the list; "guard_restore" = the guard of process /    *)
(* processOne stores the value it saw on entry back on exit (seed S51);     *)
(* "guard_if_last" = processOne raises the counter only when it took the    *)
(* last event (seed S76); "dqn_dec_split" = ~DisableQueueNotify decrements *)
(* by a load and a store (seed S111).  Both keep their per-call note in rd[t], which    *)
(* process / processOne do not use otherwise (markers are not events).      *)
(* `lastT` is the thread that took the last step (schedules for replay).    *)
(***************************************************************************)
EXTENDS Naturals, Sequences, FiniteSets, TLC
CONSTANTS Threads, Scenarios, Defects
Fixed(d) == d \notin Defects
VARIABLES q, emptyCtr, notifyCtr, mtx, waitset, woken,        \* shared
          prog, ip, pc, tmp, rd,                              \* per thread (tmp = tempList, rd = events processIf keeps)
          status, enqDone, snap, bad, lastT                   \* ghost
vars == <<q, emptyCtr, notifyCtr, mtx, waitset, woken, prog, ip, pc, tmp, rd, status, enqDone, snap, bad, lastT>>
Events == 1..3
Init == /\ q = <<>> /\ emptyCtr = 0 /\ notifyCtr = 0 /\ mtx = 0 /\ waitset = {} /\ woken = {}
        /\ prog \in Scenarios /\ ip = [t \in Threads |-> 1] /\ pc = [t \in Threads |-> "idle"]
        /\ tmp = [t \in Threads |-> <<>>] /\ rd = [t \in Threads |-> <<>>]
        /\ status = [e \in Events |-> "new"] /\ enqDone = {} /\ snap = [t \in Threads |-> {}] /\ bad = "ok" /\ lastT = 0
Op(t) == prog[t][ip[t]]
HasOp(t) == ip[t] <= Len(prog[t])
Goto(t, l) == pc' = [pc EXCEPT ![t] = l]
Done(t) == pc' = [pc EXCEPT ![t] = "idle"] /\ ip' = [ip EXCEPT ![t] = @ + 1]
Consumed(e) == status[e] \in {"dispatched", "taken", "cleared"}
SetStatus(S, v) == [e \in Events |-> IF e \in S THEN v ELSE status[e]]
Range(s) == {s[i] : i \in 1..Len(s)}
Sh == <<q, emptyCtr, notifyCtr, mtx, waitset, woken>>
Gh == <<status, enqDone, snap, bad>>
NotifyOne == IF waitset = {} THEN UNCHANGED <<waitset, woken>>
             ELSE \E w \in waitset : waitset' = waitset \ {w} /\ woken' = woken \cup {w}

SelHeld == UNION {Range(tmp[u]) \cup Range(rd[u]) : u \in {v \in Threads : pc[v] # "idle" /\ Op(v).k \in {"processIf", "processUntil"}}}
Start(t) ==
  /\ pc[t] = "idle" /\ HasOp(t)
  /\ Goto(t, CASE Op(t).k = "enq" -> "e_lock" [] Op(t).k = "dqn_on" -> "d_inc" [] Op(t).k = "dqn_off" -> (IF Fixed("dqn_unlocked") THEN "d_lock" ELSE "d_dec")
               [] Op(t).k = "process" -> "p_pre" [] Op(t).k = "processOne" -> "p_pre" [] Op(t).k = "take" -> "t_pre"
               [] Op(t).k = "clear" -> "c_pre" [] Op(t).k = "empty" -> "o_q" [] Op(t).k = "wait" -> "w_lock"
               [] Op(t).k = "processIf" -> "i_pre" [] Op(t).k = "processUntil" -> "i_pre" [] Op(t).k = "peek" -> "k_pre"
               [] Op(t).k = "waitFor" -> "w_lock")
  \* (C11 quantifies over process / processOne / takeEvent / clearEvents: events a processIf / processUntil call holds, to dispatch or to
  \* put back, are outside the promise - they are in neither place for a while)
  /\ snap' = [snap EXCEPT ![t] = IF Op(t).k \in {"empty", "waitFor"} THEN enqDone \ SelHeld ELSE @]
  /\ UNCHANGED <<q, emptyCtr, notifyCtr, mtx, waitset, woken, prog, ip, tmp, rd, status, enqDone, bad>>

\* ---- enqueue(e): lock; splice; unlock; doCanProcess() unlocked; notify
ELock(t) == pc[t] = "e_lock" /\ mtx = 0 /\ mtx' = t /\ Goto(t, "e_cs") /\ UNCHANGED <<q, emptyCtr, notifyCtr, waitset, woken, prog, ip, tmp, rd>> /\ UNCHANGED Gh
ECs(t) == /\ pc[t] = "e_cs" /\ mtx = t /\ mtx' = 0 /\ q' = Append(q, Op(t).e) /\ status' = SetStatus({Op(t).e}, "pending")
          /\ Goto(t, "n_q") /\ UNCHANGED <<emptyCtr, notifyCtr, waitset, woken, prog, ip, tmp, rd, enqDone, snap, bad>>
\* shared tail: canProcess = !(q empty && emptyCtr = 0) && notifyCtr = 0 ; then notify_one ; used by enqueue and ~DQN
NQ(t) == /\ pc[t] = "n_q" /\ IF q # <<>> THEN Goto(t, "n_cnt") ELSE Goto(t, "n_ec")
         /\ UNCHANGED Sh /\ UNCHANGED <<prog, ip, tmp, rd>> /\ UNCHANGED Gh
NEc(t) == /\ pc[t] = "n_ec" /\ IF emptyCtr # 0 THEN Goto(t, "n_cnt") ELSE Goto(t, "n_end")
          /\ UNCHANGED Sh /\ UNCHANGED <<prog, ip, tmp, rd>> /\ UNCHANGED Gh
NCnt(t) == /\ pc[t] = "n_cnt" /\ IF notifyCtr = 0 THEN Goto(t, "n_notify") ELSE Goto(t, "n_end")
           /\ UNCHANGED Sh /\ UNCHANGED <<prog, ip, tmp, rd>> /\ UNCHANGED Gh
NNotify(t) == /\ pc[t] = "n_notify" /\ NotifyOne /\ Goto(t, "n_end") /\ UNCHANGED <<q, emptyCtr, notifyCtr, mtx, prog, ip, tmp, rd>> /\ UNCHANGED Gh
NEnd(t) == /\ pc[t] = "n_end" /\ Done(t) /\ enqDone' = IF Op(t).k = "enq" THEN enqDone \cup {Op(t).e} ELSE enqDone
           /\ UNCHANGED Sh /\ UNCHANGED <<prog, tmp, rd, status, snap, bad>>
\* ---- DisableQueueNotify ctor / dtor
DInc(t) == pc[t] = "d_inc" /\ notifyCtr' = notifyCtr + 1 /\ Done(t) /\ UNCHANGED <<q, emptyCtr, mtx, waitset, woken, prog, tmp, rd>> /\ UNCHANGED Gh
DLock(t) == pc[t] = "d_lock" /\ mtx = 0 /\ mtx' = t /\ Goto(t, "d_dec") /\ UNCHANGED <<q, emptyCtr, notifyCtr, waitset, woken, prog, ip, tmp, rd>> /\ UNCHANGED Gh
\* defect "dqn_dec_split" (seed S111): the decrement is a load and a store (under the mutex - but the constructor's ++ takes no mutex); the loaded
\* value (+100: not an event) waits in rd[t], which the destructor does not use otherwise; the counter is kept in 0.. by an offset of 1 while it is "minus one"
DDec(t) == /\ pc[t] = "d_dec" /\ Fixed("dqn_dec_split") /\ notifyCtr' = notifyCtr - 1 /\ (IF Fixed("dqn_unlocked") THEN mtx = t /\ mtx' = 0 ELSE UNCHANGED mtx)
           /\ Goto(t, "d_cnt") /\ UNCHANGED <<q, emptyCtr, waitset, woken, prog, ip, tmp, rd>> /\ UNCHANGED Gh
DDecLoad(t) == /\ pc[t] = "d_dec" /\ ~Fixed("dqn_dec_split") /\ rd' = [rd EXCEPT ![t] = <<100 + notifyCtr>>] /\ Goto(t, "d_dec2")
               /\ UNCHANGED <<q, emptyCtr, notifyCtr, mtx, waitset, woken, prog, ip, tmp>> /\ UNCHANGED Gh
DDecStore(t) == /\ pc[t] = "d_dec2" /\ notifyCtr' = (IF rd[t][1] = 100 THEN 99 ELSE rd[t][1] - 101) /\ rd' = [rd EXCEPT ![t] = <<>>] /\ mtx = t /\ mtx' = 0
                /\ Goto(t, "d_cnt") /\ UNCHANGED <<q, emptyCtr, waitset, woken, prog, ip, tmp>> /\ UNCHANGED Gh
\* dtor: if(canNotify && !emptyQueue()) notify  -- order: counter first, then queue
DCnt(t) == /\ pc[t] = "d_cnt" /\ IF notifyCtr = 0 THEN Goto(t, "d_q") ELSE Goto(t, "n_end")
           /\ UNCHANGED Sh /\ UNCHANGED <<prog, ip, tmp, rd>> /\ UNCHANGED Gh
DQ(t) == /\ pc[t] = "d_q" /\ IF q # <<>> THEN Goto(t, "n_notify") ELSE Goto(t, "d_ec")
         /\ UNCHANGED Sh /\ UNCHANGED <<prog, ip, tmp, rd>> /\ UNCHANGED Gh
DEc(t) == /\ pc[t] = "d_ec" /\ IF emptyCtr # 0 THEN Goto(t, "n_notify") ELSE Goto(t, "n_end")
          /\ UNCHANGED Sh /\ UNCHANGED <<prog, ip, tmp, rd>> /\ UNCHANGED Gh
\* ---- process / processOne: unlocked pre-check; guard++; lock; take; unlock; dispatch each; guard--
LateGuard(t) == ~Fixed("guard_if_last") /\ Op(t).k = "processOne"
PPre(t) == /\ pc[t] = "p_pre" /\ IF q = <<>> THEN Done(t) ELSE (Goto(t, IF LateGuard(t) THEN "p_lock" ELSE "p_inc") /\ UNCHANGED ip)
           /\ UNCHANGED Sh /\ UNCHANGED <<prog, tmp, rd>> /\ UNCHANGED Gh
PInc(t) == /\ pc[t] = "p_inc" /\ emptyCtr' = emptyCtr + 1 /\ Goto(t, "p_lock")
           /\ rd' = IF Fixed("guard_restore") THEN rd ELSE [rd EXCEPT ![t] = <<100 + emptyCtr>>]       \* remember what was there
           /\ UNCHANGED <<q, notifyCtr, mtx, waitset, woken, prog, ip, tmp>> /\ UNCHANGED Gh
PLock(t) == pc[t] = "p_lock" /\ mtx = 0 /\ mtx' = t /\ Goto(t, "p_cs") /\ UNCHANGED <<q, emptyCtr, notifyCtr, waitset, woken, prog, ip, tmp, rd>> /\ UNCHANGED Gh
PCs(t) == /\ pc[t] = "p_cs" /\ mtx = t /\ mtx' = 0
          /\ LET take == IF Op(t).k = "processOne" THEN (IF q = <<>> THEN <<>> ELSE <<Head(q)>>) ELSE q IN
             /\ tmp' = [tmp EXCEPT ![t] = take] /\ q' = SubSeq(q, Len(take) + 1, Len(q))
             /\ status' = SetStatus(Range(take), "held")
             \* (defect guard_if_last: the counter is raised here, and only if nothing is left in the list; <<0>> notes "not raised")
             /\ emptyCtr' = IF LateGuard(t) /\ Len(take) = Len(q) THEN emptyCtr + 1 ELSE emptyCtr
             /\ rd' = IF LateGuard(t) /\ Len(take) # Len(q) THEN [rd EXCEPT ![t] = <<0>>] ELSE rd
          /\ Goto(t, "p_disp") /\ UNCHANGED <<notifyCtr, waitset, woken, prog, ip, enqDone, snap, bad>>
PDisp(t) == /\ pc[t] = "p_disp"
            /\ IF tmp[t] = <<>> THEN Goto(t, "p_dec") /\ UNCHANGED <<tmp, status, bad>>
               ELSE /\ bad' = IF status[Head(tmp[t])] # "held" THEN "double-consume" ELSE bad
                    /\ status' = SetStatus({Head(tmp[t])}, "dispatched") /\ tmp' = [tmp EXCEPT ![t] = Tail(@)] /\ UNCHANGED pc
            /\ UNCHANGED Sh /\ UNCHANGED <<prog, ip, rd, enqDone, snap>>
PDec(t) == /\ pc[t] = "p_dec"
           /\ emptyCtr' = IF rd[t] = <<0>> THEN emptyCtr ELSE IF rd[t] # <<>> /\ rd[t][1] >= 100 THEN rd[t][1] - 100 ELSE emptyCtr - 1
           /\ rd' = [rd EXCEPT ![t] = <<>>]
           /\ Done(t) /\ UNCHANGED <<q, notifyCtr, mtx, waitset, woken, prog, tmp>> /\ UNCHANGED Gh
\* ---- takeEvent / clearEvents
TPre(t) == /\ pc[t] = "t_pre" /\ IF q = <<>> THEN Done(t) ELSE (Goto(t, "t_lock") /\ UNCHANGED ip)
           /\ UNCHANGED Sh /\ UNCHANGED <<prog, tmp, rd>> /\ UNCHANGED Gh
TLock(t) == pc[t] = "t_lock" /\ mtx = 0 /\ mtx' = t /\ Goto(t, "t_cs") /\ UNCHANGED <<q, emptyCtr, notifyCtr, waitset, woken, prog, ip, tmp, rd>> /\ UNCHANGED Gh
TCs(t) == /\ pc[t] = "t_cs" /\ mtx = t /\ mtx' = 0
          /\ IF q = <<>> THEN UNCHANGED <<q, status>> ELSE q' = Tail(q) /\ status' = SetStatus({Head(q)}, "taken")
          /\ Done(t) /\ UNCHANGED <<emptyCtr, notifyCtr, waitset, woken, prog, tmp, rd, enqDone, snap, bad>>
CPre(t) == /\ pc[t] = "c_pre" /\ IF q = <<>> THEN Done(t) ELSE (Goto(t, "c_lock") /\ UNCHANGED ip)
           /\ UNCHANGED Sh /\ UNCHANGED <<prog, tmp, rd>> /\ UNCHANGED Gh
CLock(t) == pc[t] = "c_lock" /\ mtx = 0 /\ mtx' = t /\ Goto(t, "c_cs") /\ UNCHANGED <<q, emptyCtr, notifyCtr, waitset, woken, prog, ip, tmp, rd>> /\ UNCHANGED Gh
CCs(t) == /\ pc[t] = "c_cs" /\ mtx = t /\ mtx' = 0 /\ q' = <<>> /\ status' = SetStatus(Range(q), "cleared")
          /\ Done(t) /\ UNCHANGED <<emptyCtr, notifyCtr, waitset, woken, prog, tmp, rd, enqDone, snap, bad>>
\* ---- processIf(odd events): pre-check; guard++; lock; take all; unlock; per event: predicate, dispatch or keep; lock; put the kept ones
\*      back in FRONT; unlock; guard--
IPre(t) == /\ pc[t] = "i_pre" /\ IF q = <<>> THEN Done(t) ELSE (Goto(t, "i_inc") /\ UNCHANGED ip)
           /\ UNCHANGED Sh /\ UNCHANGED <<prog, tmp, rd>> /\ UNCHANGED Gh
IInc(t) == pc[t] = "i_inc" /\ emptyCtr' = emptyCtr + 1 /\ Goto(t, "i_lock") /\ UNCHANGED <<q, notifyCtr, mtx, waitset, woken, prog, ip, tmp, rd>> /\ UNCHANGED Gh
ILock(t) == pc[t] = "i_lock" /\ mtx = 0 /\ mtx' = t /\ Goto(t, "i_cs") /\ UNCHANGED <<q, emptyCtr, notifyCtr, waitset, woken, prog, ip, tmp, rd>> /\ UNCHANGED Gh
ICs(t) == /\ pc[t] = "i_cs" /\ mtx = t /\ mtx' = 0 /\ tmp' = [tmp EXCEPT ![t] = q] /\ rd' = [rd EXCEPT ![t] = <<>>] /\ q' = <<>>
          /\ status' = SetStatus(Range(q), "held") /\ Goto(t, "i_loop")
          /\ snap' = [u \in Threads |-> snap[u] \ Range(q)]           \* no longer covered by the promise of an emptyQueue() in progress
          /\ UNCHANGED <<emptyCtr, notifyCtr, waitset, woken, prog, ip, enqDone, bad>>
ILoop(t) == /\ pc[t] = "i_loop"
            /\ IF tmp[t] = <<>> THEN Goto(t, IF rd[t] = <<>> THEN "i_dec" ELSE "i_pblock") /\ UNCHANGED <<tmp, rd, status, bad>>
               ELSE LET e == Head(tmp[t]) IN
                    IF e % 2 = 1
                    THEN /\ bad' = IF status[e] # "held" THEN "double-consume" ELSE bad
                         /\ status' = SetStatus({e}, "dispatched") /\ tmp' = [tmp EXCEPT ![t] = Tail(@)] /\ UNCHANGED <<pc, rd>>
                    ELSE IF Op(t).k = "processUntil"      \* stop here: this event and everything behind it goes back
                         THEN tmp' = [tmp EXCEPT ![t] = <<>>] /\ rd' = [rd EXCEPT ![t] = tmp[t]] /\ UNCHANGED <<pc, status, bad>>
                         ELSE tmp' = [tmp EXCEPT ![t] = Tail(@)] /\ rd' = [rd EXCEPT ![t] = Append(@, e)] /\ UNCHANGED <<pc, status, bad>>
            /\ UNCHANGED Sh /\ UNCHANGED <<prog, ip, enqDone, snap>>
IPbLock(t) == pc[t] = "i_pblock" /\ mtx = 0 /\ mtx' = t /\ Goto(t, "i_pb") /\ UNCHANGED <<q, emptyCtr, notifyCtr, waitset, woken, prog, ip, tmp, rd>> /\ UNCHANGED Gh
IPb(t) == /\ pc[t] = "i_pb" /\ mtx = t /\ mtx' = 0
          /\ q' = (IF Fixed("putback_end") THEN rd[t] \o q ELSE q \o rd[t]) /\ status' = SetStatus(Range(rd[t]), "pending") /\ rd' = [rd EXCEPT ![t] = <<>>]
          /\ Goto(t, "i_dec") /\ UNCHANGED <<emptyCtr, notifyCtr, waitset, woken, prog, ip, tmp, enqDone, snap, bad>>
IDec(t) == pc[t] = "i_dec" /\ emptyCtr' = emptyCtr - 1 /\ Done(t) /\ UNCHANGED <<q, notifyCtr, mtx, waitset, woken, prog, tmp, rd>> /\ UNCHANGED Gh
\* ---- peekEvent: unlocked pre-check; lock; look at the head; unlock
KPre(t) == /\ pc[t] = "k_pre" /\ IF q = <<>> THEN Done(t) ELSE (Goto(t, "k_lock") /\ UNCHANGED ip)
           /\ UNCHANGED Sh /\ UNCHANGED <<prog, tmp, rd>> /\ UNCHANGED Gh
KLock(t) == pc[t] = "k_lock" /\ mtx = 0 /\ mtx' = t /\ Goto(t, "k_cs") /\ UNCHANGED <<q, emptyCtr, notifyCtr, waitset, woken, prog, ip, tmp, rd>> /\ UNCHANGED Gh
KCs(t) == /\ pc[t] = "k_cs" /\ mtx = t /\ mtx' = 0 /\ Done(t)
          /\ bad' = IF q # <<>> /\ status[Head(q)] # "pending" THEN "peek-not-pending" ELSE bad
          /\ UNCHANGED <<q, emptyCtr, notifyCtr, waitset, woken, prog, tmp, rd, status, enqDone, snap>>

\* ---- emptyQueue(): queueList.empty() && emptyCtr == 0  (order matters)
Verdict(t, r) == bad' = IF r /\ ~(\A e \in snap[t] : Consumed(e)) THEN "empty-while-pending" ELSE bad
OFirst(t) == /\ pc[t] = "o_q"
             /\ IF Fixed("empty_order")
                THEN IF q # <<>> THEN Done(t) /\ Verdict(t, FALSE) ELSE (Goto(t, "o_2") /\ UNCHANGED <<ip, bad>>)
                ELSE IF emptyCtr # 0 THEN Done(t) /\ Verdict(t, FALSE) ELSE (Goto(t, "o_2") /\ UNCHANGED <<ip, bad>>)
             /\ UNCHANGED Sh /\ UNCHANGED <<prog, tmp, rd, status, enqDone, snap>>
OSecond(t) == /\ pc[t] = "o_2" /\ Done(t)
              /\ Verdict(t, IF Fixed("empty_order") THEN emptyCtr = 0 ELSE q = <<>>)
              /\ UNCHANGED Sh /\ UNCHANGED <<prog, tmp, rd, status, enqDone, snap>>
\* ---- wait(): lock; while(!pred) cv.wait; unlock   (pred reads q under the mutex, counters atomically)
WLock(t) == pc[t] = "w_lock" /\ mtx = 0 /\ mtx' = t /\ Goto(t, "w_q") /\ UNCHANGED <<q, emptyCtr, notifyCtr, waitset, woken, prog, ip, tmp, rd>> /\ UNCHANGED Gh
WQ(t) == /\ pc[t] = "w_q" /\ mtx = t /\ IF q # <<>> THEN Goto(t, "w_cnt") ELSE Goto(t, "w_ec")
         /\ UNCHANGED Sh /\ UNCHANGED <<prog, ip, tmp, rd>> /\ UNCHANGED Gh
WEc(t) == /\ pc[t] = "w_ec" /\ IF emptyCtr # 0 THEN Goto(t, "w_cnt") ELSE Goto(t, "w_block")
          /\ UNCHANGED Sh /\ UNCHANGED <<prog, ip, tmp, rd>> /\ UNCHANGED Gh
WCnt(t) == /\ pc[t] = "w_cnt" /\ IF notifyCtr = 0 THEN Goto(t, "w_unlock") ELSE Goto(t, "w_block")
           /\ UNCHANGED Sh /\ UNCHANGED <<prog, ip, tmp, rd>> /\ UNCHANGED Gh
WBlock(t) == pc[t] = "w_block" /\ mtx' = 0 /\ waitset' = waitset \cup {t} /\ Goto(t, "w_sleep") /\ UNCHANGED <<q, emptyCtr, notifyCtr, woken, prog, ip, tmp, rd>> /\ UNCHANGED Gh
WWake(t) == pc[t] = "w_sleep" /\ t \in woken /\ woken' = woken \ {t} /\ Goto(t, "w_lock") /\ UNCHANGED <<q, emptyCtr, notifyCtr, mtx, waitset, prog, ip, tmp, rd>> /\ UNCHANGED Gh
WUnlock(t) == pc[t] = "w_unlock" /\ mtx = t /\ mtx' = 0 /\ Done(t) /\ UNCHANGED <<q, emptyCtr, notifyCtr, waitset, woken, prog, tmp, rd>> /\ UNCHANGED Gh
\* ---- waitFor(): the same loop; the sleep may also end by the time-out, then: lock; return pred()
WTimeout(t) == /\ pc[t] = "w_sleep" /\ Op(t).k = "waitFor" /\ waitset' = waitset \ {t} /\ woken' = woken \ {t} /\ Goto(t, "wt_lock")
               /\ UNCHANGED <<q, emptyCtr, notifyCtr, mtx, prog, ip, tmp, rd>> /\ UNCHANGED Gh
WtLock(t) == pc[t] = "wt_lock" /\ mtx = 0 /\ mtx' = t /\ Goto(t, "wt_q") /\ UNCHANGED <<q, emptyCtr, notifyCtr, waitset, woken, prog, ip, tmp, rd>> /\ UNCHANGED Gh
WtQ(t) == /\ pc[t] = "wt_q" /\ mtx = t /\ IF q # <<>> THEN Goto(t, "wt_cnt") ELSE Goto(t, "wt_ec")
          /\ UNCHANGED Sh /\ UNCHANGED <<prog, ip, tmp, rd>> /\ UNCHANGED Gh
\* queue seen empty and nobody processing: the result is false; judged when no DisableQueueNotify is alive at this moment
WtEc(t) == /\ pc[t] = "wt_ec" /\ mtx = t
           /\ IF emptyCtr # 0 THEN Goto(t, "wt_cnt") /\ UNCHANGED <<mtx, ip, bad>>
              ELSE mtx' = 0 /\ Done(t) /\ Verdict(t, notifyCtr = 0)
           /\ UNCHANGED <<q, emptyCtr, notifyCtr, waitset, woken, prog, tmp, rd, status, enqDone, snap>>
\* true iff notification is enabled; false while a DisableQueueNotify object exists says nothing about the queue, false with none alive is judged
\* (the counter must then be 0 again: it counts the objects)
DqnCount(u, k, upto) == Cardinality({i \in 1..upto : i <= Len(prog[u]) /\ prog[u][i].k = k})
NoDqnAlive == \A u \in Threads : DqnCount(u, "dqn_on", IF pc[u] = "idle" THEN ip[u] - 1 ELSE ip[u]) = DqnCount(u, "dqn_off", ip[u] - 1)
WtCnt(t) == /\ pc[t] = "wt_cnt" /\ mtx = t /\ mtx' = 0 /\ Done(t) /\ Verdict(t, notifyCtr # 0 /\ NoDqnAlive)
            /\ UNCHANGED <<q, emptyCtr, notifyCtr, waitset, woken, prog, tmp, rd, status, enqDone, snap>>

Step(t) == Start(t) \/ ELock(t) \/ ECs(t) \/ NQ(t) \/ NEc(t) \/ NCnt(t) \/ NNotify(t) \/ NEnd(t)
           \/ DInc(t) \/ DLock(t) \/ DDec(t) \/ DDecLoad(t) \/ DDecStore(t) \/ DCnt(t) \/ DQ(t) \/ DEc(t)
           \/ PPre(t) \/ PInc(t) \/ PLock(t) \/ PCs(t) \/ PDisp(t) \/ PDec(t)
           \/ TPre(t) \/ TLock(t) \/ TCs(t) \/ CPre(t) \/ CLock(t) \/ CCs(t)
           \/ OFirst(t) \/ OSecond(t)
           \/ IPre(t) \/ IInc(t) \/ ILock(t) \/ ICs(t) \/ ILoop(t) \/ IPbLock(t) \/ IPb(t) \/ IDec(t) \/ KPre(t) \/ KLock(t) \/ KCs(t)
           \/ WLock(t) \/ WQ(t) \/ WEc(t) \/ WCnt(t) \/ WBlock(t) \/ WWake(t) \/ WUnlock(t)
           \/ WTimeout(t) \/ WtLock(t) \/ WtQ(t) \/ WtEc(t) \/ WtCnt(t)
Next == (\E t \in Threads : Step(t) /\ lastT' = t) /\ UNCHANGED prog

\* ---- properties
Ledger == bad = "ok"                                                       \* C06 no double consume, C11 implication
OnePlace == \A e \in Events : /\ (status[e] = "pending") = (\E i \in 1..Len(q) : q[i] = e)
                              /\ (status[e] = "held") = (\E t \in Threads : (\E i \in 1..Len(tmp[t]) : tmp[t][i] = e) \/ (\E i \in 1..Len(rd[t]) : rd[t][i] = e))
Quiescent == \A t \in Threads : (pc[t] = "idle" /\ ~HasOp(t)) \/ (pc[t] = "w_sleep" /\ Op(t).k = "wait")
Sleeping == {t \in Threads : pc[t] = "w_sleep" /\ Op(t).k = "wait"}
\* C07: a final state with pending events, notification enabled and every waiter asleep is a lost wake-up
NoLostWakeup == ~(Quiescent /\ Sleeping # {} /\ woken = {} /\ q # <<>> /\ notifyCtr = 0)
\* one producer's events are pending in the order it enqueued them (C06 order), for every producer
EnqIdx(t, e) == IF \E i \in 1..Len(prog[t]) : prog[t][i].k = "enq" /\ prog[t][i].e = e
                THEN CHOOSE i \in 1..Len(prog[t]) : prog[t][i].k = "enq" /\ prog[t][i].e = e ELSE 0
ProducerOrder == \A t \in Threads : \A i, j \in 1..Len(q) :
                    (i < j /\ EnqIdx(t, q[i]) # 0 /\ EnqIdx(t, q[j]) # 0) => EnqIdx(t, q[i]) < EnqIdx(t, q[j])
\* stuck for any other reason (mutex never released) would show as a non-quiescent state without successors
NoDeadlock == Quiescent \/ ENABLED Next
\* ---- liveness (C07 as the statement words it: "no interleaving leaves every waiter blocked for ever while events are pending,
\* notification is enabled and woken consumers drain the queue").  Under weak fairness of every thread's next step each behaviour
\* reaches and stays in a state where every program has finished, or its thread sleeps in an untimed wait that nothing could end
\* legitimately: the queue is empty or a DisableQueueNotify object is still alive.  (waitFor never sleeps for ever: its time-out
\* step is always enabled.)  This is stronger than NoLostWakeup /\ NoDeadlock: it also excludes livelock.
FairSpec == Init /\ [][Next]_vars /\ \A t \in Threads : WF_vars(Step(t) /\ lastT' = t)
LegitSleep == \A t \in Sleeping : q = <<>> \/ notifyCtr # 0
Progress == <>[](Quiescent /\ LegitSleep)
=============================================================================
