---- MODULE ConcCLMC ----
(* Scenario sets for model checking ConcCL *)
EXTENDS ConcCL
A == [k |-> "append", h |-> 0]
I(h) == [k |-> "insert", h |-> h]
R(h) == [k |-> "remove", h |-> h]
V == [k |-> "invoke", h |-> 0]
P == [k |-> "prepend", h |-> 0]
O(h) == [k |-> "owns", h |-> h]
E == [k |-> "empty", h |-> 0]
F == [k |-> "forEach", h |-> 0]
OpsSet == {A, V, P, E, F, O(1)} \cup {I(h) : h \in 1..2} \cup {R(h) : h \in 1..2}
Progs == {<<o>> : o \in OpsSet} \cup {<<o1, o2>> : o1 \in {A, R(1)}, o2 \in {V, R(1), I(1)}}
ScenSet == [Threads -> Progs]
Progs1 == {<<o>> : o \in OpsSet}
ScenSet1 == [Threads -> Progs1]
====
