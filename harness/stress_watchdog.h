// Watchdog of the uncontrolled stress runners: a deadlock or livelock of the library under real threads (e.g. two mutexes taken in opposite
// orders) would otherwise spin or sleep until the engine's 15 minute time-out.  A helper thread notices that no execution has finished for
// STRESS_STALL_SECONDS, writes a `hang` record (no specification has a step for it) and ends the process.
#ifndef VERIF_STRESS_WATCHDOG_H
#define VERIF_STRESS_WATCHDOG_H
#include <atomic>
#include <chrono>
#include <cstdio>
#include <thread>
#include <unistd.h>
#ifndef STRESS_STALL_SECONDS
#define STRESS_STALL_SECONDS 40
#endif
static std::atomic<long> g_stressProgress(0);
static void startStressWatchdog(FILE * out)
{
	std::thread([out]() {
		long last = -1; int stalled = 0;
		for(;;) {
			std::this_thread::sleep_for(std::chrono::seconds(1));
			const long now = g_stressProgress.load();
			if(now != last) { last = now; stalled = 0; continue; }
			if(++stalled >= STRESS_STALL_SECONDS) {
				// no logger lock: a worker blocked inside the library does not hold it, and a torn last line is cut off by the engine
				std::fprintf(out, "\n{\"e\":\"hang\",\"t\":9,\"a\":0,\"b\":0,\"r\":0}\n");
				std::fflush(out);
				_exit(3);
			}
		}
	}).detach();
}
#endif
