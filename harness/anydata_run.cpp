// Script interpreter for C17 (eventpp::AnyData): replays every AnyData.tla cover script for EVERY stored type Obj<N, W_KIND>,
// N = W_NMIN .. W_NMAX (template recursion, one translation unit), on AnyData<W_CAP> objects living in pre-filled raw heap blocks of exactly their size
// and on an EventQueue<int, void (const AnyData<W_CAP> &)>; records NDJSON for TraceAnyData.tla.
//   W_KIND  0 trivially copyable bytes (value in the first byte, the rest a pattern derived from it)
//           1 tracked non-trivial: counts constructions / destructions, registers its address in the live-address set, checks that
//             the source of a copy / move construction is live, keeps a pointer to itself (bitwise relocation shows as "sp":0)
//           2 as 1 but move-only
//           3 tracked, holds a std::shared_ptr<int> (use_count recorded); sizes are multiples of 8 from 16
//   W_CAP   template argument of AnyData (the real inline capacity is max(W_CAP, sizeof(LargeData)) = max(W_CAP, 16))
// The harness never judges: it records what the real code did.  The library's asserts stay enabled.
// Record fields: e kind of record, o box, a/b operands; read facts of one AnyData: hl 0 = read, 1 = isType<T>() false (not read),
// 2 = null address (not read); v value, mf moved-from flag, st getAddress() stable (twice now, and equal to the previous read of
// the same box), ag get<T>/operator T&/operator T*/getAddress agree, it isType<T>, io isType<some other type>, sp self pointer /
// byte pattern intact, uc use_count; sv/sm value / moved-from flag of the source object after the construction;
// lv tracked objects alive, k kind; the "rs" record ends an execution: n script index, sz the size N.
#include "common.h"
#include <eventpp/utilities/anydata.h>
#include <eventpp/eventqueue.h>
#include <memory>
#include <new>
#include <type_traits>

#ifndef W_KIND
#define W_KIND 1
#endif
#ifndef W_CAP
#define W_CAP 32
#endif
#ifndef W_NMIN
#define W_NMIN 1
#endif
#ifndef W_NMAX
#define W_NMAX (W_CAP + 17)
#endif
#ifndef W_FILL
#define W_FILL 0xAB
#endif

extern "C" void __sanitizer_set_death_callback(void (*callback)(void)) __attribute__((weak));

using namespace vf;

typedef eventpp::AnyData<W_CAP> AD;
typedef eventpp::EventQueue<int, void (const AD &)> Queue;

static long g_execs = 0;
static int g_size = 0;

// an execution that dies (library assert, sanitizer report, terminate) is closed so that the rejection is attributed to its script
static void closeDying(const char * what)
{
	if(! g_out) return;
	std::fprintf(g_out, "{\"e\":\"%s\",\"o\":0,\"lv\":%ld,\"k\":%d}\n", what, g_live, W_KIND);
	std::fprintf(g_out, "{\"e\":\"rs\",\"lv\":-1,\"k\":%d,\"sz\":%d,\"n\":%ld}\n", W_KIND, g_size, g_script);
	std::fflush(g_out);
}
static void onAbort(int) { closeDying("abort"); _exit(5); }
static void onSanitizerDeath() { closeDying("sanitizer"); }
static void onTerminate2() { closeDying("terminate"); _exit(4); }
static void onAlarm2(int) { closeDying("hang"); _exit(3); }

static unsigned char pat(int v, size_t i) { return (unsigned char)(v * 37 + (int)i * 11 + 5); }

// ---- stored types
template <size_t N, int K> struct Obj;

template <size_t N>
struct Obj<N, 0>
{
	unsigned char bytes[N];
	explicit Obj(int v) { bytes[0] = (unsigned char)v; for(size_t i = 1; i < N; ++i) bytes[i] = pat(v, i); }
	int value() const { return bytes[0]; }
	int moved() const { return 0; }
	bool intact() const { for(size_t i = 1; i < N; ++i) if(bytes[i] != pat(bytes[0], i)) return false; return true; }
	long useCount() const { return 0; }
	void touch() const {}
};

// bytes[0] value, bytes[1] moved-from flag, bytes[2..9] pointer to itself, the rest a pattern
template <size_t N>
struct TrackedBytes
{
	static_assert(N >= 2 + sizeof(void *), "too small for a self pointer");
	unsigned char bytes[N];
	void fill(int v, int mv)
	{
		bytes[0] = (unsigned char)v; bytes[1] = (unsigned char)mv;
		const void * self = this;
		std::memcpy(bytes + 2, &self, sizeof(self));
		for(size_t i = 2 + sizeof(void *); i < N; ++i) bytes[i] = pat(v, i);
		++g_live; regAdd(this);
	}
	void gone() { regDel(this); --g_live; }
	int value() const { return bytes[0]; }
	int moved() const { return bytes[1]; }
	bool intact() const
	{
		const void * self; std::memcpy(&self, bytes + 2, sizeof(self));
		if(self != this) return false;
		for(size_t i = 2 + sizeof(void *); i < N; ++i) if(bytes[i] != pat(bytes[0], i)) return false;
		return true;
	}
	long useCount() const { return 0; }
	void touch() const { regUse(this); }
};

template <size_t N>
struct Obj<N, 1> : TrackedBytes<N>
{
	explicit Obj(int v) { this->fill(v, 0); }
	Obj(const Obj & o) { regUse(&o); this->fill(o.bytes[0], o.bytes[1]); }
	Obj(Obj && o) { regUse(&o); this->fill(o.bytes[0], o.bytes[1]); o.bytes[1] = 1; }
	Obj & operator = (const Obj &) = delete;
	~Obj() { this->gone(); }
};

template <size_t N>
struct Obj<N, 2> : TrackedBytes<N>
{
	explicit Obj(int v) { this->fill(v, 0); }
	Obj(const Obj &) = delete;
	Obj(Obj && o) { regUse(&o); this->fill(o.bytes[0], o.bytes[1]); o.bytes[1] = 1; }
	Obj & operator = (const Obj &) = delete;
	Obj & operator = (Obj &&) = delete;
	~Obj() { this->gone(); }
};

template <size_t P> struct Pad { unsigned char pad[P]; };
template <> struct Pad<0> {};
template <size_t N>
struct Obj<N, 3> : Pad<N - sizeof(std::shared_ptr<int>)>
{
	std::shared_ptr<int> p;
	explicit Obj(int v) : p(std::make_shared<int>(v)) { ++g_live; regAdd(this); }
	Obj(const Obj & o) : p(o.p) { regUse(&o); ++g_live; regAdd(this); }
	Obj(Obj && o) : p(std::move(o.p)) { regUse(&o); ++g_live; regAdd(this); }
	Obj & operator = (const Obj &) = delete;
	~Obj() { regDel(this); --g_live; }
	int value() const { return p ? *p : -1; }
	int moved() const { return p ? 0 : 1; }
	bool intact() const { return true; }
	long useCount() const { return p.use_count(); }
	void touch() const { regUse(this); }
};

template <int K> struct Sizes { enum { First = (K == 0 ? 1 : 2 + (int)sizeof(void *)), Step = 1 }; };
template <> struct Sizes<3> { enum { First = (int)sizeof(std::shared_ptr<int>), Step = 8 }; };

// ---- facts of one read
struct Facts { int hl, v, mf, st, ag, it, io, sp; long uc; };

enum { MaxB = 3 };
// every box lives in its own heap block of exactly sizeof(AnyData) bytes (pre-filled): a write past the AnyData hits a sanitizer red zone
static void * g_store[MaxB + 1];
static AD * B[MaxB + 1];
static const void * g_prev[MaxB + 1];
static void * fresh(int b)
{
	if(g_store[b]) std::free(g_store[b]);
	g_store[b] = std::malloc(sizeof(AD));
	std::memset(g_store[b], W_FILL, sizeof(AD));
	g_prev[b] = 0;
	return g_store[b];
}
static void destroyBox(int b)
{
	B[b]->~AD(); B[b] = 0; g_prev[b] = 0;
	std::free(g_store[b]); g_store[b] = 0;
}

template <typename T, typename O1, typename O2>
static Facts readFacts(const AD & d, int slot)
{
	Facts f = { 0, -1, 0, 0, 0, 0, 0, 0, 0 };
	f.it = d.template isType<T>() ? 1 : 0;
	f.io = (d.template isType<O1>() || d.template isType<O2>() || d.template isType<int>() || d.template isType<AD>()) ? 1 : 0;
	if(! f.it) { f.hl = 1; return f; }
	const void * a1 = d.getAddress();
	if(a1 == 0) { f.hl = 2; return f; }
	const T & r1 = d.template get<T>();
	const T & r2 = d;
	const T * p3 = d;
	const void * a2 = d.getAddress();
	f.ag = ((const void *)&r1 == a1 && (const void *)&r2 == a1 && (const void *)p3 == a1) ? 1 : 0;
	f.st = (a1 == a2 && (slot == 0 || g_prev[slot] == 0 || g_prev[slot] == a1)) ? 1 : 0;
	if(slot) g_prev[slot] = a1;
	r1.touch();
	f.v = r1.value(); f.mf = r1.moved(); f.sp = r1.intact() ? 1 : 0; f.uc = r1.useCount();
	return f;
}

static void put(const char * e, int o, int a, int b, const Facts & f, int sv, int sm)
{
	std::fprintf(g_out, "{\"e\":\"%s\",\"o\":%d,\"a\":%d,\"hl\":%d,\"v\":%d,\"mf\":%d,\"st\":%d,\"ag\":%d,\"it\":%d,\"io\":%d,\"sp\":%d,\"uc\":%ld,",
		e, o, a, f.hl, f.v, f.mf, f.st, f.ag, f.it, f.io, f.sp, f.uc);
	if(e[0] == 'c' || e[0] == 'r') std::fprintf(g_out, "\"sv\":%d,\"sm\":%d,", sv, sm);
	(void)b;
	std::fprintf(g_out, "\"lv\":%ld,\"k\":%d}\n", g_live, W_KIND);
}
static void putPlain(const char * e, int o, int a, int r)
{
	std::fprintf(g_out, "{\"e\":\"%s\",\"o\":%d,\"a\":%d,\"r\":%d,\"lv\":%ld,\"k\":%d}\n", e, o, a, r, g_live, W_KIND);
}

template <typename T, bool Copyable = std::is_copy_constructible<T>::value>
struct CopyIn
{
	// from a non-const (v odd) or const (v even) lvalue; the source is looked at while it is still alive
	template <typename O1, typename O2>
	static void box(int b, int v)
	{
		Facts f; int sv, sm;
		if(v % 2) { T src(v); B[b] = new (fresh(b)) AD(src); f = readFacts<T, O1, O2>(*B[b], b); sv = src.value(); sm = src.moved(); }
		else { const T src(v); B[b] = new (fresh(b)) AD(src); f = readFacts<T, O1, O2>(*B[b], b); sv = src.value(); sm = src.moved(); }
		put("c", b, v, 0, f, sv, sm);
	}
	static void enqueue(Queue & q, int v) { T src(v); q.enqueue(1, src); }
	enum { Can = 1 };
};
template <typename T>
struct CopyIn<T, false>
{
	template <typename O1, typename O2> static void box(int, int) {}
	static void enqueue(Queue &, int) {}
	enum { Can = 0 };
};

template <size_t N, int K>
struct Exec
{
	typedef Obj<N, K> T;
	typedef Obj<N + Sizes<K>::Step, K> O1;                                                      // the next size
	typedef Obj<(N > 16 && N > W_CAP ? (size_t)Sizes<K>::First : (size_t)W_CAP + 16), K> O2;    // a type on the other side of the capacity
	static_assert(sizeof(T) == N, "stored type must have exactly the size it is named after");

	static void moveIn(int b, int v)
	{
		Facts f; int sv, sm;
		{ T src(v); B[b] = new (fresh(b)) AD(std::move(src)); f = readFacts<T, O1, O2>(*B[b], b); sv = src.value(); sm = src.moved(); }
		put("r", b, v, 0, f, sv, sm);
	}

	static void step(const Op & op, Queue & q, int & heard)
	{
		const std::string & k = op.k;
		const int a = op.a, b = op.b;
		if(k == "c") { if(CopyIn<T>::Can) CopyIn<T>::template box<O1, O2>(a, b); else moveIn(a, b); }   // a move-only type cannot be copied in: recorded as what was done
		else if(k == "r") moveIn(a, b);
		else if(k == "m") {
			B[b] = new (fresh(b)) AD(std::move(*B[a]));
			put("m", a, b, 0, readFacts<T, O1, O2>(*B[b], b), 0, 0);
			put("g", a, 0, 0, readFacts<T, O1, O2>(*B[a], a), 0, 0);
		}
		else if(k == "g") put("g", a, 0, 0, readFacts<T, O1, O2>(*B[a], a), 0, 0);
		else if(k == "d") { destroyBox(a); putPlain("d", a, 0, 0); }
		else if(k == "q") {
			int mode = b;
			if(mode == 0 && ! CopyIn<T>::Can) mode = 1;
			if(mode == 0) CopyIn<T>::enqueue(q, a);
			else if(mode == 1) { T src(a); q.enqueue(1, std::move(src)); }
			else { T src(a); q.enqueue(1, AD(std::move(src))); }
			putPlain("qn", 0, a, mode);
			heard = 0;
			const bool r = q.process();
			putPlain("qe", 0, heard, r ? 1 : 0);
		}
		else { std::fprintf(stderr, "unknown op %s\n", k.c_str()); std::exit(2); }
	}

	static void run(const Script & script)
	{
		g_size = (int)N;
		for(int b = 0; b <= MaxB; ++b) { B[b] = 0; g_prev[b] = 0; }
		{
			Queue q;
			int heard = 0;
			q.appendListener(1, [&heard](const AD & d) { ++heard; put("ql", 0, 0, 0, readFacts<T, O1, O2>(d, 0), 0, 0); });
			for(const Op & op : script) step(op, q, heard);
			for(int b = 1; b <= MaxB; ++b) if(B[b]) {
				put("g", b, 0, 0, readFacts<T, O1, O2>(*B[b], b), 0, 0);
				destroyBox(b); putPlain("d", b, 0, 0);
			}
		}
		std::fprintf(g_out, "{\"e\":\"rs\",\"lv\":%ld,\"k\":%d,\"sz\":%d,\"n\":%ld}\n", g_live, W_KIND, (int)N, g_script);
		std::fflush(g_out);
		++g_execs;
	}
};

template <size_t N, int K, bool Past = (N > (size_t)(W_NMAX))>
struct ForSizes
{
	static void run(const Script & s) { Exec<N, K>::run(s); ForSizes<N + Sizes<K>::Step, K>::run(s); }
};
template <size_t N, int K>
struct ForSizes<N, K, true> { static void run(const Script &) {} };

enum { FirstSize = ((int)(W_NMIN) > (int)Sizes<W_KIND>::First ? (int)(W_NMIN) : (int)Sizes<W_KIND>::First) };
static_assert(W_KIND != 3 || FirstSize % 8 == 0, "sizes of kind 3 are multiples of 8");
static_assert(std::is_trivially_copyable<Obj<5, 0> >::value, "kind 0 must be trivially copyable");
static_assert(! std::is_copy_constructible<Obj<16, 2> >::value, "kind 2 must be move-only");

int main(int argc, char ** argv)
{
	if(argc < 2) { std::fprintf(stderr, "usage: anydata_run <trace-out> < scripts\n"); return 2; }
	g_out = std::fopen(argv[1], "w");
	if(! g_out) return 2;
	static char buf[1 << 20];
	std::setvbuf(g_out, buf, _IOFBF, sizeof(buf));
	std::set_terminate(onTerminate2);
	std::signal(SIGABRT, onAbort);
	if(&__sanitizer_set_death_callback) __sanitizer_set_death_callback(onSanitizerDeath);
	std::string line;
	Script script;
	long nontrivial = 0;
	while(std::getline(std::cin, line)) {
		if(! parseScript(line, script)) continue;
		std::signal(SIGALRM, onAlarm2); alarm(30);
		for(const Op & op : script) {
			if((op.k == "c" || op.k == "r" || op.k == "g" || op.k == "d") && (op.a < 1 || op.a > MaxB)) return 2;
			if(op.k == "m" && (op.a < 1 || op.a > MaxB || op.b < 1 || op.b > MaxB)) return 2;
		}
		ForSizes<FirstSize, W_KIND>::run(script);
		bool nt = false;
		for(const Op & op : script) if(op.k == "m" || op.k == "q") nt = true;
		if(nt) ++nontrivial;
		++g_script;
	}
	alarm(0);
	std::fclose(g_out);
	std::fprintf(stderr, "STATS {\"scripts\":%ld,\"nontrivial\":%ld,\"executions\":%ld}\n", g_script, nontrivial, g_execs);
	return 0;
}
