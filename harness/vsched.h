// Controlled ("baton") scheduler + the Threading policy types that route every mutex, atomic and condition-variable
// operation of eventpp through it (DESIGN.md 4.3).  Worker threads are real std::threads but exactly one runs at a time;
// at every scheduling point the running thread asks the strategy who goes next.  Blocking (mutex owned by somebody else,
// condition-variable wait) is modelled explicitly, so "nobody can run and not everybody finished" is detected as `stuck`
// instead of hanging.  No wall-clock time anywhere: a wait_for time-out is a scheduling choice.
#ifndef VERIF_VSCHED_H
#define VERIF_VSCHED_H

#include <mutex>
#include <condition_variable>
#include <thread>
#include <vector>
#include <string>
#include <functional>
#include <atomic>
#include <chrono>
#include <cstdio>
#include <cstdlib>
#include <cstring>

namespace vs {

struct Choice { int chosen; int nalt; };     // index into the alternatives of this point, number of alternatives

struct Strategy
{
	virtual ~Strategy() {}
	// alts: runnable thread ids (ascending); cur: running thread (-1 if it just blocked/finished); return index into alts
	virtual int choose(const std::vector<int> & alts, int cur, bool curRunnable) = 0;
	virtual void forced(int /*next*/) {}      // a point with a single runnable thread (no decision)
};

struct Sched
{
	struct T {
		bool finished = false;
		const void * blockedOnMutex = nullptr;
		const void * inWaitset = nullptr;      // condition variable it sleeps on
		bool timed = false;                    // ... with a time-out (may be chosen to run = the time-out fires)
		bool timedOut = false;
		bool woken = false;
	};
	std::mutex m;
	std::condition_variable cv;
	int running = -1;                 // worker holding the baton, -1: nobody yet, -2: execution over
	std::vector<T> th;
	Strategy * strategy = nullptr;
	std::vector<int> taken;           // schedule actually taken (thread id per scheduling decision)
	bool stuck = false;
	long points = 0;
	static thread_local int self;
	std::function<void(const char *, int)> onSync;   // optional observer of sync-level events (tag, thread)

	void reset(int n, Strategy * s) { th.assign(n, T()); strategy = s; running = -1; taken.clear(); stuck = false; points = 0; }
	bool runnable(int i) const { const T & t = th[i]; return ! t.finished && ! t.blockedOnMutex && (! t.inWaitset || t.woken || t.timed); }

	// called with m held: pick the next thread, hand the baton over, and (unless self finished) wait to get it back
	void switchFrom(std::unique_lock<std::mutex> & lk, int me, bool meFinished)
	{
		std::vector<int> alts;
		for(int i = 0; i < (int)th.size(); ++i) if(runnable(i)) alts.push_back(i);
		if(alts.empty()) {
			bool all = true;
			for(const T & t : th) all = all && t.finished;
			stuck = ! all;
			running = -2;
			cv.notify_all();
			if(! meFinished) cv.wait(lk, [] { return false; });     // parked for ever (leaked on purpose)
			return;
		}
		int nx;
		if(alts.size() == 1) { nx = alts[0]; strategy->forced(nx); }
		else { nx = alts[strategy->choose(alts, me, ! meFinished && runnable(me))]; taken.push_back(nx); }
		T & t = th[nx];
		if(t.inWaitset && ! t.woken && t.timed) { t.timedOut = true; t.woken = true; }    // chosen while still asleep: its time-out fires
		running = nx;
		if(nx != me) {
			cv.notify_all();
			if(! meFinished) cv.wait(lk, [&] { return running == me; });
		}
	}
	// a scheduling point of the running worker (main thread and harness code outside workers bypass the scheduler)
	void point(const char * tag)
	{
		if(self < 0) return;
		std::unique_lock<std::mutex> lk(m);
		++points;
		if(onSync) onSync(tag, self);
		switchFrom(lk, self, false);
	}
	void start()     // main: release the workers, wait until the execution is over (finished or stuck)
	{
		std::unique_lock<std::mutex> lk(m);
		switchFrom(lk, -1, true);
		cv.wait(lk, [&] { return running == -2; });
	}
	void workerBegin(int id) { self = id; std::unique_lock<std::mutex> lk(m); cv.wait(lk, [&] { return running == id; }); }
	void workerEnd() { std::unique_lock<std::mutex> lk(m); th[self].finished = true; int me = self; self = -1; switchFrom(lk, me, true); }
};
thread_local int Sched::self = -1;
static Sched * S = nullptr;

// what the harness wants to know about unsynchronised structural accesses: how many / which policy mutexes the thread holds
static int g_locksHeld[16];
static std::vector<const void *> g_heldSet[16];
static inline int locksHeld() { return Sched::self >= 0 ? g_locksHeld[Sched::self] : 1; }
static inline void heldAdd(int t, const void * m) { g_heldSet[t].push_back(m); }
static inline void heldDel(int t, const void * m) { for(size_t i = 0; i < g_heldSet[t].size(); ++i) if(g_heldSet[t][i] == m) { g_heldSet[t].erase(g_heldSet[t].begin() + i); break; } }

// Eraser-style lockset per shared structure (the structure is named by the marker's tag group): the set of mutexes held at EVERY
// structural access so far; empty while at least two threads have accessed it = no common lock protects the structure
struct Lockset
{
	struct S { bool init; std::vector<const void *> common; unsigned threads; };
	S s[8];
	void reset() { for(auto & x : s) { x.init = false; x.common.clear(); x.threads = 0; } }
	static int group(const char * tag)
	{
		if(tag[0] == 'c') return 0;                                   // cl.*  links of a callback list
		if(tag[0] == 'd') return 1;                                   // d.map.*
		if(std::strncmp(tag, "q.recycle", 9) == 0 || std::strncmp(tag, "q.reuse", 7) == 0) return 2;     // freeList
		return 3;                                                     // queueList
	}
	// returns true when the access leaves the structure without a common lock
	bool access(const char * tag, int t)
	{
		S & x = s[group(tag)];
		const std::vector<const void *> & held = g_heldSet[t];
		if(! x.init) { x.init = true; x.common = held; }
		else {
			std::vector<const void *> keep;
			for(const void * m : x.common) for(const void * h : held) if(m == h) { keep.push_back(m); break; }
			x.common.swap(keep);
		}
		x.threads |= 1u << t;
		return x.common.empty() && (x.threads & (x.threads - 1)) != 0;
	}
};
static Lockset g_lockset;

struct Mutex
{
	int owner = -1;
	void lock()
	{
		if(Sched::self < 0) { owner = -3; return; }
		S->point("lock");
		{
			std::unique_lock<std::mutex> lk(S->m);
			while(owner != -1) {
				S->th[Sched::self].blockedOnMutex = this;
				S->switchFrom(lk, Sched::self, false);
			}
			owner = Sched::self;
			++g_locksHeld[Sched::self];
			heldAdd(Sched::self, this);
		}
	}
	void unlock()
	{
		if(Sched::self < 0) { owner = -1; return; }
		{
			std::unique_lock<std::mutex> lk(S->m);
			owner = -1;
			--g_locksHeld[Sched::self];
			heldDel(Sched::self, this);
			for(auto & t : S->th) if(t.blockedOnMutex == this) t.blockedOnMutex = nullptr;
		}
		S->point("unlock");
	}
};

template <typename T>
struct Atomic
{
	T v;
	Atomic() noexcept : v() {}
	Atomic(T d) noexcept : v(d) {}
	// a scheduling point before and after every atomic operation: any two shared accesses of which one is atomic can be separated
	T load(std::memory_order = std::memory_order_seq_cst) const noexcept { S->point("load"); T r = v; S->point("load."); return r; }
	void store(T d, std::memory_order = std::memory_order_seq_cst) noexcept { S->point("store"); v = d; S->point("store."); }
	T exchange(T d, std::memory_order = std::memory_order_seq_cst) noexcept { S->point("xchg"); T o = v; v = d; S->point("xchg."); return o; }
	T operator ++ () noexcept { S->point("inc"); T r = ++v; S->point("inc."); return r; }
	T operator -- () noexcept { S->point("dec"); T r = --v; S->point("dec."); return r; }
	T operator = (T d) noexcept { S->point("store"); v = d; S->point("store."); return d; }
	operator T () const noexcept { return load(); }
};

struct CondVar
{
	std::vector<int> waitset;
	static std::function<void(const char *, int)> onEvent;     // "timeout", thread

	void notify_one() noexcept
	{
		if(Sched::self < 0) { wakeOne(); return; }
		S->point("notify");
		std::unique_lock<std::mutex> lk(S->m);
		wakeOne();
	}
	void notify_all() noexcept
	{
		if(Sched::self >= 0) S->point("notify");
		std::unique_lock<std::mutex> lk(S->m);
		while(! waitset.empty()) wakeOne();
	}
	template <class L, class P> void wait(L & lk, P pred) { doWait(lk, pred, false); }
	template <class L, class R, class Pd, class P> bool wait_for(L & lk, const std::chrono::duration<R, Pd> &, P pred) { return doWait(lk, pred, true); }

private:
	void wakeOne()
	{
		// the longest waiter that is still asleep (which one is woken is left to the schedule by the order threads went to sleep)
		for(size_t i = 0; i < waitset.size(); ++i) {
			Sched::T & t = S->th[waitset[i]];
			if(! t.woken) { t.woken = true; waitset.erase(waitset.begin() + i); return; }
		}
	}
	template <class L, class P> bool doWait(L & lk, P pred, bool timed)
	{
		if(Sched::self < 0) return pred();
		const int me = Sched::self;
		while(! pred()) {
			S->point("cv-block");      // the window between the predicate and going to sleep
			bool timedOut;
			{
				std::unique_lock<std::mutex> g(S->m);
				// atomically: release the mutex and join the wait set
				Mutex * mx = lk.mutex();
				mx->owner = -1;
				--g_locksHeld[me];
				heldDel(me, mx);
				for(auto & t : S->th) if(t.blockedOnMutex == mx) t.blockedOnMutex = nullptr;
				waitset.push_back(me);
				Sched::T & t = S->th[me];
				t.inWaitset = this; t.timed = timed; t.woken = false; t.timedOut = false;
				S->switchFrom(g, me, false);
				// running again: either notified or timed out
				timedOut = t.timedOut;
				t.inWaitset = nullptr; t.timed = false; t.woken = false; t.timedOut = false;
				for(size_t i = 0; i < waitset.size(); ++i) if(waitset[i] == me) { waitset.erase(waitset.begin() + i); break; }
			}
			if(timedOut && onEvent) onEvent("timeout", me);
			lk.mutex()->lock();        // re-acquire through the scheduler
			if(timedOut) return pred();
		}
		return true;
	}
};
std::function<void(const char *, int)> CondVar::onEvent;

struct Threading
{
	using Mutex = vs::Mutex;
	template <typename T> using Atomic = vs::Atomic<T>;
	using ConditionVariable = vs::CondVar;
};

// ---------------------------------------------------------------- strategies
// follows a given schedule (thread ids); afterwards: keep running the current thread, else the lowest runnable one
struct ReplayStrategy : Strategy
{
	std::vector<int> schedule; size_t pos = 0;
	int choose(const std::vector<int> & alts, int cur, bool curRunnable) override
	{
		while(pos < schedule.size()) {
			int want = schedule[pos++];
			for(size_t i = 0; i < alts.size(); ++i) if(alts[i] == want) return (int)i;
		}
		if(curRunnable) for(size_t i = 0; i < alts.size(); ++i) if(alts[i] == cur) return (int)i;
		return 0;
	}
};

// follows a schedule that has one entry per scheduling point (TLC counterexamples and covers of the Conc* models)
struct ModelReplayStrategy : Strategy
{
	std::vector<int> schedule; size_t pos = 0;
	int choose(const std::vector<int> & alts, int cur, bool curRunnable) override
	{
		while(pos < schedule.size()) {
			int want = schedule[pos++];
			for(size_t i = 0; i < alts.size(); ++i) if(alts[i] == want) return (int)i;
		}
		if(curRunnable) for(size_t i = 0; i < alts.size(); ++i) if(alts[i] == cur) return (int)i;
		return 0;
	}
	void forced(int nx) override { if(pos < schedule.size() && schedule[pos] == nx) ++pos; }
};

// depth-first enumeration of schedules with a bound on preemptions (switching away from a thread that could continue)
struct DfsStrategy : Strategy
{
	struct Node { std::vector<int> alts; int cur; bool curRunnable; int idx; int preemptionsBefore; };
	std::vector<Node> stack;     // decisions of the current execution
	std::vector<int> prefix;     // forced choices (indices) for the next execution
	size_t depth = 0;
	int bound = 2;
	int preemptions = 0;
	size_t maxDepth = 400;

	static bool isPreemption(const Node & n, int idx) { return n.curRunnable && n.alts[idx] != n.cur; }
	void beginExecution() { depth = 0; preemptions = 0; stack.clear(); }
	int defaultIdx(const std::vector<int> & alts, int cur, bool curRunnable)
	{
		if(curRunnable) for(size_t i = 0; i < alts.size(); ++i) if(alts[i] == cur) return (int)i;
		return 0;
	}
	int choose(const std::vector<int> & alts, int cur, bool curRunnable) override
	{
		Node n; n.alts = alts; n.cur = cur; n.curRunnable = curRunnable; n.preemptionsBefore = preemptions;
		if(depth < prefix.size()) n.idx = prefix[depth] < (int)alts.size() ? prefix[depth] : 0;
		else n.idx = defaultIdx(alts, cur, curRunnable);
		if(isPreemption(n, n.idx)) ++preemptions;
		stack.push_back(n);
		++depth;
		return n.idx;
	}
	// computes the prefix of the next execution; false when the space is exhausted
	bool advance()
	{
		while(! stack.empty()) {
			Node & n = stack.back();
			if(stack.size() <= maxDepth) {
				// alternatives are tried in the order: default first, then the others ascending
				int def = defaultIdx(n.alts, n.cur, n.curRunnable);
				std::vector<int> order; order.push_back(def);
				for(int i = 0; i < (int)n.alts.size(); ++i) if(i != def) order.push_back(i);
				size_t at = 0; while(at < order.size() && order[at] != n.idx) ++at;
				for(size_t k = at + 1; k < order.size(); ++k) {
					int cand = order[k];
					int p = n.preemptionsBefore + (isPreemption(n, cand) ? 1 : 0);
					if(p <= bound) {
						prefix.clear();
						for(size_t d = 0; d + 1 < stack.size(); ++d) prefix.push_back(stack[d].idx);
						prefix.push_back(cand);
						return true;
					}
				}
			}
			stack.pop_back();
		}
		return false;
	}
};

// seeded random schedules: at each point switch to another runnable thread with probability 1/den
struct RandomStrategy : Strategy
{
	unsigned long long state; int den;
	explicit RandomStrategy(unsigned long long seed, int den = 3) : state(seed * 6364136223846793005ULL + 1442695040888963407ULL), den(den) {}
	unsigned next() { state = state * 6364136223846793005ULL + 1442695040888963407ULL; return (unsigned)(state >> 33); }
	int choose(const std::vector<int> & alts, int cur, bool curRunnable) override
	{
		if(curRunnable && next() % den != 0) for(size_t i = 0; i < alts.size(); ++i) if(alts[i] == cur) return (int)i;
		return (int)(next() % alts.size());
	}
};

} // namespace vs

#endif
