// Included by eventpp/eventpolicies.h when EVENTPP_VERIF is defined (found through the harness's -I).
// EVENTPP_VERIF_POINT(tag) marks a place where the library touches shared state with no policy object in sight:
//   "<object>.<what>.w"       structural write inside a critical section
//   "<object>.<what>.r"       structural read that the code performs under a lock
//   "<object>.<what>.racy_r"  documented unlocked read
// A harness may install a hook; without one the macro costs one load and a branch.
#ifndef EVENTPP_VERIF_HOOKS_H
#define EVENTPP_VERIF_HOOKS_H
namespace eventpp_verif {
typedef void (*PointHook)(const char * tag);
inline PointHook & pointHook() { static PointHook hook = 0; return hook; }
inline void point(const char * tag) { PointHook h = pointHook(); if(h) h(tag); }
}
#define EVENTPP_VERIF_POINT(tag) ::eventpp_verif::point(tag)
#endif
