// Concurrent scenario runner for eventpp::CallbackList / EventDispatcher listener management under the controlled scheduler (C03).
// Scenario: "<k>[w<d>]:<prog>|<prog>|..."  k = number of initial callbacks (handles 1..k), w<d> = generation counter placed d additions before its wrap; ops per thread, comma separated:
//   a append | p prepend | i<h> insert before handle h | r<h> remove handle h | o<h> ownsHandle(h) | e empty/hasAnyListener | v invoke/dispatch | f forEach
// A callback added by thread t as its idx-th operation gets the id (t+1)*10+idx; its handle is usable by the same thread later (i/r/o with that id).
// Records begin/end of every call, every visit of a traversal and the final order (after join) as NDJSON for spec/TraceCC.tla.
//   W_OBJ 0 CallbackList | 1 EventDispatcher (std::map) | 2 EventDispatcher (std::unordered_map)
//         3 HeterCallbackList | 4 HeterEventDispatcher: two prototypes void() / void(int), every callback of the scenario binds to the second one, so
//           the abstract object is still one list; the per-prototype slot is created lazily by whichever thread comes first (callbackListListMutex and
//           listenerMutex come from the Threading policy and are scheduled; the inner lists always use std::mutex / std::atomic, so markers inside
//           their critical sections are not scheduling points there); no ownsHandle in these classes
#include "common.h"
#include "vsched.h"
#include <eventpp/callbacklist.h>
#include <eventpp/eventdispatcher.h>
#include <eventpp/hetercallbacklist.h>
#include <eventpp/hetereventdispatcher.h>
#include <functional>
#include <map>
#include <sstream>

#ifndef W_OBJ
#define W_OBJ 0
#endif
using namespace vf;

struct Pol {
	using Threading = eventpp::GeneralThreading<vs::Mutex, vs::Atomic, vs::CondVar>;
#if W_OBJ == 1
	template <typename K, typename V> using Map = std::map<K, V>;
#elif W_OBJ == 2
	template <typename K, typename V> using Map = std::unordered_map<K, V>;
#endif
};
#if W_OBJ == 0
typedef eventpp::CallbackList<void (int), Pol> Obj;
typedef Obj::Callback CbType;
#elif W_OBJ == 3
typedef eventpp::HeterCallbackList<eventpp::HeterTuple<void (), void (int)>, Pol> Obj;
typedef std::function<void (int)> CbType;
#elif W_OBJ == 4
typedef eventpp::HeterEventDispatcher<int, eventpp::HeterTuple<void (), void (int)>, Pol> Obj;
typedef std::function<void (int)> CbType;
#else
typedef eventpp::EventDispatcher<int, void (int), Pol> Obj;
typedef Obj::Callback CbType;
#endif
typedef Obj::Handle Handle;

static Obj * obj;
static int g_liveWorkers = 0;
static int g_init = 0;
static long g_wrapDist = -1;      // "<k>w<d>:" = after the initial callbacks the generation counter is placed d additions before its wrap-around (CallbackList only)
static std::vector<std::vector<std::string> > g_prog;
static std::map<int, Handle> * g_handles;     // id -> handle; written by the owning thread only while it holds the baton

static int self() { return vs::Sched::self; }
static bool g_multiKey = false;
static void evb(int t, const char * op, int a, int n) { std::fprintf(g_out, "{\"e\":\"b\",\"t\":%d,\"op\":\"%s\",\"a\":%d,\"n\":%d}\n", t, op, a, n); }
static void eve(int t, const char * op, int a, int r) { std::fprintf(g_out, "{\"e\":\"e\",\"t\":%d,\"op\":\"%s\",\"a\":%d,\"r\":%d}\n", t, op, a, r); }

static void pointHook(const char * tag)
{
	if(self() < 0) return;
	size_t n = std::strlen(tag);
	bool racy = n > 7 && std::strcmp(tag + n - 7, ".racy_r") == 0;
	if(racy) { vs::S->point(tag); return; }
#if W_OBJ >= 3
	if(tag[0] == 'c') return;      // inside a critical section of an inner list: a real std::mutex is held - no switch, no lockset
#endif
	// several callback lists live in one dispatcher when the scenario uses other events: their links are guarded by different mutexes, so the
	// per-structure lockset would mix them; for the list group only "some policy mutex is held" is demanded then (the map group keeps its lockset)
	if(g_multiKey && vs::Lockset::group(tag) == 0) {
		if(vs::g_heldSet[self()].empty() && g_liveWorkers >= 2) { std::fprintf(g_out, "{\"e\":\"ua\",\"t\":%d}\n", self()); vs::S->point(tag); return; }
	}
	else if(vs::g_lockset.access(tag, self()) && g_liveWorkers >= 2) {
		std::fprintf(g_out, "{\"e\":\"ua\",\"t\":%d}\n", self());
		vs::S->point(tag);
		return;
	}
	if(n > 6 && std::strcmp(tag + n - 6, ".mid.w") == 0) vs::S->point(tag);
}
struct Cb
{
	int id;
	void operator() (int) const {
		if(id >= 0 && self() >= 0) { std::fprintf(g_out, "{\"e\":\"vi\",\"t\":%d,\"a\":%d}\n", self(), id); vs::S->point("callback"); }
	}
};
static Handle handleOf(int id) { auto it = g_handles->find(id); return it == g_handles->end() ? Handle() : it->second; }

#if W_OBJ == 0
static Handle doAppend(int id) { return obj->append(Cb{id}); }
static Handle doPrepend(int id) { return obj->prepend(Cb{id}); }
static Handle doInsert(int id, const Handle & h) { return obj->insert(Cb{id}, h); }
static bool doRemove(const Handle & h) { return obj->remove(h); }
static bool doOwns(const Handle & h) { return obj->ownsHandle(h); }
static bool doEmpty() { return obj->empty(); }
static void doInvoke() { (*obj)(7); }
template <typename F> static void doForEach(F f) { obj->forEach(f); }
#elif W_OBJ == 3
static Handle doAppend(int id) { return obj->append(Cb{id}); }
static Handle doPrepend(int id) { return obj->prepend(Cb{id}); }
static Handle doInsert(int id, const Handle & h) { return obj->insert(Cb{id}, h); }
static bool doRemove(const Handle & h) { return obj->remove(h); }
static bool doOwns(const Handle &) { std::fprintf(stderr, "no ownsHandle in HeterCallbackList\n"); std::exit(2); }
static bool doEmpty() { return obj->empty(); }
static void doInvoke() { (*obj)(7); }
template <typename F> static void doForEach(F f) { obj->forEach<void (int)>(f); }
#elif W_OBJ == 4
static Handle doAppend(int id) { return obj->appendListener(1, Cb{id}); }
static Handle doPrepend(int id) { return obj->prependListener(1, Cb{id}); }
static Handle doInsert(int id, const Handle & h) { return obj->insertListener(1, Cb{id}, h); }
static bool doRemove(const Handle & h) { return obj->removeListener(1, h); }
static bool doOwns(const Handle &) { std::fprintf(stderr, "no ownsHandle in HeterEventDispatcher\n"); std::exit(2); }
static bool doEmpty() { return ! obj->hasAnyListener(1); }
static void doInvoke() { obj->dispatch(1, 7); }
template <typename F> static void doForEach(F f) { obj->forEach<void (int)>(1, f); }
#else
static Handle doAppend(int id) { return obj->appendListener(1, Cb{id}); }
static Handle doPrepend(int id) { return obj->prependListener(1, Cb{id}); }
static Handle doInsert(int id, const Handle & h) { return obj->insertListener(1, Cb{id}, h); }
static bool doRemove(const Handle & h) { return obj->removeListener(1, h); }
static bool doOwns(const Handle & h) { return obj->ownsHandle(1, h); }
static bool doEmpty() { return ! obj->hasAnyListener(1); }
static void doInvoke() { obj->dispatch(1, 7); }
template <typename F> static void doForEach(F f) { obj->forEach(1, f); }
#endif

static thread_local Handle t_other;
static int idOf(const CbType & cb) { const Cb * c = cb.target<Cb>(); return c ? c->id : -1; }

static void runOp(int t, const std::string & op, int index)
{
	vs::S->point("call");
	const char k = op[0];
	const int arg = op.size() > 1 ? std::atoi(op.c_str() + 1) : 0;
	const int id = (t + 1) * 10 + index;
	if(k == 'a') { evb(t, "a", 0, id); Handle h = doAppend(id); (*g_handles)[id] = h; eve(t, "a", 0, id); }
	else if(k == 'p') { evb(t, "p", 0, id); Handle h = doPrepend(id); (*g_handles)[id] = h; eve(t, "p", 0, id); }
	else if(k == 'i') { evb(t, "i", arg, id); Handle h = doInsert(id, handleOf(arg)); (*g_handles)[id] = h; eve(t, "i", arg, id); }
	else if(k == 'r') { evb(t, "r", arg, 0); bool r = doRemove(handleOf(arg)); eve(t, "r", arg, r ? 1 : 0); }
	else if(k == 'o') { evb(t, "o", arg, 0); bool r = doOwns(handleOf(arg)); eve(t, "o", arg, r ? 1 : 0); }
	else if(k == 'e') { evb(t, "e", 0, 0); bool r = doEmpty(); eve(t, "e", 0, r ? 1 : 0); }
	else if(k == 'v') { evb(t, "v", 0, 0); doInvoke(); eve(t, "v", 0, 0); }
	else if(k == 'f') {
		evb(t, "f", 0, 0);
		doForEach([t](const Handle &, const CbType & cb) { std::fprintf(g_out, "{\"e\":\"vi\",\"t\":%d,\"a\":%d}\n", t, idOf(cb)); vs::S->point("enum"); });
		eve(t, "f", 0, 0);
	}
#if W_OBJ != 0 && W_OBJ != 3
	// the same calls on ANOTHER event of the same dispatcher: they go through the shared map (insertion of a new key, lookups) while the calls on
	// event 1 run; what they do to event 2's own list is only judged locally (a thread removes the listener it added itself: must succeed)
	else if(k == 'x') { evb(t, "x", 0, id); t_other = obj->appendListener(2 + t, Cb{-1}); eve(t, "x", 0, 0); }      // every thread brings its own new key
	else if(k == 'y') { evb(t, "y", 0, 0); bool r = obj->removeListener(2 + t, t_other); eve(t, "y", 0, r ? 1 : 0); }
	else if(k == 'z') { evb(t, "z", 0, 0); obj->dispatch(2 + t, 7); eve(t, "z", 0, 0); }
#endif
	else { std::fprintf(stderr, "unknown op %s\n", op.c_str()); std::exit(2); }
}

static bool parseScenario(const std::string & s)
{
	g_prog.clear();
	size_t c = s.find(':');
	if(c == std::string::npos) return false;
	g_init = std::atoi(s.substr(0, c).c_str());
	size_t w = s.substr(0, c).find('w');
	g_wrapDist = w == std::string::npos ? -1 : std::atol(s.substr(w + 1, c - w - 1).c_str());
	std::stringstream ss(s.substr(c + 1)); std::string th;
	while(std::getline(ss, th, '|')) {
		std::vector<std::string> ops; std::stringstream st(th); std::string op;
		while(std::getline(st, op, ',')) if(! op.empty()) ops.push_back(op);
		g_prog.push_back(ops);
	}
	return ! g_prog.empty() && g_prog.size() <= 4;
}

static bool execute(vs::Strategy * strategy, long execNo)
{
	armWatchdog(120);      // per execution: a long exploration must not look like a hang
	vs::Sched * schedp = new vs::Sched();
	vs::Sched & sched = *schedp;
	vs::S = schedp;
	const int n = (int)g_prog.size();
	sched.reset(n, strategy);
	for(int i = 0; i < 16; ++i) { vs::g_locksHeld[i] = 0; vs::g_heldSet[i].clear(); }
	vs::g_lockset.reset();
	obj = new Obj();
	g_handles = new std::map<int, Handle>();
	for(int i = 1; i <= g_init; ++i) { (*g_handles)[i] = doAppend(i); std::fprintf(g_out, "{\"e\":\"in\",\"a\":%d}\n", i); }
#if W_OBJ == 0
	if(g_wrapDist >= 0) obj->verifSetCurrentCounter(0xffffffffu - (unsigned)g_wrapDist);
#else
	if(g_wrapDist >= 0) { std::fprintf(stderr, "counter placement needs the plain CallbackList\n"); std::exit(2); }
#endif
	std::fprintf(g_out, "{\"e\":\"go\"}\n");
	g_liveWorkers = n;
	std::vector<std::thread> threads;
	for(int t = 0; t < n; ++t) {
		threads.emplace_back([t]() {
			vs::S->workerBegin(t);
			int idx = 0;
			for(const std::string & op : g_prog[t]) runOp(t, op, idx++);
			std::fprintf(g_out, "{\"e\":\"fin\",\"t\":%d}\n", t);
			--g_liveWorkers;
			vs::S->workerEnd();
		});
	}
	sched.start();
	std::string taken;
	for(size_t i = 0; i < sched.taken.size(); ++i) { if(i) taken += ' '; taken += std::to_string(sched.taken[i]); }
	if(sched.stuck) {
		std::fprintf(g_out, "{\"e\":\"stuck\",\"t\":9}\n");
		for(auto & th : threads) th.detach();
		std::fprintf(g_out, "{\"e\":\"rs\",\"a\":1,\"n\":%ld,\"s\":\"%s\"}\n", execNo, taken.c_str());
		return false;
	}
	for(auto & th : threads) th.join();
	std::string fin;
	doForEach([&fin](const Handle &, const CbType & cb) { if(! fin.empty()) fin += ','; fin += std::to_string(idOf(cb)); });
	std::fprintf(g_out, "{\"e\":\"fl\",\"s\":[%s]}\n", fin.c_str());
	delete obj; obj = 0;
	delete g_handles; g_handles = 0;
	delete schedp;
	std::fprintf(g_out, "{\"e\":\"rs\",\"a\":0,\"n\":%ld,\"s\":\"%s\"}\n", execNo, taken.c_str());
	return true;
}

int main(int argc, char ** argv)
{
	if(argc < 4) { std::fprintf(stderr, "usage: cc_run <out> <scenario> replay|model s... | dfs <bound> <max> | rand <seed> <n>\n"); return 2; }
	g_out = std::fopen(argv[1], "w");
	if(! g_out || ! parseScenario(argv[2])) return 2;
	for(const auto & th : g_prog) for(const std::string & op : th) if(op[0] == 'x' || op[0] == 'y' || op[0] == 'z') g_multiKey = true;
	static char buf[1 << 20];
	std::setvbuf(g_out, buf, _IOFBF, sizeof(buf));
	eventpp_verif::pointHook() = &pointHook;
	std::string mode = argv[3];
	long execs = 0, stuck = 0;
	armWatchdog(300);
	if(mode == "replay" || mode == "model") {
		std::vector<int> sch; for(int i = 4; i < argc; ++i) sch.push_back(std::atoi(argv[i]));
		if(mode == "replay") { vs::ReplayStrategy st; st.schedule = sch; if(! execute(&st, 0)) ++stuck; }
		else { vs::ModelReplayStrategy st; st.schedule = sch; if(! execute(&st, 0)) ++stuck; }
		execs = 1;
	}
	else if(mode == "dfs") {
		vs::DfsStrategy st; st.bound = std::atoi(argv[4]);
		long maxExec = argc > 5 ? std::atol(argv[5]) : 100000;
		do { st.beginExecution(); if(! execute(&st, execs)) ++stuck; ++execs; } while(execs < maxExec && st.advance());
		std::fprintf(stderr, "STATS {\"executions\":%ld,\"stuck\":%ld,\"exhausted\":%d}\n", execs, stuck, execs < maxExec ? 1 : 0);
	}
	else if(mode == "rand") {
		unsigned long long seed = std::strtoull(argv[4], 0, 10); long n = std::atol(argv[5]);
		for(long i = 0; i < n; ++i) { vs::RandomStrategy st(seed * 1000003ULL + i, 2 + (int)(i % 3)); if(! execute(&st, i)) ++stuck; ++execs; }
		std::fprintf(stderr, "STATS {\"executions\":%ld,\"stuck\":%ld,\"exhausted\":0}\n", execs, stuck);
	}
	alarm(0);
	std::fclose(g_out);
	std::_Exit(0);
}
