// The interleaving models (ConcCL.tla, ConcQueue.tla) abstract every policy mutex to one variable `mtx` with "lock when free / unlock by the
// holder"; the controlled runs replace the mutex by the scheduler's.  This runner discharges that abstraction for the SHIPPED mutexes:
// real threads hammer one lock; inside the critical section (and only there) a thread appends "acq t" / "rel t" to a plain, unsynchronised
// log, so the log itself is protected by nothing but the lock under test.  TraceLock.tla accepts the log iff it is a history of the `mtx`
// abstraction; ThreadSanitizer reports every unordered pair of log accesses.
//   W_MUTEX 0 std::mutex (MultipleThreading::Mutex) | 1 eventpp::SpinLock
// scenario "T:N" = T threads x N lock/unlock rounds each
#include <eventpp/eventpolicies.h>
#include <atomic>
#include <cstdio>
#include <cstdlib>
#include <thread>
#include <vector>
#include "stress_watchdog.h"
#ifndef W_MUTEX
#define W_MUTEX 1
#endif
#if W_MUTEX == 0
typedef eventpp::MultipleThreading::Mutex Mutex;
#else
typedef eventpp::SpinLock Mutex;
#endif
struct Rec { int t; int what; };
static FILE * g_out;

static void execute(long execNo, int T, int N, unsigned seed)
{
	Mutex mtx;
	std::vector<Rec> log((size_t)T * N * 2 + 16);
	size_t used = 0;                      // plain variable, guarded by mtx only
	std::atomic<int> ready(0);
	std::vector<std::thread> threads;
	for(int t = 0; t < T; ++t) {
		threads.emplace_back([&, t]() {
			unsigned s = seed * 7919u + (unsigned)t * 104729u;
			++ready; while(ready.load() < T) {}
			for(int i = 0; i < N; ++i) {
				mtx.lock();
				if(used < log.size()) log[used++] = Rec{ t, 0 };
				s = s * 1103515245u + 12345u;
				if((s >> 16) % 8 == 0) std::this_thread::yield();      // sometimes hold the lock across a reschedule
				if(used < log.size()) log[used++] = Rec{ t, 1 };
				mtx.unlock();
				if((s >> 20) % 4 == 0) std::this_thread::yield();
			}
		});
	}
	for(auto & th : threads) th.join();
	std::fprintf(g_out, "{\"e\":\"go\",\"t\":9,\"a\":%d,\"b\":%d}\n", T, N);
	for(size_t i = 0; i < used; ++i) std::fprintf(g_out, "{\"e\":\"%s\",\"t\":%d,\"a\":0,\"b\":0}\n", log[i].what == 0 ? "acq" : "rel", log[i].t);
	std::fprintf(g_out, "{\"e\":\"fin\",\"t\":9,\"a\":%ld,\"b\":0}\n", (long)used);
	std::fprintf(g_out, "{\"e\":\"rs\",\"t\":9,\"a\":0,\"b\":0,\"n\":%ld,\"s\":\"\"}\n", execNo);
}
int main(int argc, char ** argv)
{
	// usage: lock_stress <out> <T:N> stress <seed> <count>
	if(argc < 6) return 2;
	g_out = std::fopen(argv[1], "w");
	int T = 0, N = 0;
	if(! g_out || std::sscanf(argv[2], "%d:%d", &T, &N) != 2 || T < 1 || T > 8 || N < 1) return 2;
	unsigned seed = (unsigned)std::strtoul(argv[4], 0, 10);
	long n = std::atol(argv[5]);
	startStressWatchdog(g_out);
	for(long i = 0; i < n; ++i) { execute(i, T, N, seed + (unsigned)i); ++g_stressProgress; }
	std::fclose(g_out);
	std::fprintf(stderr, "STATS {\"executions\":%ld,\"stuck\":0,\"exhausted\":0}\n", n);
	return 0;
}
