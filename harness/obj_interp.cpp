// Script interpreter for whole-object operations (C10, C08): up to three dispatcher / queue objects living in pre-filled
// storage are copy/move constructed, assigned, swapped and destroyed, interleaved with listener / filter changes,
// dispatches and queue operations.  Reads ObjGen.tla cover scripts, records NDJSON for TraceObj.tla.
//   W_KIND      0 EventQueue + MixinFilter | 1 EventDispatcher + MixinFilter | 2 HeterEventQueue | 3 HeterEventDispatcher + MixinHeterFilter
//               4 HeterCallbackList (no event key, no filters)
//   W_THREADING 0 SingleThreading | 1 MultipleThreading | 2 GeneralThreading<SpinLock> | 3 tracked mutex / atomic / condvar
//   W_FILL      byte pattern the storage holds before each construction
// Channels: homogeneous kinds use event keys 1 and 2; heterogeneous kinds use one key and the prototypes (const PA &) and (const PB &).
#include "common.h"
#include "fault.h"
#include <eventpp/eventqueue.h>
#include <eventpp/hetereventqueue.h>
#include <eventpp/hetereventdispatcher.h>
#include <eventpp/hetercallbacklist.h>
#include <eventpp/mixins/mixinfilter.h>
#include <eventpp/mixins/mixinheterfilter.h>
#include <new>
#include <string>
#include <chrono>

#ifndef W_KIND
#define W_KIND 0
#endif
#ifndef W_THREADING
#define W_THREADING 1
#endif
#ifndef W_FILL
#define W_FILL 0xAB
#endif
#define HETER (W_KIND >= 2)
#define ISQUEUE (W_KIND == 0 || W_KIND == 2)

using namespace vf;

static int g_curObj = 0;
static void evx(const char * e, int o, int a, int b, int r)
{
	std::fprintf(g_out, "{\"e\":\"%s\",\"o\":%d,\"a\":%d,\"b\":%d,\"r\":%d,\"lv\":%ld,\"pv\":%ld}\n", e, o, a, b, r, g_live, g_livePayload);
}

struct PA
{
	int c;
	explicit PA(int c = 1) : c(c) { ++g_livePayload; regAdd(this); }
	PA(const PA & o) : c(o.c) { regUse(&o); copyFaultPoint(); ++g_livePayload; regAdd(this); }
	PA & operator = (const PA & o) { regUse(&o); regUse(this); c = o.c; return *this; }
	~PA() { regDel(this); --g_livePayload; }
};
struct PB
{
	int c; std::string big;
	explicit PB(int c = 2) : c(c), big("a-string-long-enough-to-live-on-the-heap-0123456789") { ++g_livePayload; regAdd(this); }
	PB(const PB & o) : c(o.c), big(o.big) { regUse(&o); copyFaultPoint(); ++g_livePayload; regAdd(this); }
	PB & operator = (const PB & o) { regUse(&o); regUse(this); c = o.c; big = o.big; return *this; }
	~PB() { regDel(this); --g_livePayload; }
};
struct Tracked
{
	int id;
	explicit Tracked(int id) : id(id) { ++g_live; regAdd(this); }
	Tracked(const Tracked & o) : id(o.id) { regUse(&o); copyFaultPoint(); ++g_live; regAdd(this); }
	Tracked & operator = (const Tracked & o) { regUse(&o); regUse(this); id = o.id; return *this; }
	~Tracked() { regDel(this); --g_live; }
};
// listeners: bound to exactly one channel
struct CbA : Tracked { explicit CbA(int id) : Tracked(id) {} void operator() (const PA & p) const { regUse(this); regUse(&p); evx("en", g_curObj, id, HETER ? 1 : p.c, 0); } };
struct CbB : Tracked { explicit CbB(int id) : Tracked(id) {} void operator() (const PB & p) const { regUse(this); regUse(&p); evx("en", g_curObj, id, 2, 0); } };
struct FlA : Tracked { explicit FlA(int id) : Tracked(id) {} bool operator() (const PA & p) const { regUse(this); evx("fi", g_curObj, id, HETER ? 1 : p.c, 0); return true; } };

struct Pol
{
#if W_THREADING == 0
	using Threading = eventpp::SingleThreading;
#elif W_THREADING == 1
	using Threading = eventpp::MultipleThreading;
#elif W_THREADING == 3
	using Threading = eventpp::GeneralThreading<vf::TrackedMutex, vf::TrackedAtomic, vf::TrackedCondVar>;
#else
	using Threading = eventpp::GeneralThreading<eventpp::SpinLock>;
#endif
#if W_KIND == 3
	using Mixins = eventpp::MixinList<eventpp::MixinHeterFilter>;
#elif W_KIND == 2
	// MixinHeterFilter does not compile on top of HeterEventQueue (PrototypeList is private there): no filters in this world
#else
	using Mixins = eventpp::MixinList<eventpp::MixinFilter>;
#endif
};
#if W_KIND == 0
typedef eventpp::EventQueue<int, void (const PA &), Pol> Obj;
#elif W_KIND == 1
typedef eventpp::EventDispatcher<int, void (const PA &), Pol> Obj;
#elif W_KIND == 2
typedef eventpp::HeterEventQueue<int, eventpp::HeterTuple<void (const PA &), void (const PB &)>, Pol> Obj;
#elif W_KIND == 3
typedef eventpp::HeterEventDispatcher<int, eventpp::HeterTuple<void (const PA &), void (const PB &)>, Pol> Obj;
#else
struct PolL {
#if W_THREADING == 0
	using Threading = eventpp::SingleThreading;
#elif W_THREADING == 1
	using Threading = eventpp::MultipleThreading;
#elif W_THREADING == 3
	using Threading = eventpp::GeneralThreading<vf::TrackedMutex, vf::TrackedAtomic, vf::TrackedCondVar>;
#else
	using Threading = eventpp::GeneralThreading<eventpp::SpinLock>;
#endif
};
typedef eventpp::HeterCallbackList<eventpp::HeterTuple<void (const PA &), void (const PB &)>, PolL> Obj;
#endif

enum { MaxO = 3 };
alignas(16) static unsigned char g_storage[MaxO + 1][sizeof(Obj) + 64];
static Obj * O[MaxO + 1];
static int g_ncb = 0, g_nflt = 0;
static Script script;

static void * fresh(int o) { std::memset(g_storage[o], W_FILL, sizeof(g_storage[o])); return g_storage[o]; }

// the handle every addition returned, kept for "rh" (removal through the handle kept from the addition, on the object it was issued by)
// (a plain array: keeping a handle must not allocate, the fault worlds count every allocation as a fault point of the library)
// `owner` follows the rules of ObjGen / TraceObj mechanically (which kept handles still have a promised meaning) - it only decides which
// probes the epilogue issues, TraceObj judges them
struct Kept { Obj::Handle h; int c; int owner; };
enum { MaxKept = 64 };
static Kept g_kept[MaxKept];
static void retireKept(int o) { for(int i = 0; i < MaxKept; ++i) if(g_kept[i].owner == o) g_kept[i].owner = 0; }
static void forgetKept() { for(int i = 0; i < MaxKept; ++i) g_kept[i] = Kept(); }
static void append(int o, int c)
{
	int id = ++g_ncb;
	Obj::Handle h;
#if W_KIND == 4
	if(c == 1) h = O[o]->append(CbA(id)); else h = O[o]->append(CbB(id));
#elif HETER
	if(c == 1) h = O[o]->appendListener(1, CbA(id)); else h = O[o]->appendListener(1, CbB(id));
#else
	h = O[o]->appendListener(c, CbA(id));
#endif
	if(id < MaxKept) { g_kept[id].h = h; g_kept[id].c = c; g_kept[id].owner = o; }
	evx("al", o, c, 0, id);
}
static void removeStored(int o, int id)
{
	if(id < 1 || id >= MaxKept || id > g_ncb) { std::fprintf(stderr, "rh: no handle kept for %d\n", id); std::exit(2); }
	Kept * it = &g_kept[id];
	bool r;
#if W_KIND == 4
	r = O[o]->remove(it->h);
#elif HETER
	r = O[o]->removeListener(1, it->h);
#else
	r = O[o]->removeListener(it->c, it->h);
#endif
	evx("rh", o, id, 0, r ? 1 : 0);
}
static void removeFirst(int o, int c)
{
	bool found = false, r = false;
#if W_KIND == 4
	Obj::Handle h;
	if(c == 1) O[o]->forEachIf<void (const PA &)>([&](const Obj::Handle & hh, const std::function<void (const PA &)> &) -> bool { h = hh; found = true; return false; });
	else O[o]->forEachIf<void (const PB &)>([&](const Obj::Handle & hh, const std::function<void (const PB &)> &) -> bool { h = hh; found = true; return false; });
	if(found) r = O[o]->remove(h);
#elif HETER
	Obj::Handle h;
	if(c == 1) O[o]->forEachIf<void (const PA &)>(1, [&](const Obj::Handle & hh, const std::function<void (const PA &)> &) -> bool { h = hh; found = true; return false; });
	else O[o]->forEachIf<void (const PB &)>(1, [&](const Obj::Handle & hh, const std::function<void (const PB &)> &) -> bool { h = hh; found = true; return false; });
	if(found) r = O[o]->removeListener(1, h);
#else
	Obj::Handle h;
	O[o]->forEachIf(c, [&](const Obj::Handle & hh, const Obj::Callback &) -> bool { h = hh; found = true; return false; });
	if(found) r = O[o]->removeListener(c, h);
#endif
	evx("rl", o, c, 0, (found && r) ? 1 : (found ? 2 : 0));
}
static void dispatch(int o, int c)
{
	evx("db", o, c, 0, 0);
	g_curObj = o;
#if W_KIND == 4
	if(c == 1) { const PA p(1); (*O[o])(p); } else { const PB p(2); (*O[o])(p); }
#elif HETER
	if(c == 1) { const PA p(1); O[o]->dispatch(1, p); } else { const PB p(2); O[o]->dispatch(1, p); }
#else
	{ PA p(c); O[o]->dispatch(c, p); }
#endif
	g_curObj = 0;
	evx("de", o, 0, 0, 0);
}
#if ISQUEUE
static void enqueue(int o, int c)
{
#if HETER
	if(c == 1) O[o]->enqueue(1, PA(1)); else O[o]->enqueue(1, PB(2));
#else
	O[o]->enqueue(c, PA(c));
#endif
	evx("nq", o, c, 0, 0);
}
static void process(int o)
{
	evx("pb", o, 0, 0, 0);
	g_curObj = o;
	bool r = O[o]->process();
	g_curObj = 0;
	evx("pe", o, 0, 0, r ? 1 : 0);
}
#endif

static void step(const Op & op)
{
	const std::string & k = op.k;
	const int a = op.a, b = op.b;
	if(k == "al") append(a, b);
	else if(k == "rl") removeFirst(a, b);
	else if(k == "rh") removeStored(a, b);
#if W_KIND != 2 && W_KIND != 4
	else if(k == "af") { int id = ++g_nflt; O[a]->appendFilter(FlA(id)); evx("af", a, 0, 0, id); }
#endif
	else if(k == "dp") dispatch(a, b);
#if ISQUEUE
	else if(k == "nq") enqueue(a, b);
	else if(k == "pa") process(a);
	else if(k == "eq") { bool r = O[a]->emptyQueue(); evx("eq", a, 0, 0, r ? 1 : 0); }
#if W_THREADING != 0
	else if(k == "wf") { bool r = O[a]->waitFor(std::chrono::milliseconds(0)); evx("wf", a, 0, 0, r ? 1 : 0); }
#endif
#endif
	else if(k == "cc") { O[b] = new (fresh(b)) Obj(*O[a]); evx("cc", a, b, 0, 0); }
	else if(k == "mc") { retireKept(a); O[b] = new (fresh(b)) Obj(std::move(*O[a])); evx("mc", a, b, 0, 0); }
	else if(k == "ca") { if(a != b) retireKept(b); *O[b] = *O[a]; evx("ca", a, b, 0, 0); }
	else if(k == "ma") { retireKept(a); retireKept(b); *O[b] = std::move(*O[a]); evx("ma", a, b, 0, 0); }
	else if(k == "sw") { if(a != b) { retireKept(a); retireKept(b); } O[a]->swap(*O[b]); evx("sw", a, b, 0, 0); }
	else if(k == "de") { retireKept(a); O[a]->~Obj(); O[a] = 0; evx("de2", a, 0, 0, 0); }
	else { std::fprintf(stderr, "unknown op %s\n", k.c_str()); std::exit(2); }
}

static void epilogue()
{
	for(int o = 1; o <= MaxO; ++o) if(O[o]) {
#if ISQUEUE
		{ bool r = O[o]->emptyQueue(); evx("eq", o, 0, 0, r ? 1 : 0); }
		enqueue(o, 1);
		{ bool r = O[o]->emptyQueue(); evx("eq", o, 0, 0, r ? 1 : 0); }
#if W_THREADING != 0
		{ bool r = O[o]->waitFor(std::chrono::milliseconds(0)); evx("wf", o, 0, 0, r ? 1 : 0); }
#endif
		process(o);
		{ bool r = O[o]->emptyQueue(); evx("eq", o, 0, 0, r ? 1 : 0); }
#endif
		for(int c = 1; c <= 2; ++c) dispatch(o, c);
	}
	// the handles kept from the additions still mean their listeners (self assignment / self swap / copies of the object changed nothing for them)
	for(int id = 1; id <= g_ncb && id < MaxKept; ++id) if(g_kept[id].owner != 0 && O[g_kept[id].owner]) {
		const int o = g_kept[id].owner;
		removeStored(o, id);
		for(int c = 1; c <= 2; ++c) dispatch(o, c);
	}
	// independence probe: strip one object completely, the others must be unaffected
	for(int o = 1; o <= MaxO; ++o) if(O[o]) {
		for(int c = 1; c <= 2; ++c) for(int i = 0; i < 8; ++i) {
			size_t before = 0; (void)before;
			long lv = g_live;
			removeFirst(o, c);
			if(g_live == lv) break;
		}
		for(int p = 1; p <= MaxO; ++p) if(O[p]) for(int c = 1; c <= 2; ++c) dispatch(p, c);
	}
	for(int o = 1; o <= MaxO; ++o) if(O[o]) { O[o]->~Obj(); O[o] = 0; evx("de2", o, 0, 0, 0); }
	std::fprintf(g_out, "{\"e\":\"rs\",\"o\":0,\"a\":0,\"b\":0,\"r\":0,\"lv\":%ld,\"pv\":%ld,\"n\":%ld}\n", g_live, g_livePayload, g_script);
}

int main(int argc, char ** argv)
{
	if(argc < 2) { std::fprintf(stderr, "usage: obj_interp <trace-out> < scripts\n"); return 2; }
	g_out = std::fopen(argv[1], "w");
	if(! g_out) return 2;
	static char buf[1 << 20];
	std::setvbuf(g_out, buf, _IOFBF, sizeof(buf));
	std::set_terminate(onTerminate);
	std::string line;
	long nontrivial = 0;
	const bool faultMode = argc > 2 && std::string(argv[2]) == "--fault";
	const int faultKinds = argc > 3 ? std::atoi(argv[3]) : 3;
	long faultRuns = 0, faultsFired = 0;
	while(std::getline(std::cin, line)) {
		if(! parseScript(line, script)) continue;
		armWatchdog(60);
		if(faultMode) {
			for(long k = 1; k < 64; ++k) {
				for(int o = 1; o <= MaxO; ++o) O[o] = 0;
				O[1] = new (fresh(1)) Obj();
				g_ncb = g_nflt = 0; forgetKept(); forgetKept();
				for(size_t i = 0; i + 1 < script.size(); ++i) step(script[i]);
				const Op & target = script.back();
				bool threw = false;
				armFault(k, faultKinds);
				try { step(target); }
				catch(const std::bad_alloc &) { threw = true; }
				catch(const Fault &) { threw = true; }
				const bool fired = g_faultFired;
				disarmFault();
				if(threw && target.k == "ca" && W_KIND != 4) {
					// a failed copy assignment of a dispatcher / queue leaves the destination in some valid state: it is not observed, only destroyed
					evx("xa", target.a, target.b, 0, 0);
					O[target.b]->~Obj(); O[target.b] = 0; evx("de2", target.b, 0, 0, 0);
				}
				else if(threw) evx("xf", 0, (int)k, 0, 0);
				else if(fired) evx("xs", 0, (int)k, 0, 0);
				epilogue();
				++faultRuns; if(fired) ++faultsFired;
				if(! fired) break;
			}
			++g_script;
			continue;
		}
		for(int o = 1; o <= MaxO; ++o) O[o] = 0;
		O[1] = new (fresh(1)) Obj();
		g_ncb = g_nflt = 0; forgetKept();
		bool whole = false;
		for(const Op & op : script) { step(op); if(op.k == "cc" || op.k == "mc" || op.k == "ca" || op.k == "ma" || op.k == "sw") whole = true; }
		epilogue();
		if(whole) ++nontrivial;
		++g_script;
	}
	alarm(0);
	std::fclose(g_out);
	std::fprintf(stderr, "STATS {\"scripts\":%ld,\"nontrivial\":%ld,\"fault_runs\":%ld,\"faults_fired\":%ld}\n", g_script, nontrivial, faultRuns, faultsFired);
	return 0;
}
