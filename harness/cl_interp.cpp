// Script interpreter over real eventpp::CallbackList objects (C01, C02, C08, C10, C19, C20).
// Reads TLC transition-cover scripts (spec/CLImpl.tla) from stdin, replays each on fresh objects that live in
// pre-filled storage, records every call, result and callback entry/exit as NDJSON for spec/TraceCL.tla.
//
// World (compile time):  W_THREADING 0 SingleThreading | 1 MultipleThreading | 2 GeneralThreading<SpinLock> | 3 tracked mutex / atomic / condvar (common.h)
//                        W_CALLBACK  0 std::function   | 1 the tracked functor itself as Policies::Callback
//                        W_FILL      byte the object storage holds before construction
#include "common.h"
#include "fault.h"
#include <eventpp/callbacklist.h>
#include <eventpp/utilities/eventutil.h>
#include <functional>
#include <new>

#ifndef W_THREADING
#define W_THREADING 0
#endif
#ifndef W_CALLBACK
#define W_CALLBACK 0
#endif
#ifndef W_FILL
#define W_FILL 0xA5
#endif

using namespace vf;

static void onCall(int cbid, int arg);
struct Thrown { int cbid; };      // what a scripted throwing callback throws

// tracked callback object: every construction and destruction is counted
struct Cb
{
	int id;
	explicit Cb(int id = 0) : id(id) { regAdd(this); ++g_live; }
	Cb(const Cb & o) : id(o.id) { regUse(&o); copyFaultPoint(); regAdd(this); ++g_live; }
	Cb & operator = (const Cb & o) { regUse(&o); regUse(this); id = o.id; return *this; }
	~Cb() { regDel(this); --g_live; }
	void operator() (int arg) const { regUse(this); onCall(id, arg); }
	bool operator == (const Cb & o) const { return id == o.id; }
};

struct Pol
{
#if W_THREADING == 0
	using Threading = eventpp::SingleThreading;
#elif W_THREADING == 1
	using Threading = eventpp::MultipleThreading;
#elif W_THREADING == 3
	using Threading = eventpp::GeneralThreading<vf::TrackedMutex, vf::TrackedAtomic, vf::TrackedCondVar>;
#else
	using Threading = eventpp::GeneralThreading<eventpp::SpinLock>;
#endif
#if W_CALLBACK == 1
	using Callback = Cb;
#endif
};
using CL = eventpp::CallbackList<void (int), Pol>;
using Handle = CL::Handle;

enum { MaxL = 3 };
alignas(16) static unsigned char g_storage[MaxL + 1][sizeof(CL) + 64];
static CL * L[MaxL + 1];
static std::vector<Handle> H;       // handle number -> handle (1-based)
static Script script;
static size_t ip;
static int g_depth = 0;
static bool g_nontrivial = false;      // this execution ran an operation inside a callback or used a stale/empty handle
static long g_nNontrivial = 0, g_nNested = 0, g_nStale = 0, g_nWrap = 0;
static bool g_nested = false, g_stale = false;

static CL * construct(int l) { std::memset(g_storage[l], W_FILL, sizeof(g_storage[l])); return L[l] = new (g_storage[l]) CL(); }
static Handle handleOf(int h) { return (h >= 1 && h <= (int)H.size()) ? H[h - 1] : Handle(); }
static int numberOf(const Handle & h)
{
	auto p = h.lock();
	if(! p) return 0;
	for(size_t i = 0; i < H.size(); ++i) {
		auto q = H[i].lock();
		if(q && q == p) return (int)i + 1;
	}
	return -1;
}
// the handles of a freshly copied list, in list order
static int collectHandles(int l)
{
	int n = 0;
	L[l]->forEach([&n](const Handle & h, const CL::Callback &) { H.push_back(h); ++n; });
	return n;
}

static void enumerate(int l, int stop)
{
	ev("fb", l, 0, stop, 0);
	int seen = 0;
	bool res;
	if(stop == 0) {
		L[l]->forEach([&](const Handle & h, const CL::Callback & cb) {
#if W_CALLBACK == 1
			int id = cb.id;
#else
			const Cb * t = cb.target<Cb>(); int id = t ? t->id : -1;
#endif
			ev("vi", l, numberOf(h), id, 0);
		});
		res = true;
	}
	else {
		res = L[l]->forEachIf([&](const Handle & h, const CL::Callback & cb) -> bool {
#if W_CALLBACK == 1
			int id = cb.id;
#else
			const Cb * t = cb.target<Cb>(); int id = t ? t->id : -1;
#endif
			ev("vi", l, numberOf(h), id, 0);
			return ++seen < stop;
		});
	}
	ev("fe", l, 0, 0, res ? 1 : 0);
}

static bool step();
// forEach whose function is user code: it logs what it is shown, then runs script items until its "t"
static void enumerateUser(int l)
{
	ev("fub", l, 0, 0, 0);
	L[l]->forEach([l](const Handle & h, const CL::Callback & cb) {
#if W_CALLBACK == 1
		int id = cb.id;
#else
		const Cb * t = cb.target<Cb>(); int id = t ? t->id : -1;
#endif
		const int hn = numberOf(h);
		ev("vu", l, hn, id, 0);
		++g_depth;
		while(ip < script.size()) { if(script[ip].k == "x") { ++ip; break; } if(! step()) break; }
		--g_depth;
		ev("vr", l, hn, 0, 0);
	});
	ev("fue", l, 0, 0, 0);
}
static void invoke(int l, int arg)
{
	ev("vb", l, arg, 0, 0);
	try { (*L[l])(arg); }
	catch(const Thrown & t) { ev("vx", l, t.cbid, 0, 0); return; }       // the exception reached the caller of the invocation
	ev("ve", l, 0, 0, 0);
}

// executes one operation; returns false on "t" (return from the running callback)
static bool step()
{
	const Op o = script[ip++];
	const std::string & k = o.k;
	if(k == "t") return false;
	if(g_depth > 0) g_nested = true;
	if((k == "i" || k == "r" || k == "o") && ! handleOf(o.b).lock()) g_stale = true;
	// "k": initial distance of the generation counter to 2^32-1 (>= 50: a fresh list, counter untouched); "j": later jump towards it
	if(k == "k") { if(o.b < 50) L[o.a]->verifSetCurrentCounter(0xFFFFFFFFu - (unsigned)o.b); ev("k", o.a, o.b, 0, 0); }
	else if(k == "j") { L[o.a]->verifSetCurrentCounter(0xFFFFFFFFu - (unsigned)o.b); ev("j", o.a, o.b, 0, 0); }
	// (o.b > 0 in a / p: the callback is EQUAL to callback identity o.b - the same comparable callback registered once more; UtilGen scripts only)
	else if(k == "a") { int id = (int)H.size() + 1; int c = o.b > 0 ? o.b : id; H.push_back(L[o.a]->append(Cb(c))); ev("a", o.a, 0, c == id ? 0 : c, id); }
	else if(k == "p") { int id = (int)H.size() + 1; int c = o.b > 0 ? o.b : id; H.push_back(L[o.a]->prepend(Cb(c))); ev("p", o.a, 0, c == id ? 0 : c, id); }
	else if(k == "i") { int id = (int)H.size() + 1; Handle b = handleOf(o.b); H.push_back(L[o.a]->insert(Cb(id), b)); ev("i", o.a, o.b, 0, id); }
	else if(k == "r") { bool r = L[o.a]->remove(handleOf(o.b)); ev("r", o.a, o.b, 0, r ? 1 : 0); }
	else if(k == "o") { bool r = L[o.a]->ownsHandle(handleOf(o.b)); ev("o", o.a, o.b, 0, r ? 1 : 0); }
	else if(k == "e") { bool r = L[o.a]->empty(); bool r2 = ! (bool)*L[o.a]; ev("e", o.a, 0, 0, (r ? 1 : 0) + (r != r2 ? 2 : 0)); }
	else if(k == "f" || k == "g") { enumerate(o.a, o.b); }
	else if(k == "fu") { enumerateUser(o.a); }
#if W_CALLBACK == 1
	else if(k == "hl") { bool r = eventpp::hasListener(*L[o.a], Cb(o.b)); ev("hl", o.a, o.b, 0, r ? 1 : 0); }
	else if(k == "ha") { bool r = eventpp::hasAnyListener(*L[o.a]); ev("ha", o.a, 0, 0, r ? 1 : 0); }
	else if(k == "rl") { bool r = eventpp::removeListener(*L[o.a], Cb(o.b)); ev("rl", o.a, o.b, 0, r ? 1 : 0); }
#endif
	else if(k == "v") { invoke(o.a, o.b); }
	else if(k == "cc") { std::memset(g_storage[o.b], W_FILL, sizeof(g_storage[o.b])); L[o.b] = new (g_storage[o.b]) CL(*L[o.a]); int n = collectHandles(o.b); ev("cc", o.a, o.b, 0, n); }
	else if(k == "mc") { std::memset(g_storage[o.b], W_FILL, sizeof(g_storage[o.b])); L[o.b] = new (g_storage[o.b]) CL(std::move(*L[o.a])); ev("mc", o.a, o.b, 0, 0); }
	else if(k == "ca") { *L[o.b] = *L[o.a]; int n = (o.a == o.b) ? 0 : collectHandles(o.b); ev("ca", o.a, o.b, 0, n); }
	else if(k == "ma") { *L[o.b] = std::move(*L[o.a]); ev("ma", o.a, o.b, 0, 0); }
	else if(k == "s") { if((o.a + o.b) % 2) { using std::swap; swap(*L[o.a], *L[o.b]); } else { L[o.a]->swap(*L[o.b]); } ev("s", o.a, o.b, 0, 0); }
	else if(k == "d") { L[o.a]->~CL(); L[o.a] = 0; ev("d", o.a, 0, 0, 0); }
	else { std::fprintf(stderr, "unknown op %s\n", k.c_str()); std::exit(2); }
	return true;
}

static void onCall(int cbid, int arg)
{
	ev("en", 0, cbid, arg, 0);
	++g_depth;
	bool thrown = false;
	while(ip < script.size()) {
		if(script[ip].k == "x") { ++ip; thrown = true; break; }      // the callback throws
		if(! step()) break;
	}
	--g_depth;
	if(thrown) { ev("xt", 0, cbid, 0, 0); throw Thrown{cbid}; }
	ev("rt", 0, cbid, 0, 0);
}

// fixed probe epilogue: makes silent corruption of links or leaked callbacks visible inside the same execution
static void epilogue()
{
	for(int l = 1; l <= MaxL; ++l) if(L[l]) { ev("e", l, 0, 0, L[l]->empty() ? 1 : 0); enumerate(l, 0); invoke(l, 7); }
	const int n = (int)H.size();
	for(int h = 1; h <= n; ++h) {
		int owner = 0, first = 0;
		for(int l = 1; l <= MaxL; ++l) if(L[l]) {
			if(! first) first = l;
			bool r = L[l]->ownsHandle(H[h - 1]); ev("o", l, h, 0, r ? 1 : 0);
			if(r && ! owner) owner = l;
		}
		int target = owner ? owner : first;
		if(target) { bool r = L[target]->remove(H[h - 1]); ev("r", target, h, 0, r ? 1 : 0); }
	}
	for(int l = 1; l <= MaxL; ++l) if(L[l]) { invoke(l, 8); ev("e", l, 0, 0, L[l]->empty() ? 1 : 0); }
	for(int l = 1; l <= MaxL; ++l) if(L[l]) { L[l]->~CL(); L[l] = 0; ev("d", l, 0, 0, 0); }
	H.clear();
	std::fprintf(g_out, "{\"e\":\"rs\",\"o\":0,\"a\":0,\"b\":0,\"r\":0,\"lv\":%ld,\"n\":%ld}\n", g_live, g_script);
}

int main(int argc, char ** argv)
{
	if(argc < 2) { std::fprintf(stderr, "usage: cl_interp <trace-out> < scripts\n"); return 2; }
	g_out = std::fopen(argv[1], "w");
	if(! g_out) return 2;
	static char buf[1 << 20];
	std::setvbuf(g_out, buf, _IOFBF, sizeof(buf));
	std::set_terminate(onTerminate);
	const bool faultMode = argc > 2 && std::string(argv[2]) == "--fault";
	const int faultKinds = argc > 3 ? std::atoi(argv[3]) : 3;
	const bool succession = argc > 4 && std::string(argv[4]) == "succession";
	long faultRuns = 0, faultsFired = 0;
	H.reserve(256);
	std::string line;
	while(std::getline(std::cin, line)) {
		if(! parseScript(line, script)) continue;
		armWatchdog(60);
		if(faultMode) {
			// the last operation of the script is attempted with the k-th fault point armed, for k = 1, 2, ... until it completes untouched
			for(long k = 1; k < 64; ++k) {
				for(int l = 1; l <= MaxL; ++l) L[l] = 0;
				H.clear();
				construct(1);
				ip = 0; g_nested = g_stale = false;
				while(ip + 1 < script.size()) step();
				bool threw = false;
				if(ip >= script.size()) { epilogue(); break; }      // the last operation ran inside a callback: not a fault target
				armFault(k, faultKinds);
				try { step(); }
				catch(const std::bad_alloc &) { threw = true; }
				catch(const Fault &) { threw = true; }
				const bool fired = g_faultFired;
				disarmFault();
				if(threw) ev("xf", 0, (int)k, 0, 0);          // the operation threw: the caller sees the exception, nothing else happened
				else if(fired) ev("xs", 0, (int)k, 0, 0);     // a fault fired but the operation swallowed it
				if(threw && succession) {
					// faults in succession: the same operation is retried at once, fails at the same point again, and a third attempt must go through
					const size_t at = ip - 1;
					ip = at;
					bool threw2 = false;
					armFault(k, faultKinds);
					try { step(); }
					catch(const std::bad_alloc &) { threw2 = true; }
					catch(const Fault &) { threw2 = true; }
					const bool fired2 = g_faultFired;
					disarmFault();
					if(threw2) { ev("xf", 0, (int)k, 0, 0); ip = at; step(); }
					else if(fired2) ev("xs", 0, (int)k, 0, 0);
				}
				epilogue();
				++faultRuns;
				if(fired) ++faultsFired;
				if(! fired) break;
			}
			++g_script;
			continue;
		}
		for(int l = 1; l <= MaxL; ++l) L[l] = 0;
		construct(1);
		ip = 0; g_nested = g_stale = false;
		while(ip < script.size()) step();   // a stray "t" at top level cannot occur in cover scripts
		epilogue();
		if(g_nested) ++g_nNested;
		if(g_stale) ++g_nStale;
		if(g_nested || g_stale) ++g_nNontrivial;
		if(script.size() > 0 && script[0].k == "k" && script[0].b < 8) ++g_nWrap;
		++g_script;
	}
	alarm(0);
	std::fclose(g_out);
	std::fprintf(stderr, "STATS {\"scripts\":%ld,\"nontrivial\":%ld,\"nested\":%ld,\"stale_handle\":%ld,\"near_wrap\":%ld,\"fault_runs\":%ld,\"faults_fired\":%ld}\n", g_script, g_nNontrivial, g_nNested, g_nStale, g_nWrap, faultRuns, faultsFired);
	return 0;
}
