// Probe runner for C18 (AnyId keys are coherent, include/eventpp/utilities/anyid.h).
// Reads AnyId.tla cover scripts: each script is three probes ["p", value 0..8, C++ type code]; builds one AnyId per probe from the
// SAME abstract value in the C++ type named (0 int, 1 long, 2 std::string holding the decimal text) and records, for TraceAnyId.tla,
//   id   the probe                                   cmp  for every ordered pair: a == b, a < b, hash(a) == hash(b)
//   ord  (the pair facts are complete)               dp   per map kind and id: which listeners a dispatch of that id ran
// It contains no expected values: comparisons, hashes and dispatches are done by the real code and written down.
//   W_STORAGE 0 eventpp::EmptyAnyStorage (neither == nor <)
//             1 value-storing Storage with == and < (ascending by value)
//             2 value-storing Storage with == and < (descending by value: the value order disagrees with the digest order)
//   W_SPREAD  the real digest of digest index 0,1,2 (index = value / 3, so three values collide on each digest)
//             0  1, 0x5555555555555555, 0xAAAAAAAAAAAAAAAA          (spread over the whole range)
//             1  0xFFFFFFFFFFFFFFFF, 0, 0x8000000000000000          (extremes; not monotone in the value)
//             2  0x0000000300000001, 0x0000000100000001, 0x0000000200000001   (differ in the high 32 bits only)
#include "common.h"
#include <eventpp/eventdispatcher.h>
#include <eventpp/utilities/anyid.h>
#include <map>
#include <unordered_map>
#include <string>
#include <functional>

#ifndef W_STORAGE
#define W_STORAGE 1
#endif
#ifndef W_SPREAD
#define W_SPREAD 0
#endif

using namespace vf;

static_assert(sizeof(std::size_t) == 8, "the digests below are 64-bit values");

static std::size_t spreadOf(int index)
{
#if W_SPREAD == 0
	static const unsigned long long t[3] = { 1ULL, 0x5555555555555555ULL, 0xAAAAAAAAAAAAAAAAULL };
#elif W_SPREAD == 1
	static const unsigned long long t[3] = { 0xFFFFFFFFFFFFFFFFULL, 0ULL, 0x8000000000000000ULL };
#else
	static const unsigned long long t[3] = { 0x0000000300000001ULL, 0x0000000100000001ULL, 0x0000000200000001ULL };
#endif
	return static_cast<std::size_t>(t[index]);
}

// the abstract value of a probe, whatever its C++ type
static long absOf(const int & v) { return v; }
static long absOf(const long & v) { return v; }
static long absOf(const std::string & v) { return std::atol(v.c_str()); }

// W_TYPEDIG 1: the digest also depends on the C++ type, as std::hash<T> does: a std::string gets the next digest index, so int 4 and "4"
// carry different digests while a value-storing Storage stores the same value for both
#ifndef W_TYPEDIG
#define W_TYPEDIG 0
#endif
template <typename T> struct TypeShift { enum { value = 0 }; };
template <> struct TypeShift<std::string> { enum { value = W_TYPEDIG ? 1 : 0 }; };
template <typename T>
struct Dig
{
	std::size_t operator() (const T & v) const { return spreadOf(static_cast<int>((absOf(v) / 3 + TypeShift<T>::value) % 3)); }
};

// value-storing Storage: constructible from every probe type, compares the values (not their C++ representation)
struct ValStore
{
	long v;
	int t;      // the C++ type the value came from: representation only, no part in == and <
	ValStore() : v(-1), t(-1) {}
	ValStore(const int & x) : v(x), t(0) {}
	ValStore(const long & x) : v(x), t(1) {}
	ValStore(const std::string & s) : v(std::atol(s.c_str())), t(2) {}
};
inline bool operator == (const ValStore & a, const ValStore & b) { return a.v == b.v; }
#if W_STORAGE == 2
inline bool operator < (const ValStore & a, const ValStore & b) { return a.v > b.v; }
#else
inline bool operator < (const ValStore & a, const ValStore & b) { return a.v < b.v; }
#endif

// AnyId never asks the Storage for a hash.  These exist so that a variant of std::hash<AnyId> that hashes the stored value compiles in
// every world: the hash of a ValStore is that of its representation (value and origin type), as a variant-like user type would have it.
namespace std {
template <> struct hash<ValStore> { std::size_t operator() (const ValStore & s) const noexcept { return static_cast<std::size_t>(s.v * 1000003L + s.t); } };
template <> struct hash<eventpp::EmptyAnyStorage> { std::size_t operator() (const eventpp::EmptyAnyStorage &) const noexcept { return 0; } };
}

#if W_STORAGE == 0
typedef eventpp::AnyId<Dig, eventpp::EmptyAnyStorage> Id;
#else
typedef eventpp::AnyId<Dig, ValStore> Id;
#endif

struct PolMap { template <typename K, typename V> using Map = std::map<K, V>; };
struct PolHash { template <typename K, typename V> using Map = std::unordered_map<K, V>; };
typedef eventpp::EventDispatcher<Id, void (), PolMap> DispMap;
typedef eventpp::EventDispatcher<Id, void (), PolHash> DispHash;

static Id makeId(int x, int t)
{
	switch(t) {
	case 0: { const int v = x; return Id(v); }
	case 1: { const long v = x; return Id(v); }
	default: { const std::string v = std::to_string(x); return Id(v); }
	}
}

static int g_mask = 0, g_calls = 0;

template <typename Disp>
static void dispatchFacts(int kind, const Op * probes, const Id * ids)
{
	Disp d;
	// registration goes through the user-facing conversion: the raw value in its C++ type becomes the key
	for(int i = 0; i < 3; ++i) {
		const int bit = 1 << i;
		std::function<void ()> cb = [bit]() { g_mask |= bit; ++g_calls; };
		switch(probes[i].b) {
		case 0: d.appendListener((int)probes[i].a, cb); break;
		case 1: d.appendListener((long)probes[i].a, cb); break;
		default: d.appendListener(std::to_string(probes[i].a), cb); break;
		}
	}
	for(int j = 0; j < 3; ++j) {
		g_mask = 0; g_calls = 0;
		d.dispatch(ids[j]);
		std::fprintf(g_out, "{\"e\":\"dp\",\"o\":%d,\"a\":%d,\"r\":%d,\"b\":%d}\n", kind, j + 1, g_mask, g_calls);
	}
}

int main(int argc, char ** argv)
{
	if(argc < 2) { std::fprintf(stderr, "usage: anyid_run <trace-out> < scripts\n"); return 2; }
	g_out = std::fopen(argv[1], "w");
	if(! g_out) return 2;
	static char buf[1 << 20];
	std::setvbuf(g_out, buf, _IOFBF, sizeof(buf));
	std::set_terminate(onTerminate);
	std::string line;
	Script script;
	long mixed = 0, collisions = 0;
	const std::hash<Id> hasher;
	while(std::getline(std::cin, line)) {
		if(! parseScript(line, script)) continue;
		if(script.size() != 3) { std::fprintf(stderr, "a script is three probes\n"); return 2; }
		for(const Op & op : script) {
			if(op.k != "p" || op.a < 0 || op.a > 8 || op.b < 0 || op.b > 2) { std::fprintf(stderr, "bad probe %s %d %d\n", op.k.c_str(), op.a, op.b); return 2; }
		}
		armWatchdog(60);
		const Id ids[3] = { makeId(script[0].a, script[0].b), makeId(script[1].a, script[1].b), makeId(script[2].a, script[2].b) };
		for(int i = 0; i < 3; ++i) std::fprintf(g_out, "{\"e\":\"id\",\"o\":%d,\"a\":%d,\"b\":%d}\n", i + 1, script[i].a, script[i].b);
		for(int i = 0; i < 3; ++i) for(int j = 0; j < 3; ++j) {
			const bool eq = ids[i] == ids[j];
			const bool lt = ids[i] < ids[j];
			const bool he = hasher(ids[i]) == hasher(ids[j]);
			std::fprintf(g_out, "{\"e\":\"cmp\",\"o\":%d,\"a\":%d,\"eq\":%d,\"lt\":%d,\"he\":%d}\n", i + 1, j + 1, eq ? 1 : 0, lt ? 1 : 0, he ? 1 : 0);
		}
		std::fprintf(g_out, "{\"e\":\"ord\",\"o\":0,\"a\":0}\n");
		dispatchFacts<DispMap>(1, &script[0], ids);
		dispatchFacts<DispHash>(2, &script[0], ids);
		std::fprintf(g_out, "{\"e\":\"rs\",\"o\":0,\"a\":0,\"n\":%ld}\n", g_script);
		if(script[0].b != script[1].b || script[1].b != script[2].b) ++mixed;
		if((script[0].a != script[1].a && script[0].a / 3 == script[1].a / 3) || (script[1].a != script[2].a && script[1].a / 3 == script[2].a / 3)
			|| (script[0].a != script[2].a && script[0].a / 3 == script[2].a / 3)) ++collisions;
		++g_script;
	}
	alarm(0);
	std::fclose(g_out);
	std::fprintf(stderr, "STATS {\"scripts\":%ld,\"mixed_types\":%ld,\"digest_collisions\":%ld}\n", g_script, mixed, collisions);
	return 0;
}
