// Script interpreter over real eventpp::EventDispatcher / EventQueue objects (C04, C05, C08, C11, C12, C13, C20).
// Reads TLC transition-cover scripts (spec/DQImpl.tla) from stdin, replays each on a fresh object living in pre-filled
// storage, records every call, result and every entry/exit of user code (listeners, filters, predicates) as NDJSON
// for spec/TraceDQ.tla.  All user code is the same function: it logs what it sees, then keeps executing the script
// until its own return item - so a linear script is a re-entrant program.
//
// World (compile time):
//   W_OBJ       0 EventDispatcher | 1 EventQueue | 2 CallbackList behind a thin adapter (event key ignored, always 1): exercises the
//               CallbackList specialisations of ScopedRemover / CounterRemover / ConditionalRemover with the same scripts
//   W_THREADING 0 SingleThreading | 1 MultipleThreading | 2 GeneralThreading<SpinLock> | 3 tracked mutex / atomic / condvar (common.h)
//   W_KEY       0 int | 1 std::string | 2 tracked struct with operator< | 3 tracked struct with std::hash and == | 4 enum class
//   W_ARG       0 Payload by value | 1 const Payload & | 2 Payload &
//   W_MODE      0 default policies, calls exclude the event (key, args...) | 1 ArgumentPassingIncludeEvent: prototype (Key, Arg), key is an argument
//               2 ArgumentPassingExcludeEvent | 3 user getEvent policy: key taken from the payload | 4 user getEvent(key, payload by value)
//               5 user getEvent(first, payload) that ignores its first argument (key from the payload); calls pass a DECOY key first
//   W_MAP       0 default | 1 std::map | 2 std::unordered_map (needs hash) | 3 user map template
//   W_FILTER    0 none | 1 MixinFilter
//   W_MIXINS    (with W_FILTER 1) 0 MixinList<MixinFilter> | 1 <Plain, MixinFilter> | 2 <MixinFilter, Veto> | 3 <Veto, MixinFilter>
//               4 <Plain, MixinFilter, Plain, Veto>     Plain: a mixin without a before-dispatch hook; Veto: a second hook that records what
//               it sees and stops the dispatch when the argument value is 1
//   W_ORDER     0 std::list | 1 OrderedQueueList ascending by key | 2 descending by key | 3 ascending by argument value
//   W_CALLBACK  0 std::function | 1 tracked functor type as Policies::Callback
//   W_FILL      byte pattern of the storage before construction
#include "common.h"
#include "fault.h"
#include <eventpp/eventdispatcher.h>
#include <eventpp/eventqueue.h>
#include <eventpp/utilities/eventutil.h>
#include <eventpp/mixins/mixinfilter.h>
#include <eventpp/utilities/orderedqueuelist.h>
#include <eventpp/utilities/scopedremover.h>
#include <eventpp/utilities/counterremover.h>
#include <eventpp/utilities/conditionalremover.h>
#include <eventpp/utilities/conditionalfunctor.h>
#include <eventpp/utilities/argumentadapter.h>
#include <memory>
#include <functional>
#include <map>
#include <unordered_map>
#include <string>
#include <new>

#ifndef W_OBJ
#define W_OBJ 1
#endif
#ifndef W_THREADING
#define W_THREADING 0
#endif
#ifndef W_KEY
#define W_KEY 0
#endif
#ifndef W_ARG
#define W_ARG 0
#endif
#ifndef W_MODE
#define W_MODE 0
#endif
#ifndef W_MAP
#define W_MAP 0
#endif
#ifndef W_MIXINS
#define W_MIXINS 0
#endif
#ifndef W_MOVEONLY
#define W_MOVEONLY 0      // 1: the argument type is move-only (prototype const Payload &, no peekEvent)
#endif
#ifndef W_FILTER
#define W_FILTER 0
#endif
#ifndef W_ORDER
#define W_ORDER 0
#endif
#ifndef W_UTIL
#define W_UTIL 0      // 1 (needs W_CALLBACK=1): removeListener / hasAnyListener / ownsHandle go through the eventutil.h helpers by callback value
#endif
#ifndef W_CALLBACK
#define W_CALLBACK 0
#endif
#ifndef W_FILL
#define W_FILL 0xA5
#endif
#ifndef W_CANCONT
#define W_CANCONT 0     // 1: Policies::canContinueInvoking(args) = "the argument value is not 2" (arguments by const reference); 2: the same, arguments by value
#endif
#define NEVENTS (W_OBJ == 2 ? 1 : 2)

using namespace vf;

// ---------------------------------------------------------------- tracked payload (event argument)
struct Payload
{
	int uid, v, key;
	Payload() : uid(0), v(0), key(0) { ++g_livePayload; regAdd(this); }
	Payload(int uid, int v, int key) : uid(uid), v(v), key(key) { ++g_livePayload; regAdd(this); }
#if W_MOVEONLY == 1
	Payload(const Payload &) = delete;
	Payload & operator = (const Payload &) = delete;
#else
	Payload(const Payload & o) : uid(o.uid), v(o.v), key(o.key) { regUse(&o); copyFaultPoint(); ++g_livePayload; regAdd(this); }
	Payload & operator = (const Payload & o) { regUse(&o); regUse(this); copyFaultPoint(); uid = o.uid; v = o.v; key = o.key; return *this; }
#endif
	Payload(Payload && o) : uid(o.uid), v(o.v), key(o.key) { regUse(&o); copyFaultPoint(); o.uid = -1; o.v = -1000; o.key = 9; ++g_livePayload; regAdd(this); }
	Payload & operator = (Payload && o) { regUse(&o); regUse(this); copyFaultPoint(); uid = o.uid; v = o.v; key = o.key; if(&o != this) { o.uid = -1; o.v = -1000; o.key = 9; } return *this; }
	~Payload() { regDel(this); --g_livePayload; }
};

// ---------------------------------------------------------------- key types
#if W_KEY == 0
typedef int Key;
static Key makeKey(int e) { return e; }
static int keyToInt(const Key & k) { return (k >= 0 && k <= 4) ? k : 9; }
#elif W_KEY == 1
typedef std::string Key;
static Key makeKey(int e) { return std::string("event-key-number-") + char('0' + e) + "-long-enough-to-live-on-the-heap"; }
static int keyToInt(const Key & k) { return (k.size() > 17 && k.compare(0, 17, "event-key-number-") == 0) ? k[17] - '0' : 9; }
#elif W_KEY == 2 || W_KEY == 3
struct Key
{
	int k;
	Key() : k(0) {}
	explicit Key(int k) : k(k) {}
	Key(const Key & o) : k(o.k) {}
	Key(Key && o) : k(o.k) { o.k = 9; }
	Key & operator = (const Key & o) { k = o.k; return *this; }
	Key & operator = (Key && o) { k = o.k; if(&o != this) o.k = 9; return *this; }
#if W_KEY == 2
	bool operator < (const Key & o) const { return k < o.k; }
#else
	bool operator == (const Key & o) const { return k == o.k; }
#endif
};
#if W_KEY == 3
namespace std { template <> struct hash<Key> { size_t operator() (const Key & k) const { return (size_t)(k.k % 2); } }; }   // colliding on purpose
#endif
static Key makeKey(int e) { return Key(e); }
static int keyToInt(const Key & k) { return (k.k >= 0 && k.k <= 4) ? k.k : 9; }
#else
enum class Key { none = 0, a = 1, b = 2, c = 3 };
static Key makeKey(int e) { return (Key)e; }
static int keyToInt(const Key & k) { return ((int)k >= 0 && (int)k <= 4) ? (int)k : 9; }
#endif

#if W_ARG == 0
typedef Payload ArgT;
#elif W_ARG == 1
typedef const Payload & ArgT;
#else
typedef Payload & ArgT;
#endif

// ---------------------------------------------------------------- user code
static void onListener(int id, int keySeen, const Payload & p);
static bool onFilter(int id, Payload * mut, const Payload & p);
static bool onPredicate(const Payload & p);
static bool onCondition(int id, const Payload & p);

struct Cb
{
	int id;
	explicit Cb(int id = 0) : id(id) { ++g_live; regAdd(this); }
	Cb(const Cb & o) : id(o.id) { regUse(&o); copyFaultPoint(); ++g_live; regAdd(this); }
	Cb & operator = (const Cb & o) { regUse(&o); regUse(this); id = o.id; return *this; }
	~Cb() { regDel(this); --g_live; }
	void operator() (ArgT p) const { regUse(this); onListener(id, 0, p); }
	void operator() (const Key & k, ArgT p) const { regUse(this); onListener(id, keyToInt(k), p); }
	bool operator == (const Cb & o) const { return id == o.id; }
};
struct Fl
{
	int id;
	explicit Fl(int id = 0) : id(id) { ++g_live; regAdd(this); }
	Fl(const Fl & o) : id(o.id) { regUse(&o); copyFaultPoint(); ++g_live; regAdd(this); }
	Fl & operator = (const Fl & o) { regUse(&o); regUse(this); id = o.id; return *this; }
	~Fl() { regDel(this); --g_live; }
	bool operator() (Payload & p) const { regUse(this); return onFilter(id, &p, p); }
	bool operator() (const Payload & p) const { regUse(this); return onFilter(id, 0, p); }
	template <typename K> bool operator() (K &, Payload & p) const { regUse(this); return onFilter(id, &p, p); }
	template <typename K> bool operator() (K &, const Payload & p) const { regUse(this); return onFilter(id, 0, p); }
};
struct Cond      // condition of a ConditionalRemover: scripted, evaluated with the trigger's arguments
{
	int id;
	bool operator() (ArgT p) const { return onCondition(id, p); }
	bool operator() (const Key &, ArgT p) const { return onCondition(id, p); }
};
// a condition that can be called with the trigger's arguments AND without any: the arguments win; the argument-less form is recorded as "kw",
// for which no specification has a step.   A condition that can only be called without arguments ("kn").
static bool onConditionNoArg(int id, const char * rec);
struct CondBoth
{
	int id;
	bool operator() (ArgT p) const { return onCondition(id, p); }
	bool operator() (const Key &, ArgT p) const { return onCondition(id, p); }
	bool operator() () const { return onConditionNoArg(id, "kw"); }
};
struct CondNoArg { int id; bool operator() () const { return onConditionNoArg(id, "kn"); } };
// which of the three a ConditionalRemover listener gets is decided by its number (modulo 3: 1 both forms, 2 without arguments only, 0 arguments only)
#define REG_COND(id, CALLEXPR) ((id) % 3 == 0 ? [&]() -> Handle { Cond C{id}; return CALLEXPR; }() : (id) % 3 == 1 ? [&]() -> Handle { CondBoth C{id}; return CALLEXPR; }() \
	: [&]() -> Handle { CondNoArg C{id}; return CALLEXPR; }())
// what an argumentAdapter-wrapped listener takes instead of the prototype's argument type
struct PayloadView { int uid, v; PayloadView(const Payload & p) : uid(p.uid), v(p.v) { regUse(&p); } };
struct AdaptedCb
{
	Cb inner;
	explicit AdaptedCb(int id) : inner(id) {}
	void operator() (PayloadView w) const { regUse(&inner); Payload copy(w.uid, w.v, 0); onListener(inner.id, 0, copy); }
	void operator() (const Key & k, PayloadView w) const { regUse(&inner); Payload copy(w.uid, w.v, 0); onListener(inner.id, keyToInt(k), copy); }
};
// (takes the argument the way the prototype does - by value in the by-value worlds, so that a wrapper handing it an rvalue would move the dispatch's argument away)
struct EvenCond { bool operator() (ArgT p) const { return p.v % 2 == 0; } bool operator() (const Key &, ArgT p) const { return p.v % 2 == 0; } };
struct Pred
{
	bool operator() (ArgT p) const { return onPredicate(p); }
	bool operator() (const Key &, ArgT p) const { return onPredicate(p); }
};

// ---------------------------------------------------------------- policies
template <typename K, typename V> using UserMap = std::map<K, V, std::less<K> >;
struct ByArgCompare { template <typename T> bool operator() (const T & a, const T & b) const { copyFaultPoint(); return std::get<std::tuple_size<decltype(a.arguments)>::value - 1>(a.arguments).v < std::get<std::tuple_size<decltype(b.arguments)>::value - 1>(b.arguments).v; } };
struct DescCompare { template <typename T> bool operator() (const T & a, const T & b) const { return b.event < a.event; } };

// ---- user mixins (C12: one or several mixins)
static void onVeto(const Payload & p, bool stop);
template <typename Base> struct PlainMixin : public Base { int plainMixinMarker() const { return 1; } };
template <typename Last> static const Last & lastArg(const Last & x) { return x; }
template <typename First, typename ...Rest> static auto lastArg(const First &, const Rest & ...rest) -> decltype(lastArg(rest...)) { return lastArg(rest...); }
template <typename Base> struct VetoMixin : public Base
{
	template <typename ...A> bool mixinBeforeDispatch(A && ...a) const { const Payload & p = lastArg(a...); const bool stop = p.v == 1; onVeto(p, stop); return ! stop; }
};
struct Pol
{
#if W_THREADING == 0
	using Threading = eventpp::SingleThreading;
#elif W_THREADING == 1
	using Threading = eventpp::MultipleThreading;
#elif W_THREADING == 3
	using Threading = eventpp::GeneralThreading<vf::TrackedMutex, vf::TrackedAtomic, vf::TrackedCondVar>;
#else
	using Threading = eventpp::GeneralThreading<eventpp::SpinLock>;
#endif
#if W_CALLBACK == 1
	using Callback = Cb;
#endif
#if W_MODE == 1
	using ArgumentPassingMode = eventpp::ArgumentPassingIncludeEvent;
#elif W_MODE == 2
	using ArgumentPassingMode = eventpp::ArgumentPassingExcludeEvent;
#elif W_MODE == 3
	static Key getEvent(const Payload & p) { return makeKey(p.key); }
#elif W_MODE == 4
	// user policy that looks at a later argument and takes it BY VALUE (as tests/unittest "customized event" does)
	static Key getEvent(const Key & k, Payload p) { return p.uid == -1 ? makeKey(0) : k; }
#elif W_MODE == 5
	// the policy is NOT the identity on the leading argument: what the caller passes first is the other event's key
	static Key getEvent(const Key &, const Payload & p) { return makeKey(p.key); }
#endif
#if W_MAP == 1
	template <typename K, typename V> using Map = std::map<K, V>;
#elif W_MAP == 2
	template <typename K, typename V> using Map = std::unordered_map<K, V>;
#elif W_MAP == 3
	template <typename K, typename V> using Map = UserMap<K, V>;
#endif
#if W_FILTER == 1
#if W_MIXINS == 0
	using Mixins = eventpp::MixinList<eventpp::MixinFilter>;
#elif W_MIXINS == 1
	using Mixins = eventpp::MixinList<PlainMixin, eventpp::MixinFilter>;
#elif W_MIXINS == 2
	using Mixins = eventpp::MixinList<eventpp::MixinFilter, VetoMixin>;
#elif W_MIXINS == 3
	using Mixins = eventpp::MixinList<VetoMixin, eventpp::MixinFilter>;
#else
	using Mixins = eventpp::MixinList<PlainMixin, eventpp::MixinFilter, PlainMixin, VetoMixin>;
#endif
#endif
#if W_CANCONT == 1
	static bool canContinueInvoking(const Payload & p) { return p.v != 2; }
	static bool canContinueInvoking(const Key &, const Payload & p) { return p.v != 2; }
#elif W_CANCONT == 3
	// the policy takes the arguments the way a prototype with non-const reference parameters hands them over (W_ARG=2 worlds): the library's
	// detection of the policy must probe it with the prototype's own argument kinds
	static bool canContinueInvoking(Payload & p) { return p.v != 2; }
	static bool canContinueInvoking(const Key &, Payload & p) { return p.v != 2; }
#elif W_CANCONT == 2
	// the same policy taking its arguments BY VALUE: it gets copies of the dispatch's arguments, which must stay intact for the next listener
	static bool canContinueInvoking(Payload p) { return p.v != 2; }
	static bool canContinueInvoking(Key, Payload p) { return p.v != 2; }
#endif
#if W_ORDER == 1
	template <typename Item> using QueueList = eventpp::OrderedQueueList<Item>;
#elif W_ORDER == 2
	template <typename Item> using QueueList = eventpp::OrderedQueueList<Item, DescCompare>;
#elif W_ORDER == 3
	template <typename Item> using QueueList = eventpp::OrderedQueueList<Item, ByArgCompare>;
#endif
};

#if W_MODE == 1
typedef void Proto(Key, ArgT);
#else
typedef void Proto(ArgT);
#endif
#if W_OBJ == 0
typedef eventpp::EventDispatcher<Key, Proto, Pol> Q;
#elif W_OBJ == 1
typedef eventpp::EventQueue<Key, Proto, Pol> Q;
#else
typedef eventpp::CallbackList<Proto, Pol> CLType;
struct ListQ     // a CallbackList seen through the dispatcher-shaped calls the interpreter makes
{
	typedef CLType::Handle Handle;
	typedef CLType::Callback Callback;
	typedef Key Event;
	typedef CLType::Mutex Mutex;
	CLType list;
	Handle appendListener(const Key &, const Callback & cb) { return list.append(cb); }
	Handle prependListener(const Key &, const Callback & cb) { return list.prepend(cb); }
	Handle insertListener(const Key &, const Callback & cb, const Handle & before) { return list.insert(cb, before); }
	bool removeListener(const Key &, const Handle & h) { return list.remove(h); }
	bool hasAnyListener(const Key &) const { return ! list.empty(); }
	bool ownsHandle(const Key &, const Handle & h) const { return list.ownsHandle(h); }
	template <typename F> void forEach(const Key &, F && f) const { list.forEach(std::forward<F>(f)); }
	void dispatch(const Key &, Payload & p) const { list(p); }
};
typedef ListQ Q;
#endif
typedef Q::Handle Handle;

alignas(16) static unsigned char g_storage[sizeof(Q) + 64];
static Q * q;
// a second dispatcher (only ScopedRemovers put listeners there; its events are logged as keys 3,4) and the removers
alignas(16) static unsigned char g_storage2[sizeof(Q) + 64];
static Q * q2;
#if W_OBJ == 2
typedef eventpp::ScopedRemover<CLType> SR;
#define SR_TARGET(qq) ((qq)->list)
#define SR_APPEND(r, key, cb) (r).append(cb)
#define SR_PREPEND(r, key, cb) (r).prepend(cb)
#define SR_REMOVE(r, key, h) (r).remove(h)
#define SR_RETARGET(r, qq) (r).setCallbackList((qq)->list)
#else
typedef eventpp::ScopedRemover<Q> SR;
#define SR_TARGET(qq) (*(qq))
#define SR_APPEND(r, key, cb) (r).appendListener(key, cb)
#define SR_PREPEND(r, key, cb) (r).prependListener(key, cb)
#define SR_REMOVE(r, key, h) (r).removeListener(key, h)
#define SR_RETARGET(r, qq) (r).setDispatcher(*(qq))
#endif
enum { MaxR = 3 };
static std::unique_ptr<SR> R[MaxR + 1];
static int RT[MaxR + 1];            // which dispatcher the harness told remover r to work on (mirrors the commands, for logging only)
static int g_keyOffset = 0;
static std::vector<int> HE;         // handle number -> event it was registered under
static std::vector<Handle> H;
#if W_FILTER == 1
static std::vector<Q::FilterHandle> FH;
#endif
static Script script;
static size_t ip;
static int g_uid;
static int g_depth;
static bool g_nested, g_putback, g_recycled;
static bool g_noDrain;              // "zz": destroy the queue with its pending events
static long g_nNested, g_nPutback, g_nNontrivial;

static void evx(const char * e, int o, int a, int b, int r, int u)
{
	std::fprintf(g_out, "{\"e\":\"%s\",\"o\":%d,\"a\":%d,\"b\":%d,\"r\":%d,\"u\":%d,\"lv\":%ld,\"pv\":%ld}\n", e, o, a, b, r, u, g_live, g_livePayload);
}
static Handle handleOf(int h) { return (h >= 1 && h <= (int)H.size()) ? H[h - 1] : Handle(); }
static void onVeto(const Payload & p, bool stop) { regUse(&p); evx("mv", 0, 0, p.v, stop ? 1 : 0, p.uid); }
static int numberOf(const Handle & h)
{
	auto p = h.lock();
	if(! p) return 0;
	for(size_t i = 0; i < H.size(); ++i) { auto x = H[i].lock(); if(x && x == p) return (int)i + 1; }
	return -1;
}

static bool step();
struct Thrown { int id; };          // what scripted user code throws
// runs script items as the body of a piece of user code, up to and including its return item ("x" = it throws)
static Op runUser(int id)
{
	++g_depth;
	Op ret; ret.a = ret.b = 0;
	while(ip < script.size()) {
		const std::string & k = script[ip].k;
		if(k == "t" || k == "pt" || k == "ft" || k == "ct" || k == "x") { ret = script[ip++]; break; }
		step();
	}
	--g_depth;
	if(ret.k == "x") { evx("xt", 0, id, 0, 0, 0); throw Thrown{id}; }
	return ret;
}
static bool onCondition(int id, const Payload & p)
{
	regUse(&p);
	evx("kb", 0, id, p.v, 0, p.uid);
	Op r = runUser(id);
	bool verdict = (r.k == "ct") ? r.a != 0 : false;
	evx("ke", 0, id, 0, verdict ? 1 : 0, 0);
	return verdict;
}
static bool onConditionNoArg(int id, const char * rec)
{
	evx(rec, 0, id, 0, 0, 0);
	Op r = runUser(id);
	bool verdict = (r.k == "ct") ? r.a != 0 : false;
	evx("ke", 0, id, 0, verdict ? 1 : 0, 0);
	return verdict;
}
static void onListener(int id, int keySeen, const Payload & p)
{
	regUse(&p);
	if(keySeen) keySeen += g_keyOffset;
	evx("en", keySeen, id, p.v, 0, p.uid);
	runUser(id);
	evx("rt", 0, id, 0, 0, 0);
}
static bool onFilter(int id, Payload * mut, const Payload & p)
{
	regUse(&p);
	evx("fb", 0, id, p.v, 0, p.uid);
	Op r = runUser(id);
	int d = 0; bool verdict = true;
	if(r.k == "ft") { d = r.a; verdict = r.b != 0; }
	if(mut && d) mut->v += d; else d = 0;
	evx("fe", 0, id, d, verdict ? 1 : 0, 0);
	return verdict;
}
static bool onPredicate(const Payload & p)
{
	regUse(&p);
	evx("qb", 0, 0, p.v, 0, p.uid);
	Op r = runUser(0);
	bool verdict = (r.k == "pt") ? r.a != 0 : false;
	evx("qe", 0, 0, 0, verdict ? 1 : 0, 0);
	return verdict;
}

#if W_MODE == 5
static Key callKey(int e) { return makeKey(e == 1 ? 2 : 1); }
#else
static Key callKey(int e) { return makeKey(e); }
#endif
template <typename Obj> static void callDispatch(Obj & o, int e, Payload & p)
{
#if W_MODE == 1
	if(p.uid % 2) { Key k = makeKey(e); o.dispatch(k, p); } else { o.dispatch(makeKey(e), p); }
#elif W_MODE == 3
	(void)e; o.dispatch(p);
#else
	if(p.uid % 2) { Key k = callKey(e); o.dispatch(k, p); } else { o.dispatch(callKey(e), p); }
#endif
}
static void dispatch(int e, int v, int d = 1)
{
	int uid = ++g_uid, after;
	bool threw = false;
	evx("db", e + 2 * (d - 1), v, W_ARG == 2 ? 1 : 0, 0, uid);
	{
		Payload p(uid, v, e);
		g_keyOffset = 2 * (d - 1);
		try { callDispatch(d == 1 ? *q : *q2, e, p); }
		catch(const Thrown &) { threw = true; }
		catch(const Fault &) { threw = true; }
		catch(const std::bad_alloc &) { threw = true; }
		g_keyOffset = 0;
		after = p.v;
		if(p.uid != uid) after = -1000;      // the caller's own object was moved from
	}
	if(threw) { evx("dx", 0, 0, 0, 0, uid); return; }      // the exception reached the caller of dispatch
	evx("de", 0, after, 0, 0, uid);
}
#if W_OBJ == 1
static void enqueue(int e, int v)
{
	int uid = ++g_uid;
	if(uid % 2) {
		Payload p(uid, v, e);
#if W_MODE == 3
		q->enqueue(p);
#else
		Key k = callKey(e);
#if W_MOVEONLY == 1
		q->enqueue(k, std::move(p));
#else
		q->enqueue(k, p);
#endif
#endif
	}
	else {
#if W_MODE == 3
		q->enqueue(Payload(uid, v, e));
#elif W_ARG == 2
		Payload p(uid, v, e);
		q->enqueue(callKey(e), p);
#else
		q->enqueue(callKey(e), Payload(uid, v, e));
#endif
	}
	evx("nq", e, v, 0, 0, uid);
}
static void process(int mode)
{
	evx("pb", 0, mode, 0, 0, 0);
	bool r = false;
	try {
		if(mode == 1) r = q->process();
		else if(mode == 2) r = q->processOne();
		else if(mode == 3) r = q->processIf(Pred());
		else r = q->processUntil(Pred());
	}
	catch(const Thrown &) { evx("px", 0, mode, 0, 0, 0); return; }          // the exception reached the caller of process*
	catch(const Fault &) { evx("px", 0, mode, 0, 0, 0); return; }
	catch(const std::bad_alloc &) { evx("px", 0, mode, 0, 0, 0); return; }
	evx("pe", 0, mode, 0, r ? 1 : 0, 0);
}
template <typename QE> static const Payload & payloadOf(const QE & qe) { return std::get<std::tuple_size<decltype(qe.arguments)>::value - 1>(qe.arguments); }
static void peekOrTake(bool take)
{
	int u = 0, v = 0, e = 0; bool r;
	{
		Q::QueuedEvent qe;
#if W_MOVEONLY == 1
		if(! take) { std::fprintf(stderr, "unknown op pk (move-only arguments)\n"); std::exit(2); }
		r = q->takeEvent(&qe);
#else
		r = take ? q->takeEvent(&qe) : q->peekEvent(&qe);
#endif
		if(r) { u = payloadOf(qe).uid; v = payloadOf(qe).v; e = keyToInt(qe.event); }
	}
	evx(take ? "tk" : "pk", e, v, 0, r ? 1 : 0, u);
}
#if W_ARG != 2
// takeEvent, then dispatch(queuedEvent) of what was taken (the QueuedEvent is the caller's object and lives across the dispatch)
static void takeDispatch()
{
	int u = 0, v = 0, e = 0, after = 0; bool r, threw = false;
	{
		Q::QueuedEvent qe;
		r = q->takeEvent(&qe);
		if(r) {
			u = payloadOf(qe).uid; v = payloadOf(qe).v; e = keyToInt(qe.event);
			evx("td", e, v, 0, 1, u);
			try { q->dispatch(qe); }
			catch(const Thrown &) { threw = true; }
			catch(const Fault &) { threw = true; }
			catch(const std::bad_alloc &) { threw = true; }
			after = payloadOf(qe).v;
			if(payloadOf(qe).uid != u) after = -1000;
		}
	}
	if(! r) { evx("td", 0, 0, 0, 0, 0); return; }
	if(threw) { evx("dx", 0, 0, 0, 0, u); return; }
	evx("de", 0, after, 0, 0, u);
}
#endif
#endif

static bool step()
{
	const Op o = script[ip++];
	const std::string & k = o.k;
	if(g_depth > 0) g_nested = true;
	if(k == "al") { int id = (int)H.size() + 1; H.push_back(q->appendListener(makeKey(o.a), Cb(id))); HE.push_back(o.a); evx("al", o.a, 0, 0, id, 0); }
	else if(k == "pl") { int id = (int)H.size() + 1; H.push_back(q->prependListener(makeKey(o.a), Cb(id))); HE.push_back(o.a); evx("pl", o.a, 0, 0, id, 0); }
	else if(k == "il") { int id = (int)H.size() + 1; Handle b = handleOf(o.b); H.push_back(q->insertListener(makeKey(o.a), Cb(id), b)); HE.push_back(o.a); evx("il", o.a, o.b, 0, id, 0); }
#if W_CALLBACK == 0
	// CounterRemover / ConditionalRemover: the helper object is a temporary, gone right after the registration
#if W_OBJ == 2
	else if(k == "ac") { int id = (int)H.size() + 1; H.push_back(eventpp::counterRemover(q->list).append(Cb(id), o.b)); HE.push_back(o.a); evx("ac", o.a, o.b, 0, id, 0); }
	else if(k == "ak") { int id = (int)H.size() + 1; H.push_back(REG_COND(id, eventpp::conditionalRemover(q->list).append(Cb(id), C))); HE.push_back(o.a); evx("ak", o.a, 0, 0, id, 0); }
	else if(k == "pc") { int id = (int)H.size() + 1; H.push_back(eventpp::counterRemover(q->list).prepend(Cb(id), o.b)); HE.push_back(o.a); evx("pc", o.a, o.b, 0, id, 0); }
	else if(k == "ic") { int id = (int)H.size() + 1; Handle b = handleOf(o.a / 10); H.push_back(eventpp::counterRemover(q->list).insert(Cb(id), b, o.b)); HE.push_back(o.a % 10); evx("ic", o.a % 10, o.b, o.a / 10, id, 0); }
	else if(k == "qk") { int id = (int)H.size() + 1; H.push_back(REG_COND(id, eventpp::conditionalRemover(q->list).prepend(Cb(id), C))); HE.push_back(o.a); evx("qk", o.a, 0, 0, id, 0); }
	else if(k == "ik") { int id = (int)H.size() + 1; Handle b = handleOf(o.b); H.push_back(REG_COND(id, eventpp::conditionalRemover(q->list).insert(Cb(id), b, C))); HE.push_back(o.a); evx("ik", o.a, 0, o.b, id, 0); }
#else
	else if(k == "ac") { int id = (int)H.size() + 1; H.push_back(eventpp::counterRemover(*q).appendListener(makeKey(o.a), Cb(id), o.b)); HE.push_back(o.a); evx("ac", o.a, o.b, 0, id, 0); }
	else if(k == "ak") { int id = (int)H.size() + 1; H.push_back(REG_COND(id, eventpp::conditionalRemover(*q).appendListener(makeKey(o.a), Cb(id), C))); HE.push_back(o.a); evx("ak", o.a, 0, 0, id, 0); }
	else if(k == "pc") { int id = (int)H.size() + 1; H.push_back(eventpp::counterRemover(*q).prependListener(makeKey(o.a), Cb(id), o.b)); HE.push_back(o.a); evx("pc", o.a, o.b, 0, id, 0); }
	else if(k == "ic") { int id = (int)H.size() + 1; Handle b = handleOf(o.a / 10); H.push_back(eventpp::counterRemover(*q).insertListener(makeKey(o.a % 10), Cb(id), b, o.b)); HE.push_back(o.a % 10); evx("ic", o.a % 10, o.b, o.a / 10, id, 0); }
	else if(k == "qk") { int id = (int)H.size() + 1; H.push_back(REG_COND(id, eventpp::conditionalRemover(*q).prependListener(makeKey(o.a), Cb(id), C))); HE.push_back(o.a); evx("qk", o.a, 0, 0, id, 0); }
	else if(k == "ik") { int id = (int)H.size() + 1; Handle b = handleOf(o.b); H.push_back(REG_COND(id, eventpp::conditionalRemover(*q).insertListener(makeKey(o.a), Cb(id), b, C))); HE.push_back(o.a); evx("ik", o.a, 0, o.b, id, 0); }
#endif
#endif
#if W_CALLBACK == 0
	// conditionalFunctor (runs when the argument value is even) / argumentAdapter (converts the argument to the listener's own type)
	else if(k == "aw") { int id = (int)H.size() + 1; H.push_back(q->appendListener(makeKey(o.a), eventpp::conditionalFunctor(Cb(id), EvenCond()))); HE.push_back(o.a); evx("aw", o.a, 0, 0, id, 0); }
#if W_MODE == 1
	else if(k == "aa") { int id = (int)H.size() + 1; H.push_back(q->appendListener(makeKey(o.a), eventpp::argumentAdapter<void (const Key &, PayloadView)>(AdaptedCb(id)))); HE.push_back(o.a); evx("al", o.a, 0, 0, id, 0); }
#else
	else if(k == "aa") { int id = (int)H.size() + 1; H.push_back(q->appendListener(makeKey(o.a), eventpp::argumentAdapter<void (PayloadView)>(AdaptedCb(id)))); HE.push_back(o.a); evx("al", o.a, 0, 0, id, 0); }
#endif
#endif
	// ScopedRemover o.a
	else if(k == "sa" || k == "sp") {
		int id = (int)H.size() + 1; SR & r = *R[o.a];
		H.push_back(k == "sa" ? SR_APPEND(r, makeKey(o.b), Cb(id)) : SR_PREPEND(r, makeKey(o.b), Cb(id))); HE.push_back(o.b);
		evx(k.c_str(), o.a, o.b + 2 * (RT[o.a] - 1), 0, id, 0);
	}
	else if(k == "sr") { int e = (o.b >= 1 && o.b <= (int)HE.size()) ? HE[o.b - 1] : 1; bool r = SR_REMOVE(*R[o.a], makeKey(e), handleOf(o.b)); evx("sr", o.a, o.b, 0, r ? 1 : 0, 0); }
	else if(k == "sx") { R[o.a]->reset(); evx("sx", o.a, 0, 0, 0, 0); }
	else if(k == "st") { SR_RETARGET(*R[o.a], o.b == 1 ? q : q2); RT[o.a] = o.b; evx("st", o.a, o.b, 0, 0, 0); }
	else if(k == "sc") { R[o.b].reset(new SR(std::move(*R[o.a]))); RT[o.b] = RT[o.a]; evx("sc", o.a, o.b, 0, 0, 0); }
	else if(k == "sm") { *R[o.b] = std::move(*R[o.a]); RT[o.b] = RT[o.a]; evx("sm", o.a, o.b, 0, 0, 0); }
	else if(k == "ss") { if((o.a + o.b) % 2) R[o.a]->swap(*R[o.b]); else R[o.b]->swap(*R[o.a]); std::swap(RT[o.a], RT[o.b]); evx("ss", o.a, o.b, 0, 0, 0); }
	else if(k == "sd") { R[o.a].reset(); evx("sd", o.a, 0, 0, 0, 0); }
	else if(k == "sn") { R[o.a].reset(new SR(SR_TARGET(o.b == 1 ? q : q2))); RT[o.a] = o.b; evx("sn", o.a, o.b, 0, 0, 0); }
#if W_UTIL == 1
	// the eventutil.h helpers in their dispatcher / queue form, searching by callback VALUE: every listener is Cb(<its own number>), so
	// "the listener equal to Cb(h) of this event" is exactly handle h - the same records as the member functions, judged by the same rules
	else if(k == "rl") { bool r = eventpp::removeListener(*q, makeKey(o.a), Cb(o.b)); evx("rl", o.a, o.b, 0, r ? 1 : 0, 0); }
	else if(k == "hl") { bool r = eventpp::hasAnyListener(*q, makeKey(o.a)); evx("hl", o.a, 0, 0, r ? 1 : 0, 0); }
	else if(k == "ol") { bool r = eventpp::hasListener(*q, makeKey(o.a), Cb(o.b)); evx("ol", o.a, o.b, 0, r ? 1 : 0, 0); }
#else
	else if(k == "rl") { bool r = q->removeListener(makeKey(o.a), handleOf(o.b)); evx("rl", o.a, o.b, 0, r ? 1 : 0, 0); }
	else if(k == "hl") { bool r = q->hasAnyListener(makeKey(o.a)); evx("hl", o.a, 0, 0, r ? 1 : 0, 0); }
	else if(k == "ol") { bool r = q->ownsHandle(makeKey(o.a), handleOf(o.b)); evx("ol", o.a, o.b, 0, r ? 1 : 0, 0); }
#endif
	else if(k == "fl") {
		int n = 0; const int e = o.a;
		q->forEach(makeKey(e), [&n, e](const Handle & h, const Q::Callback &) { ++n; evx("vi", e, numberOf(h), n, 0, 0); });
		evx("fl", e, n, 0, 1, 0);
	}
	else if(k == "fu") {
		const int e = o.a;
		evx("fub", e, 0, 0, 0, 0);
		q->forEach(makeKey(e), [e](const Handle & h, const Q::Callback &) {
			const int hn = numberOf(h);
			evx("vu", e, hn, 0, 0, 0);
			try { runUser(hn); } catch(const Thrown &) { }
			evx("vr", e, hn, 0, 0, 0);
		});
		evx("fue", e, 0, 0, 0, 0);
	}
#if W_FILTER == 1
	else if(k == "af") { int id = (int)FH.size() + 1; FH.push_back(q->appendFilter(Fl(id))); evx("af", 0, 0, 0, id, 0); }
	else if(k == "rf") { bool r = (o.a >= 1 && o.a <= (int)FH.size()) ? q->removeFilter(FH[o.a - 1]) : false; evx("rf", 0, o.a, 0, r ? 1 : 0, 0); }
#endif
	else if(k == "dp") { dispatch(o.a, o.b); }
#if W_OBJ == 1
	else if(k == "nq") { enqueue(o.a, o.b); }
	else if(k == "pa") { process(1); }
	else if(k == "po") { process(2); }
	else if(k == "pi") { process(3); }
	else if(k == "pu") { process(4); }
	else if(k == "pk") { peekOrTake(false); }
	else if(k == "tk") { peekOrTake(true); }
#if W_ARG != 2
	else if(k == "td") { takeDispatch(); }
#endif
	else if(k == "cl") { q->clearEvents(); evx("cl", 0, 0, 0, 0, 0); }
	else if(k == "eq") { bool r = q->emptyQueue(); evx("eq", 0, 0, 0, r ? 1 : 0, 0); }
	else if(k == "zz") { g_noDrain = true; evx("zz", 0, 0, 0, 0, 0); }
#endif
	else if(k == "t" || k == "pt" || k == "ft" || k == "ct" || k == "x") { /* a return item with no user code running: ignore */ }
	else { std::fprintf(stderr, "unknown op %s\n", k.c_str()); std::exit(2); }
	return true;
}

static void epilogue()
{
	// every ScopedRemover dies: what was added through them must be gone, on both dispatchers
	for(int r = 1; r <= MaxR; ++r) if(R[r]) { R[r].reset(); evx("sd", r, 0, 0, 0, 0); }
	for(int e = 1; e <= NEVENTS; ++e) { bool r = q2->hasAnyListener(makeKey(e)); evx("hl", e + 2, 0, 0, r ? 1 : 0, 0); dispatch(e, 4, 2); }
	for(int e = 1; e <= NEVENTS; ++e) {
		bool r = q->hasAnyListener(makeKey(e)); evx("hl", e, 0, 0, r ? 1 : 0, 0);
		int n = 0;
		q->forEach(makeKey(e), [&n, e](const Handle & h, const Q::Callback &) { ++n; evx("vi", e, numberOf(h), n, 0, 0); });
		evx("fl", e, n, 0, 1, 0);
		dispatch(e, 5);
	}
#if W_OBJ == 1
	if(! g_noDrain) {
		{ bool r = q->emptyQueue(); evx("eq", 0, 0, 0, r ? 1 : 0, 0); }
#if W_MOVEONLY == 0
		peekOrTake(false);
#endif
		process(2);
		process(1);
		{ bool r = q->emptyQueue(); evx("eq", 0, 0, 0, r ? 1 : 0, 0); }
		process(1);
	}
#endif
	const int n = (int)H.size();
	for(int h = 1; h <= n; ++h) {
		int owner = 0;
		for(int e = 1; e <= NEVENTS; ++e) { bool r = q->ownsHandle(makeKey(e), H[h - 1]); evx("ol", e, h, 0, r ? 1 : 0, 0); if(r && ! owner) owner = e; }
		int target = owner ? owner : 1;
		bool r = q->removeListener(makeKey(target), H[h - 1]); evx("rl", target, h, 0, r ? 1 : 0, 0);
	}
#if W_FILTER == 1
	for(int h = 1; h <= (int)FH.size(); ++h) { bool r = q->removeFilter(FH[h - 1]); evx("rf", 0, h, 0, r ? 1 : 0, 0); }
	FH.clear();
#endif
	for(int e = 1; e <= NEVENTS; ++e) dispatch(e, 6);
	q->~Q(); q = 0;
	q2->~Q(); q2 = 0;
	H.clear(); HE.clear();
	std::fprintf(g_out, "{\"e\":\"rs\",\"o\":0,\"a\":0,\"b\":0,\"r\":0,\"u\":0,\"lv\":%ld,\"pv\":%ld,\"n\":%ld}\n", g_live, g_livePayload, g_script);
}

int main(int argc, char ** argv)
{
	if(argc < 2) { std::fprintf(stderr, "usage: dq_interp <trace-out> < scripts\n"); return 2; }
	g_out = std::fopen(argv[1], "w");
	if(! g_out) return 2;
	static char buf[1 << 20];
	std::setvbuf(g_out, buf, _IOFBF, sizeof(buf));
	std::set_terminate(onTerminate);
	const bool faultMode = argc > 2 && std::string(argv[2]) == "--fault";
	const int faultKinds = argc > 3 ? std::atoi(argv[3]) : 3;
	const bool succession = argc > 4 && std::string(argv[4]) == "succession";
	long faultRuns = 0, faultsFired = 0;
	H.reserve(256); HE.reserve(256);
#if W_FILTER == 1
	FH.reserve(256);       // the harness's own bookkeeping must not be a fault point between the library call and the record
#endif
	std::string line;
	while(std::getline(std::cin, line)) {
		if(! parseScript(line, script)) continue;
		armWatchdog(60);
		if(faultMode) {
			// the last operation of the script is attempted with the k-th fault point armed, k = 1, 2, ... until it runs untouched
			for(long k = 1; k < 64; ++k) {
				std::memset(g_storage, W_FILL, sizeof(g_storage));
				q = new (g_storage) Q();
				std::memset(g_storage2, W_FILL, sizeof(g_storage2));
				q2 = new (g_storage2) Q();
				R[1].reset(new SR(SR_TARGET(q))); RT[1] = 1; for(int r = 2; r <= MaxR; ++r) R[r].reset();
				H.clear(); HE.clear();
#if W_FILTER == 1
				FH.clear();
#endif
				ip = 0; g_uid = 0; g_depth = 0; g_nested = false;
				while(ip + 1 < script.size()) step();
				if(ip >= script.size()) { epilogue(); break; }
				const std::string target = script[ip].k;
				evx("fa", 0, (int)k, 0, 0, 0);
				bool threw = false;
				armFault(k, faultKinds);
				try { step(); }
				catch(const std::bad_alloc &) { threw = true; }
				catch(const Fault &) { threw = true; }
				const bool fired = g_faultFired;
				disarmFault();
				if(threw) evx(target == "tk" ? "xk" : "xf", 0, (int)k, 0, 0, 0);
				else if(fired && target != "dp" && target.substr(0, 1) != "p") evx("xs", 0, (int)k, 0, 0, 0);     // swallowed
				// faults in succession: an operation that failed leaving everything as it was is tried again at once and fails at the same
				// point a second time, then a third attempt is left alone and must go through as if nothing had happened
				if(threw && target != "tk" && target != "dp" && target.substr(0, 1) != "p" && succession) {
					const size_t at = ip - 1;
					ip = at;
					evx("fa", 0, (int)k, 0, 0, 0);
					bool threw2 = false;
					armFault(k, faultKinds);
					try { step(); }
					catch(const std::bad_alloc &) { threw2 = true; }
					catch(const Fault &) { threw2 = true; }
					const bool fired2 = g_faultFired;
					disarmFault();
					if(threw2) { evx("xf", 0, (int)k, 0, 0, 0); ip = at; step(); }
					else if(fired2) evx("xs", 0, (int)k, 0, 0, 0);
				}
				epilogue();
				++faultRuns;
				if(fired) ++faultsFired;
				if(! fired) break;
			}
			++g_script;
			continue;
		}
		std::memset(g_storage, W_FILL, sizeof(g_storage));
		q = new (g_storage) Q();
		std::memset(g_storage2, W_FILL, sizeof(g_storage2));
		q2 = new (g_storage2) Q();
		R[1].reset(new SR(SR_TARGET(q))); RT[1] = 1;
		ip = 0; g_uid = 0; g_depth = 0; g_nested = false; g_noDrain = false;
		while(ip < script.size()) step();
		epilogue();
		if(g_nested) { ++g_nNested; ++g_nNontrivial; }
		++g_script;
	}
	alarm(0);
	std::fclose(g_out);
	std::fprintf(stderr, "STATS {\"scripts\":%ld,\"nontrivial\":%ld,\"nested\":%ld,\"fault_runs\":%ld,\"faults_fired\":%ld}\n", g_script, g_nNontrivial, g_nNested, faultRuns, faultsFired);
	return 0;
}
