// Uncontrolled stress mode for EventQueue (C06, C11): shipped threading policies (std::mutex or SpinLock), real threads, built with
// ThreadSanitizer.  Scenario syntax and trace vocabulary of cq_run.cpp (without wait / DisableQueueNotify: a real lost wake-up would hang);
// records are written under one logger mutex, so their file order is a legal real-time order of the begin / end stamps.
//   W_MUTEX 0 std::mutex | 1 SpinLock      W_HETER 1: HeterEventQueue with two prototypes (even / odd enqueue index), the inner callback
//   lists use their own std::mutex; takeEvent / peekEvent / processUntil do not exist there
#include <eventpp/eventqueue.h>
#include <eventpp/hetereventqueue.h>
#include <atomic>
#include <cstdio>
#include <cstdlib>
#include <mutex>
#include <sstream>
#include <string>
#include <thread>
#include <vector>
#include "stress_watchdog.h"
#ifndef W_MUTEX
#define W_MUTEX 0
#endif
#ifndef W_HETER
#define W_HETER 0
#endif
static std::atomic<long> g_livePayload(0);
struct Payload
{
	int uid, v;
	Payload() : uid(0), v(0) { ++g_livePayload; }
	Payload(int uid, int v) : uid(uid), v(v) { ++g_livePayload; }
	Payload(const Payload & o) : uid(o.uid), v(o.v) { ++g_livePayload; }
	Payload(Payload && o) : uid(o.uid), v(o.v) { o.uid = -1; o.v = -1000; ++g_livePayload; }
	Payload & operator = (const Payload & o) { uid = o.uid; v = o.v; return *this; }
	Payload & operator = (Payload && o) { uid = o.uid; v = o.v; if(&o != this) { o.uid = -1; o.v = -1000; } return *this; }
	~Payload() { --g_livePayload; }
};
struct Pol {
#if W_MUTEX == 0
	using Threading = eventpp::MultipleThreading;
#else
	using Threading = eventpp::GeneralThreading<eventpp::SpinLock>;
#endif
};
#if W_HETER == 1
typedef eventpp::HeterEventQueue<int, eventpp::HeterTuple<void (const Payload &), void (const Payload &, int)>, Pol> Q;
#else
typedef eventpp::EventQueue<int, void (const Payload &), Pol> Q;
#endif
static FILE * g_out;
static std::mutex g_logm;
static Q * q;
static std::vector<std::vector<std::string> > g_prog;
static thread_local int t_self = 9;
#define LOG(...) do { std::lock_guard<std::mutex> lg(g_logm); std::fprintf(g_out, __VA_ARGS__); } while(0)
static void evt(const char * e, int t, int a, int b, int r) { LOG("{\"e\":\"%s\",\"t\":%d,\"a\":%d,\"b\":%d,\"r\":%d}\n", e, t, a, b, r); }
static void jitter(unsigned & s) { s = s * 1103515245u + 12345u; if((s >> 16) % 4 == 0) std::this_thread::yield(); }
static void listener(const Payload & p) { evt("en", t_self, p.uid, p.v, 0); std::this_thread::yield(); evt("rt", t_self, p.uid, 0, 0); }
static void listener2(const Payload & p, int extra) { evt("en", t_self, p.uid, extra == p.uid + 1 ? p.v : -7, 0); std::this_thread::yield(); evt("rt", t_self, p.uid, 0, 0); }
struct PredIf { bool operator() (const Payload & p) const { return (p.uid % 10) % 2 == 1; } bool operator() (const Payload & p, int) const { return (p.uid % 10) % 2 == 1; } };
struct PredUntil { bool operator() (const Payload & p) const { return (p.uid % 10) >= 2; } };

static bool parseScenario(const std::string & s)
{
	g_prog.clear();
	std::stringstream ss(s); std::string th;
	while(std::getline(ss, th, '|')) {
		std::vector<std::string> ops; std::stringstream st(th); std::string op;
		while(std::getline(st, op, ',')) if(! op.empty()) ops.push_back(op);
		g_prog.push_back(ops);
	}
	return ! g_prog.empty() && g_prog.size() <= 4;
}
static void execute(long execNo, unsigned seed)
{
	const int n = (int)g_prog.size();
	q = new Q();
	q->appendListener(1, &listener);
#if W_HETER == 1
	q->appendListener(1, &listener2);
#endif
	std::atomic<int> ready(0);
	std::vector<std::thread> threads;
	for(int t = 0; t < n; ++t) {
		threads.emplace_back([t, n, seed, &ready]() {
			t_self = t;
			unsigned s = seed * 7919u + (unsigned)t * 104729u;
			++ready; while(ready.load() < n) {}
			int index = 0;
			for(const std::string & op : g_prog[t]) {
				jitter(s);
				const int idx = index++;
#if W_HETER == 1
				if(op == "nq") { int uid = (t + 1) * 10 + idx; evt("nqb", t, uid, uid, 0); if(idx % 2) { Payload p(uid, uid); q->enqueue(1, p, uid + 1); } else q->enqueue(1, Payload(uid, uid)); evt("nqe", t, uid, 0, 0); }
#else
				if(op == "nq") { int uid = (t + 1) * 10 + idx; evt("nqb", t, uid, uid, 0); if(idx % 2) { Payload p(uid, uid); q->enqueue(1, p); } else q->enqueue(1, Payload(uid, uid)); evt("nqe", t, uid, 0, 0); }
#endif
				else if(op == "pa" || op == "po" || op == "pi" || op == "pu") {
					int mode = op == "pa" ? 1 : op == "po" ? 2 : op == "pi" ? 3 : 4;
					evt("pb", t, mode, 0, 0);
#if W_HETER == 1
					if(mode == 4) { std::fprintf(stderr, "unknown op pu\n"); std::exit(2); }
					bool r = mode == 1 ? q->process() : mode == 2 ? q->processOne() : q->processIf(PredIf());
#else
					bool r = mode == 1 ? q->process() : mode == 2 ? q->processOne() : mode == 3 ? q->processIf(PredIf()) : q->processUntil(PredUntil());
#endif
					evt("pe", t, mode, 0, r ? 1 : 0);
				}
#if W_HETER == 0
				else if(op == "tk" || op == "pk") {
					evt(op == "tk" ? "tkb" : "pkb", t, 0, 0, 0);
					int uid = 0, v = 0; bool r;
					{ Q::QueuedEvent qe; r = op == "tk" ? q->takeEvent(&qe) : q->peekEvent(&qe); if(r) { uid = std::get<0>(qe.arguments).uid; v = std::get<0>(qe.arguments).v; } }
					evt(op == "tk" ? "tke" : "pke", t, uid, v, r ? 1 : 0);
				}
#endif
				else if(op == "cl") { evt("clb", t, 0, 0, 0); q->clearEvents(); evt("cle", t, 0, 0, 0); }
				else if(op == "eq") { evt("eqb", t, 0, 0, 0); bool r = q->emptyQueue(); evt("eqe", t, 0, 0, r ? 1 : 0); }
				else { std::fprintf(stderr, "unknown op %s\n", op.c_str()); std::exit(2); }
			}
			evt("fin", t, 0, 0, 0);
		});
	}
	for(auto & th : threads) th.join();
	t_self = 9;
	for(int i = 0; i < 4; ++i) { evt("pb", 9, 1, 0, 0); bool r = q->process(); evt("pe", 9, 1, 0, r ? 1 : 0); if(! r) break; }
	delete q; q = 0;
	std::fprintf(g_out, "{\"e\":\"rs\",\"t\":9,\"a\":0,\"b\":%ld,\"r\":0,\"n\":%ld,\"s\":\"\"}\n", g_livePayload.load(), execNo);
}
int main(int argc, char ** argv)
{
	if(argc < 6) return 2;
	g_out = std::fopen(argv[1], "w");
	if(! g_out || ! parseScenario(argv[2])) return 2;
	unsigned seed = (unsigned)std::strtoul(argv[4], 0, 10);
	long n = std::atol(argv[5]);
	startStressWatchdog(g_out);
	for(long i = 0; i < n; ++i) { execute(i, seed + (unsigned)i); ++g_stressProgress; }
	std::fclose(g_out);
	std::fprintf(stderr, "STATS {\"executions\":%ld,\"stuck\":0,\"exhausted\":0}\n", n);
	return 0;
}
