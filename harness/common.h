// Shared pieces of the script interpreters (DESIGN.md 4.2): script parsing, trace recording,
// tracked callback/payload types with a live-instance registry, watchdog.
// The harness never judges: it drives the real eventpp objects and records what they did; TLC decides.
#ifndef VERIF_COMMON_H
#define VERIF_COMMON_H

#include <cstdio>
#include <cstdlib>
#include <cstring>
#include <string>
#include <vector>
#include <set>
#include <iostream>
#include <csignal>
#include <unistd.h>
#include <exception>
#include <atomic>
#include <chrono>

namespace vf {

struct Op { std::string k; int a, b; };
typedef std::vector<Op> Script;

// A TLC cover line looks like  "[[\"k\",1,100],[\"a\",1,0]]"  (a TLA+ string holding JSON);
// plain JSON  [["k",1,100],["a",1,0]]  is accepted as well (replay files).
inline bool parseScript(const std::string & line, Script & out)
{
	out.clear();
	std::string s;
	for(size_t i = 0; i < line.size(); ++i) {
		if(line[i] == '\\' && i + 1 < line.size() && line[i + 1] == '"') { s += '"'; ++i; }
		else s += line[i];
	}
	size_t p = s.find("[[");
	if(p == std::string::npos) return false;
	++p;
	while(p < s.size() && s[p] == '[') {
		size_t q1 = s.find('"', p);
		size_t q2 = s.find('"', q1 + 1);
		if(q1 == std::string::npos || q2 == std::string::npos) return false;
		Op op; op.k = s.substr(q1 + 1, q2 - q1 - 1);
		size_t c1 = s.find(',', q2);
		op.a = std::atoi(s.c_str() + c1 + 1);
		size_t c2 = s.find(',', c1 + 1);
		op.b = std::atoi(s.c_str() + c2 + 1);
		out.push_back(op);
		size_t e = s.find(']', c2);
		if(e == std::string::npos) return false;
		p = e + 1;
		if(p < s.size() && s[p] == ',') ++p;
	}
	return ! out.empty();
}

// ---- trace
static FILE * g_out = 0;
static long g_live = 0;          // live tracked callback objects
static long g_livePayload = 0;   // live tracked payload objects
static long g_script = 0;        // index of the script being run

inline void ev(const char * e, int o, int a, int b, int r)
{
	std::fprintf(g_out, "{\"e\":\"%s\",\"o\":%d,\"a\":%d,\"b\":%d,\"r\":%d,\"lv\":%ld}\n", e, o, a, b, r, g_live);
}

inline void fatalEvent(const char * what)
{
	// never matched by any specification: the trace is rejected at this point
	if(g_out) {
		std::fprintf(g_out, "{\"e\":\"%s\",\"o\":%ld,\"a\":0,\"b\":0,\"r\":0,\"lv\":%ld}\n", what, g_script, g_live);
		std::fflush(g_out);
	}
}

inline void onAlarm(int) { fatalEvent("hang"); _exit(3); }
inline void onTerminate() { fatalEvent("terminate"); _exit(4); }
// a dying process (sanitizer report, SIGSEGV, abort) first writes out the buffered trace and a record that names the script it was running
inline void onDeath() { static bool once = false; if(once) return; once = true; fatalEvent("died"); }
inline void onDeathSignal(int sig) { onDeath(); std::signal(sig, SIG_DFL); raise(sig); }
}
extern "C" void __sanitizer_set_death_callback(void (*)(void)) __attribute__((weak));
namespace vf {
inline void armWatchdog(unsigned seconds)
{
	static bool armed = false;
	if(! armed) {
		armed = true;
		if(__sanitizer_set_death_callback) __sanitizer_set_death_callback(&onDeath);
		std::signal(SIGSEGV, onDeathSignal); std::signal(SIGABRT, onDeathSignal); std::signal(SIGBUS, onDeathSignal); std::signal(SIGFPE, onDeathSignal);
	}
	std::signal(SIGALRM, onAlarm); alarm(seconds);
}

// ---- fault injection hooks (defined for real in fault.h; harness bookkeeping suspends them)
static int g_faultSuspend = 0;
struct NoFault { NoFault() { ++g_faultSuspend; } ~NoFault() { --g_faultSuspend; } };

// ---- tracked callback: identity + registry of live addresses (double destruction / use after destruction)
static std::set<const void *> g_registry;
inline void regAdd(const void * p) { NoFault nf; if(! g_registry.insert(p).second) fatalEvent("double-construct"); }
inline void regDel(const void * p) { NoFault nf; if(g_registry.erase(p) != 1) fatalEvent("double-destroy"); }
inline void regUse(const void * p) { if(g_registry.count(p) != 1) fatalEvent("use-after-destroy"); }

// ---- tracked threading policy (W_THREADING=3): GeneralThreading<TrackedMutex, TrackedAtomic, TrackedCondVar>.  Every mutex and atomic of the
// library registers its address while it is alive; locking, unlocking, reading or writing one that is no longer alive (a callback list or map
// node destroyed while a traversal still stands in it) is recorded as use-after-destroy, for which no specification has a step.  Locking a
// mutex the (only) thread already holds is the deterministic form of "a lock held across user code": recorded as hang at once.
struct TrackedMutex
{
	bool held;
	TrackedMutex() : held(false) { regAdd(this); }
	TrackedMutex(const TrackedMutex &) = delete;
	~TrackedMutex() { if(held) fatalEvent("mutex-destroyed-locked"); regDel(this); }
	void lock() { regUse(this); if(held) { fatalEvent("hang"); std::fflush(g_out); _exit(3); } held = true; }
	bool try_lock() { regUse(this); if(held) return false; held = true; return true; }
	void unlock() { regUse(this); if(! held) fatalEvent("unlock-not-held"); held = false; }
};
template <typename T>
struct TrackedAtomic
{
	T value;
	TrackedAtomic() noexcept { regAdd(this); }                       // like std::atomic before C++20: the value is NOT initialised
	TrackedAtomic(T desired) noexcept : value(desired) { regAdd(this); }
	TrackedAtomic(const TrackedAtomic &) = delete;
	~TrackedAtomic() { regDel(this); }
	void store(T desired, std::memory_order = std::memory_order_seq_cst) noexcept { regUse(this); value = desired; }
	T load(std::memory_order = std::memory_order_seq_cst) const noexcept { regUse(this); return value; }
	T exchange(T desired, std::memory_order = std::memory_order_seq_cst) noexcept { regUse(this); const T previous = value; value = desired; return previous; }
	T operator ++ () noexcept { regUse(this); return ++value; }
	T operator -- () noexcept { regUse(this); return --value; }
	T operator = (T desired) noexcept { regUse(this); value = desired; return desired; }
	operator T () const noexcept { regUse(this); return value; }
};
struct TrackedCondVar
{
	TrackedCondVar() { regAdd(this); }
	~TrackedCondVar() { regDel(this); }
	void notify_one() noexcept { regUse(this); }
	void notify_all() noexcept { regUse(this); }
	// one thread only: a wait whose predicate is false would never end; a timed wait whose predicate is false times out
	template <class Lock, class Predicate> void wait(Lock &, Predicate pred) { regUse(this); if(! pred()) { fatalEvent("hang"); std::fflush(g_out); _exit(3); } }
	template <class Lock, class Rep, class Period, class Predicate>
	bool wait_for(Lock &, const std::chrono::duration<Rep, Period> &, Predicate pred) { regUse(this); return pred(); }
};

} // namespace vf

#endif
