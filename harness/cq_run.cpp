// Concurrent scenario runner for eventpp::EventQueue under the controlled scheduler (C06, C07, C11; DESIGN.md 4.3).
// A scenario is a set of thread programs, e.g.  "w,pa|don,nq,dof|eq"  (threads separated by '|').  Every mutex, atomic and
// condition-variable operation of the queue goes through vsched.h; the runner explores schedules (replay of a given
// schedule, depth-first with a preemption bound, seeded random) and records for every execution the API-level history
// (call begin/end per thread, listener entry/exit, time-outs, stuck) as NDJSON for spec/TraceCQ.tla.  It never judges.
//
// ops: nq enqueue | pa process | po processOne | pi processIf(odd index) | pu processUntil(index >= 2) | tk takeEvent | pk peekEvent
//      cl clearEvents | eq emptyQueue | w wait | wf waitFor | don / dof  DisableQueueNotify ctor / dtor
#include "common.h"
#include "vsched.h"
#include <eventpp/eventqueue.h>
#include <eventpp/hetereventqueue.h>
#include <eventpp/utilities/orderedqueuelist.h>
#include <memory>
// W_HETER 1: HeterEventQueue with two prototypes (even / odd enqueue index) - the class carries its own copy of the queue logic
// (enqueue, process, processOne, processIf, clearEvents, emptyQueue, wait, waitFor, DisableQueueNotify; no take / peek / processUntil).
// Its queue-level mutexes, atomics and condition variable come from the Threading policy and are therefore scheduled; the inner
// callback lists always use std::mutex / std::atomic (library limitation), so markers inside their critical sections are not
// scheduling points there.
#ifndef W_HETER
#define W_HETER 0
#endif
#include <sstream>

using namespace vf;

struct Payload
{
	int uid, v;
	Payload() : uid(0), v(0) { ++g_livePayload; }
	Payload(int uid, int v) : uid(uid), v(v) { ++g_livePayload; }
	Payload(const Payload & o) : uid(o.uid), v(o.v) { ++g_livePayload; }
	Payload(Payload && o) : uid(o.uid), v(o.v) { o.uid = -1; o.v = -1000; ++g_livePayload; }
	Payload & operator = (const Payload & o) { uid = o.uid; v = o.v; return *this; }
	Payload & operator = (Payload && o) { uid = o.uid; v = o.v; if(&o != this) { o.uid = -1; o.v = -1000; } return *this; }
	~Payload() { --g_livePayload; }
};

// W_ORDERED 1: the OrderedQueueList policy, ordered by the enqueue's position in its thread's program (uid % 10).  Sorting by that key
// (stably) never inverts the order of one producer's own events, so the per-producer order rule of TraceCQ applies unchanged while the
// events of different producers really are merged by the sorting splices under contention.
#ifndef W_ORDERED
#define W_ORDERED 0
#endif
#if W_ORDERED == 1
struct ByIndex { template <typename T> bool operator() (const T & a, const T & b) const { return std::get<0>(a.arguments).uid % 10 < std::get<0>(b.arguments).uid % 10; } };
#endif
struct Pol
{
	using Threading = eventpp::GeneralThreading<vs::Mutex, vs::Atomic, vs::CondVar>;
#if W_ORDERED == 1
	template <typename Item> using QueueList = eventpp::OrderedQueueList<Item, ByIndex>;
#endif
};
#if W_HETER == 1
typedef eventpp::HeterEventQueue<int, eventpp::HeterTuple<void (const Payload &), void (const Payload &, int)>, Pol> Q;
struct Dqn { Dqn(Q *) {} };      // HeterEventQueue has no DisableQueueNotify
#else
typedef eventpp::EventQueue<int, void (const Payload &), Pol> Q;
typedef Q::DisableQueueNotify Dqn;
#endif

static Q * q;
static int g_liveWorkers = 0;
static std::vector<std::vector<std::string> > g_prog;

static void evt(const char * e, int t, int a, int b, int r)
{
	std::fprintf(g_out, "{\"e\":\"%s\",\"t\":%d,\"a\":%d,\"b\":%d,\"r\":%d}\n", e, t, a, b, r);
}
static int self() { return vs::Sched::self; }

// EVENTPP_VERIF_POINT: unlocked reads are scheduling points; a structural access with no lock held while several threads
// are live is recorded (the specification has no step for it) and becomes a scheduling point too
static void pointHook(const char * tag)
{
	if(self() < 0) return;
	size_t n = std::strlen(tag);
	bool racy = n > 7 && std::strcmp(tag + n - 7, ".racy_r") == 0;
	if(racy) { vs::S->point(tag); return; }
#if W_HETER == 1
	if(tag[0] == 'c') return;      // inside a critical section of an inner list: a real std::mutex is held, no switch, no lockset
#endif
	// structural access: no common policy mutex protects this structure any more (none held, or a different one than the other threads hold)
	if(vs::g_lockset.access(tag, self()) && g_liveWorkers >= 2) {
		evt("ua", self(), 0, 0, 0);
		vs::S->point(tag);
		return;
	}
	// between the writes of a multi-write critical section: unlocked readers may look right now
	if(n > 6 && std::strcmp(tag + n - 6, ".mid.w") == 0) vs::S->point(tag);
}

static void listener(const Payload & p)
{
	evt("en", self() < 0 ? 9 : self(), p.uid, p.v, 0);
	vs::S->point("listener");
	evt("rt", self() < 0 ? 9 : self(), p.uid, 0, 0);
}
static void listener2(const Payload & p, int extra)
{
	evt("en", self() < 0 ? 9 : self(), p.uid, extra == p.uid + 1 ? p.v : -7, 0);
	vs::S->point("listener");
	evt("rt", self() < 0 ? 9 : self(), p.uid, 0, 0);
}
struct PredIf
{
	bool operator() (const Payload & p) const { vs::S->point("pred"); return (p.uid % 10) % 2 == 1; }
	bool operator() (const Payload & p, int) const { vs::S->point("pred"); return (p.uid % 10) % 2 == 1; }
};
struct PredUntil { bool operator() (const Payload & p) const { vs::S->point("pred"); return (p.uid % 10) >= 2; } };

static void runOp(int t, const std::string & op, int index, std::vector<std::unique_ptr<Dqn> > & dqn)
{
	vs::S->point("call");
	if(op == "nq") {
		int uid = (t + 1) * 10 + index;
		evt("nqb", t, uid, uid, 0);
#if W_HETER == 1
		if(index % 2) { Payload p(uid, uid); q->enqueue(1, p, uid + 1); } else { q->enqueue(1, Payload(uid, uid)); }
#else
		if(index % 2) { Payload p(uid, uid); q->enqueue(1, p); } else { q->enqueue(1, Payload(uid, uid)); }
#endif
		evt("nqe", t, uid, 0, 0);
	}
	else if(op == "pa" || op == "po" || op == "pi" || op == "pu") {
		int mode = op == "pa" ? 1 : op == "po" ? 2 : op == "pi" ? 3 : 4;
		evt("pb", t, mode, 0, 0);
#if W_HETER == 1
		if(mode == 4) { std::fprintf(stderr, "no processUntil in HeterEventQueue\n"); std::exit(2); }
		bool r = mode == 1 ? q->process() : mode == 2 ? q->processOne() : q->processIf(PredIf());
#else
		bool r = mode == 1 ? q->process() : mode == 2 ? q->processOne() : mode == 3 ? q->processIf(PredIf()) : q->processUntil(PredUntil());
#endif
		evt("pe", t, mode, 0, r ? 1 : 0);
	}
#if W_HETER == 0
	else if(op == "tk" || op == "pk") {
		evt(op == "tk" ? "tkb" : "pkb", t, 0, 0, 0);
		int uid = 0, v = 0; bool r;
		{ Q::QueuedEvent qe; r = op == "tk" ? q->takeEvent(&qe) : q->peekEvent(&qe); if(r) { uid = std::get<0>(qe.arguments).uid; v = std::get<0>(qe.arguments).v; } }
		evt(op == "tk" ? "tke" : "pke", t, uid, v, r ? 1 : 0);
	}
#endif
	else if(op == "cl") { evt("clb", t, 0, 0, 0); q->clearEvents(); evt("cle", t, 0, 0, 0); }
	else if(op == "eq") { evt("eqb", t, 0, 0, 0); bool r = q->emptyQueue(); evt("eqe", t, 0, 0, r ? 1 : 0); }
	else if(op == "w") { evt("wb", t, 0, 0, 0); q->wait(); evt("we", t, 0, 0, 1); }
	else if(op == "wf") { evt("wb", t, 1, 0, 0); bool r = q->waitFor(std::chrono::milliseconds(1)); evt("we", t, 1, 0, r ? 1 : 0); }
#if W_HETER == 0
	else if(op == "don") { evt("donb", t, 0, 0, 0); dqn.emplace_back(new Dqn(q)); evt("done", t, 0, 0, 0); }
	else if(op == "dof") { evt("dofb", t, 0, 0, 0); if(! dqn.empty()) dqn.pop_back(); evt("dofe", t, 0, 0, 0); }
#endif
	else { std::fprintf(stderr, "unknown op %s\n", op.c_str()); std::exit(2); }
}

static bool parseScenario(const std::string & s)
{
	g_prog.clear();
	std::stringstream ss(s); std::string th;
	while(std::getline(ss, th, '|')) {
		std::vector<std::string> ops; std::stringstream st(th); std::string op;
		while(std::getline(st, op, ',')) if(! op.empty()) ops.push_back(op);
		g_prog.push_back(ops);
	}
	return ! g_prog.empty() && g_prog.size() <= 4;
}

// one execution under the given strategy; returns false if it got stuck
static bool execute(vs::Strategy * strategy, long execNo)
{
	// a fresh scheduler per execution: threads of an earlier stuck execution stay parked on their own (leaked) scheduler
	armWatchdog(120);      // per execution: a long exploration must not look like a hang
	vs::Sched * schedp = new vs::Sched();
	vs::Sched & sched = *schedp;
	vs::S = schedp;
	const int n = (int)g_prog.size();
	sched.reset(n, strategy);
	for(int i = 0; i < 16; ++i) { vs::g_locksHeld[i] = 0; vs::g_heldSet[i].clear(); }
	vs::g_lockset.reset();
	g_livePayload = 0;
	q = new Q();
	q->appendListener(1, &listener);
#if W_HETER == 1
	q->appendListener(1, &listener2);
#endif
	g_liveWorkers = n;
	std::vector<std::thread> threads;
	for(int t = 0; t < n; ++t) {
		threads.emplace_back([t]() {
			vs::S->workerBegin(t);
			{
				std::vector<std::unique_ptr<Dqn> > dqn;
				int idx = 0;
				for(const std::string & op : g_prog[t]) runOp(t, op, idx++, dqn);
				// DisableQueueNotify objects the program left alive stay alive to the end of the execution (leaked on purpose)
				for(auto & d : dqn) d.release();
			}
			evt("fin", t, 0, 0, 0);
			--g_liveWorkers;
			vs::S->workerEnd();
		});
	}
	sched.start();
	std::string taken;
	for(size_t i = 0; i < sched.taken.size(); ++i) { if(i) taken += ' '; taken += std::to_string(sched.taken[i]); }
	if(sched.stuck) {
		int mask = 0;
		for(int t = 0; t < n; ++t) if(! sched.th[t].finished) mask |= (sched.th[t].inWaitset ? 1 : 16) << t;
		evt("stuck", 9, mask, 0, 0);
		for(auto & th : threads) th.detach();      // parked for ever inside the library; the queue is abandoned with them
		std::fprintf(g_out, "{\"e\":\"rs\",\"t\":9,\"a\":1,\"b\":0,\"r\":0,\"n\":%ld,\"s\":\"%s\"}\n", execNo, taken.c_str());
		return false;
	}
	for(auto & th : threads) th.join();
	// the main thread drains what is left and destroys the queue
	for(int i = 0; i < 4; ++i) { evt("pb", 9, 1, 0, 0); bool r = q->process(); evt("pe", 9, 1, 0, r ? 1 : 0); if(! r) break; }
	delete q; q = 0;
	delete schedp;   // vs::S is replaced at the start of the next execution; the main thread never dereferences it in between
	std::fprintf(g_out, "{\"e\":\"rs\",\"t\":9,\"a\":0,\"b\":%ld,\"r\":0,\"n\":%ld,\"s\":\"%s\"}\n", g_livePayload, execNo, taken.c_str());
	return true;
}

int main(int argc, char ** argv)
{
	// usage: cq_run <trace-out> <scenario> replay|model <schedule...> | dfs <bound> <max> | rand <seed> <count>
	if(argc < 4) { std::fprintf(stderr, "usage: cq_run <out> <scenario> replay|model s... | dfs <bound> <max> | rand <seed> <n>\n"); return 2; }
	g_out = std::fopen(argv[1], "w");
	if(! g_out || ! parseScenario(argv[2])) return 2;
	static char buf[1 << 20];
	std::setvbuf(g_out, buf, _IOFBF, sizeof(buf));
	eventpp_verif::pointHook() = &pointHook;
	vs::CondVar::onEvent = [](const char *, int t) { evt("to", t, 0, 0, 0); };
	std::string mode = argv[3];
	long execs = 0, stuck = 0;
	armWatchdog(300);
	if(mode == "replay" || mode == "model") {
		std::vector<int> sch; for(int i = 4; i < argc; ++i) sch.push_back(std::atoi(argv[i]));
		if(mode == "replay") { vs::ReplayStrategy st; st.schedule = sch; if(! execute(&st, 0)) ++stuck; }
		else { vs::ModelReplayStrategy st; st.schedule = sch; if(! execute(&st, 0)) ++stuck; }
		execs = 1;
	}
	else if(mode == "dfs") {
		vs::DfsStrategy st; st.bound = std::atoi(argv[4]);
		long maxExec = argc > 5 ? std::atol(argv[5]) : 100000;
		do { st.beginExecution(); if(! execute(&st, execs)) ++stuck; ++execs; } while(execs < maxExec && st.advance());
		std::fprintf(stderr, "STATS {\"executions\":%ld,\"stuck\":%ld,\"exhausted\":%d}\n", execs, stuck, execs < maxExec ? 1 : 0);
	}
	else if(mode == "rand") {
		unsigned long long seed = std::strtoull(argv[4], 0, 10); long n = std::atol(argv[5]);
		for(long i = 0; i < n; ++i) { vs::RandomStrategy st(seed * 1000003ULL + i, 2 + (int)(i % 3)); if(! execute(&st, i)) ++stuck; ++execs; }
		std::fprintf(stderr, "STATS {\"executions\":%ld,\"stuck\":%ld,\"exhausted\":0}\n", execs, stuck);
	}
	alarm(0);
	std::fclose(g_out);
	std::_Exit(0);     // leaked (stuck) threads must not be joined
}
