// Heterogeneous dispatcher / queue with ArgumentPassingIncludeEvent and a MOVABLE, tracked key type taken BY VALUE by the prototypes
// (C14 "intact arguments", C20 "no result depends on unspecified evaluation order"): prototype list <void(TKey), void(TKey, int)>.
// Same script language and trace vocabulary as het_interp.cpp restricted to callback shapes {1,2} and argument shapes {1,2}
// (HetGen.tla / TraceHet.tla tables coincide there); the key is passed as lvalue or rvalue depending on the uid's parity.
//   W_KIND 1 HeterEventDispatcher | 2 HeterEventQueue
#include "common.h"
#include "fault.h"
#include <eventpp/hetereventdispatcher.h>
#include <eventpp/hetereventqueue.h>
#include <new>
#ifndef W_KIND
#define W_KIND 2
#endif
#ifndef W_THREADING
#define W_THREADING 1
#endif
#ifndef W_FILL
#define W_FILL 0xA5
#endif
using namespace vf;

static void evx(const char * e, int o, int a, int b, int r, int u)
{
	std::fprintf(g_out, "{\"e\":\"%s\",\"o\":%d,\"a\":%d,\"b\":%d,\"r\":%d,\"u\":%d,\"lv\":%ld,\"pv\":%ld}\n", e, o, a, b, r, u, g_live, g_livePayload);
}
struct TKey
{
	int k;
	TKey() : k(0) {}
	explicit TKey(int k) : k(k) {}
	TKey(const TKey & o) : k(o.k) {}
	TKey(TKey && o) : k(o.k) { o.k = 9; }                 // a moved-from key is recognisable
	TKey & operator = (const TKey & o) { k = o.k; return *this; }
	TKey & operator = (TKey && o) { k = o.k; if(&o != this) o.k = 9; return *this; }
	bool operator < (const TKey & o) const { return k < o.k; }
};
struct Tracked
{
	int id;
	explicit Tracked(int id) : id(id) { regAdd(this); ++g_live; }
	Tracked(const Tracked & o) : id(o.id) { regUse(&o); regAdd(this); ++g_live; }
	Tracked & operator = (const Tracked & o) { regUse(&o); regUse(this); id = o.id; return *this; }
	~Tracked() { regDel(this); --g_live; }
};
struct K1 : Tracked { explicit K1(int id) : Tracked(id) {} void operator() (TKey k) const { regUse(this); evx("en", 1, id, k.k == 1 ? 1 : 0, 0, 0); } };
struct K2 : Tracked { explicit K2(int id) : Tracked(id) {} void operator() (TKey k, int v) const { regUse(this); evx("en", 2, id, k.k == 1 ? 1 : 0, 0, v); } };

struct Pol
{
#if W_THREADING == 0
	using Threading = eventpp::SingleThreading;
#else
	using Threading = eventpp::MultipleThreading;
#endif
	using ArgumentPassingMode = eventpp::ArgumentPassingIncludeEvent;
};
typedef eventpp::HeterTuple<void (TKey), void (TKey, int)> PL;
#if W_KIND == 1
typedef eventpp::HeterEventDispatcher<TKey, PL, Pol> Obj;
#else
typedef eventpp::HeterEventQueue<TKey, PL, Pol> Obj;
#endif
typedef Obj::Handle Handle;

alignas(16) static unsigned char g_storage[sizeof(Obj) + 64];
static Obj * obj;
static std::vector<Handle> H;
static Script script;
static int g_uid;

static void add(const char * e, int how, int shape)
{
	int id = (int)H.size() + 1;
	Handle h;
	if(shape == 1) h = how == 0 ? obj->appendListener(TKey(1), K1(id)) : obj->prependListener(TKey(1), K1(id));
	else h = how == 0 ? obj->appendListener(TKey(1), K2(id)) : obj->prependListener(TKey(1), K2(id));
	H.push_back(h);
	evx(e, 0, shape, h.index + 1, id, 0);
}
static void invoke(int shape)
{
	int uid = ++g_uid;
	evx("ib", 0, shape, 0, 0, uid);
	if(shape == 1) { if(uid % 2) { TKey k(1); obj->dispatch(k); } else obj->dispatch(TKey(1)); }
	else { int v = uid; if(uid % 2) { TKey k(1); obj->dispatch(k, v); } else obj->dispatch(TKey(1), v); }
	evx("ie", 0, 0, 0, 0, uid);
}
#if W_KIND == 2
static void enqueue(int shape)
{
	int uid = ++g_uid;
	if(shape == 1) { if(uid % 2) { TKey k(1); obj->enqueue(k); } else obj->enqueue(TKey(1)); }
	else { int v = uid; if(uid % 2) { TKey k(1); obj->enqueue(k, v); } else obj->enqueue(TKey(1), v); }
	evx("nq", 0, shape, 0, 0, uid);
}
static void process(int mode)
{
	evx("pb", 0, mode, 0, 0, 0);
	bool r = mode == 1 ? obj->process() : obj->processOne();
	evx("pe", 0, mode, 0, r ? 1 : 0, 0);
}
#endif
static void step(const Op & op)
{
	const std::string & k = op.k;
	if(k == "al") add("al", 0, op.a);
	else if(k == "pl") add("pl", 1, op.a);
	else if(k == "rl") { bool r = obj->removeListener(TKey(1), (op.a >= 1 && op.a <= (int)H.size()) ? H[op.a - 1] : Handle()); evx("rl", 0, op.a, 0, r ? 1 : 0, 0); }
	else if(k == "iv") invoke(op.a);
#if W_KIND == 2
	else if(k == "nq") enqueue(op.a);
	else if(k == "pa") process(1);
	else if(k == "po") process(2);
#endif
	else { std::fprintf(stderr, "unknown op %s\n", k.c_str()); std::exit(2); }
}
static void epilogue()
{
	invoke(1); invoke(2);
#if W_KIND == 2
	process(2); process(1); process(1);
#endif
	for(int h = 1; h <= (int)H.size(); ++h) { bool r = obj->removeListener(TKey(1), H[h - 1]); evx("rl", 0, h, 0, r ? 1 : 0, 0); }
	invoke(1); invoke(2);
	obj->~Obj(); obj = 0;
	H.clear();
	std::fprintf(g_out, "{\"e\":\"rs\",\"o\":0,\"a\":0,\"b\":0,\"r\":0,\"u\":0,\"lv\":%ld,\"pv\":%ld,\"n\":%ld}\n", g_live, g_livePayload, g_script);
}
int main(int argc, char ** argv)
{
	if(argc < 2) return 2;
	g_out = std::fopen(argv[1], "w");
	if(! g_out) return 2;
	static char buf[1 << 20];
	std::setvbuf(g_out, buf, _IOFBF, sizeof(buf));
	std::set_terminate(onTerminate);
	H.reserve(64);
	std::string line;
	while(std::getline(std::cin, line)) {
		if(! parseScript(line, script)) continue;
		armWatchdog(60);
		std::memset(g_storage, W_FILL, sizeof(g_storage));
		obj = new (g_storage) Obj();
		g_uid = 0;
		for(const Op & op : script) step(op);
		epilogue();
		++g_script;
	}
	alarm(0);
	std::fclose(g_out);
	std::fprintf(stderr, "STATS {\"scripts\":%ld,\"nontrivial\":%ld}\n", g_script, g_script);
	return 0;
}
