// Script interpreter for the heterogeneous classes (C14): HeterCallbackList / HeterEventDispatcher / HeterEventQueue over the prototype list
//   <void(), void(int), void(const TS&), void(const Big&), void(int, const TS&)>
// with callbacks, argument lists and processIf predicates of several shapes (spec/HetGen.tla explains the shape tables; they are
// re-computed here with the library's own type traits and static_assert-ed).  Reads HetGen cover scripts, records NDJSON for TraceHet.tla.
//   W_KIND 0 HeterCallbackList | 1 HeterEventDispatcher | 2 HeterEventQueue        W_THREADING 0/1/2        W_FILL storage pattern
//   W_HFILTER 1 (W_KIND 1 only): Policies::Mixins = MixinList<MixinHeterFilter>, filters with scripted behaviour (only exactly typed argument lists
//   can be dispatched then: the filter list is looked up by the lvalue argument types)
#include "common.h"
#include "fault.h"
#include <eventpp/hetercallbacklist.h>
#include <eventpp/hetereventdispatcher.h>
#include <eventpp/hetereventqueue.h>
#include <eventpp/utilities/counterremover.h>
#include <eventpp/utilities/conditionalremover.h>
#include <eventpp/mixins/mixinheterfilter.h>
#include <string>
#include <new>

#ifndef W_KIND
#define W_KIND 2
#endif
#ifndef W_THREADING
#define W_THREADING 1
#endif
#ifndef W_FILL
#define W_FILL 0xA5
#endif
#ifndef W_HFILTER
#define W_HFILTER 0
#endif
using namespace vf;

static void evx(const char * e, int o, int a, int b, int r, int u)
{
	std::fprintf(g_out, "{\"e\":\"%s\",\"o\":%d,\"a\":%d,\"b\":%d,\"r\":%d,\"u\":%d,\"lv\":%ld,\"pv\":%ld}\n", e, o, a, b, r, u, g_live, g_livePayload);
}

// ---- payload types of different sizes, every construction / destruction counted, every read checked against the live-address registry
struct TS
{
	int v; std::string text;
	explicit TS(int v) : v(v), text("payload-text-that-does-not-fit-the-small-string-buffer-" + std::to_string(v)) { regAdd(this); ++g_livePayload; }
	TS(const TS & o) : v(o.v), text(o.text) { regUse(&o); regAdd(this); ++g_livePayload; }
	TS(TS && o) : v(o.v), text(std::move(o.text)) { regUse(&o); o.v = -1; regAdd(this); ++g_livePayload; }
	TS & operator = (const TS & o) { regUse(&o); regUse(this); v = o.v; text = o.text; return *this; }
	~TS() { regDel(this); --g_livePayload; }
	bool ok() const { regUse(this); return text == "payload-text-that-does-not-fit-the-small-string-buffer-" + std::to_string(v); }
};
struct Big
{
	int v; char pad[196]; int v2;
	explicit Big(int v) : v(v), v2(~v) { std::memset(pad, 0x5A, sizeof(pad)); regAdd(this); ++g_livePayload; }
	Big(const Big & o) : v(o.v), v2(o.v2) { regUse(&o); std::memcpy(pad, o.pad, sizeof(pad)); regAdd(this); ++g_livePayload; }
	Big & operator = (const Big & o) { regUse(&o); regUse(this); v = o.v; v2 = o.v2; return *this; }
	~Big() { regDel(this); --g_livePayload; }
	bool ok() const { regUse(this); return v2 == ~v && pad[0] == 0x5A && pad[195] == 0x5A; }
};

// ---- callbacks of several shapes
struct Tracked
{
	int id;
	explicit Tracked(int id) : id(id) { regAdd(this); ++g_live; }
	Tracked(const Tracked & o) : id(o.id) { regUse(&o); regAdd(this); ++g_live; }
	Tracked & operator = (const Tracked & o) { regUse(&o); regUse(this); id = o.id; return *this; }
	~Tracked() { regDel(this); --g_live; }
};
static void entered(const Tracked * cb, int proto, int value, bool ok) { regUse(cb); evx("en", proto, cb->id, ok ? 1 : 0, 0, value); }
struct K1 : Tracked { explicit K1(int id) : Tracked(id) {} void operator() () const { entered(this, 1, 0, true); } };
struct K2 : Tracked { explicit K2(int id) : Tracked(id) {} void operator() (int v) const { entered(this, 2, v, true); } };
struct K3 : Tracked { explicit K3(int id) : Tracked(id) {} void operator() (const TS & s) const { entered(this, 3, s.v, s.ok()); } };
struct K4 : Tracked { explicit K4(int id) : Tracked(id) {} void operator() (const Big & b) const { entered(this, 4, b.v, b.ok()); } };
struct K5 : Tracked { explicit K5(int id) : Tracked(id) {} void operator() (int v, const TS & s) const { entered(this, 5, v, s.ok() && s.v == v); } };
struct K6 : Tracked { explicit K6(int id) : Tracked(id) {}
	void operator() (int v) const { entered(this, 2, v, true); }
	void operator() (int v, const TS & s) const { entered(this, 5, v, s.ok() && s.v == v); } };
struct K7 : Tracked { explicit K7(int id) : Tracked(id) {}
	template <typename ...A> void operator() (A && ...) const { entered(this, sizeof...(A) == 0 ? 1 : 9, 0, true); } };

// a void(int) listener that enqueues one more (int) event every time it runs, at most three per script (HeterEventQueue only)
static int g_listenerEnq;
static void listenerEnqueue();
struct K8 : Tracked { explicit K8(int id) : Tracked(id) {} void operator() (int v) const { entered(this, 2, v, true); if(g_listenerEnq < 3) { ++g_listenerEnq; listenerEnqueue(); } } };

// a void(int) listener that throws every time it is called (C09 for the heterogeneous classes)
struct Boom {};
struct K9 : Tracked { explicit K9(int id) : Tracked(id) {} void operator() (int v) const { entered(this, 2, v, true); evx("xt", 2, id, 0, 0, v); throw Boom(); } };

// ---- predicates: verdict = "uid is odd"
static bool asked(int proto, int uid, bool ok) { evx("qb", proto, 0, ok ? 1 : 0, 0, uid); bool r = uid % 2 == 1; evx("qe", 0, 0, 0, r ? 1 : 0, 0); return r; }
struct S2 { bool operator() (int v) const { return asked(2, v, true); } };
struct S3 { bool operator() (const TS & s) const { return asked(3, s.v, s.ok()); } };
struct S4 { bool operator() (const Big & b) const { return asked(4, b.v, b.ok()); } };
struct S5 { bool operator() (int v, const TS & s) const { return asked(5, v, s.ok() && s.v == v); } };
struct S6 { bool operator() (int v) const { return asked(2, v, true); }
            bool operator() (int v, const TS & s) const { return asked(5, v, s.ok() && s.v == v); } };

// ---- filters of a heterogeneous dispatcher: behaviour 0 passes, 1 passes and adds 10 to an int argument of prototype 2, 2 rejects odd values
static bool onHFilter(int id, int behaviour, int proto, int value, int * mut)
{
	const bool verdict = ! (behaviour == 2 && value % 2 == 1);
	evx("fq", proto, id, behaviour, verdict ? 1 : 0, value);
	if(behaviour == 1 && mut && proto == 2) *mut += 10;
	return verdict;
}
struct F1 { int id, b; bool operator() () const { return onHFilter(id, b, 1, 0, 0); } };
struct F2 { int id, b; bool operator() (int & v) const { return onHFilter(id, b, 2, v, &v); } };
struct F3 { int id, b; bool operator() (const TS & s) const { return onHFilter(id, b, 3, s.ok() ? s.v : -1, 0); } };
struct F4 { int id, b; bool operator() (const Big & x) const { return onHFilter(id, b, 4, x.ok() ? x.v : -1, 0); } };
struct F5 { int id, b; bool operator() (int & v, const TS & s) const { return onHFilter(id, b, 5, (s.ok() && s.v == v) ? v : -1, 0); } };

struct Pol
{
#if W_HFILTER == 1
	using Mixins = eventpp::MixinList<eventpp::MixinHeterFilter>;
#endif
#if W_THREADING == 0
	using Threading = eventpp::SingleThreading;
#elif W_THREADING == 1
	using Threading = eventpp::MultipleThreading;
#elif W_THREADING == 3
	using Threading = eventpp::GeneralThreading<vf::TrackedMutex, vf::TrackedAtomic, vf::TrackedCondVar>;
#else
	using Threading = eventpp::GeneralThreading<eventpp::SpinLock>;
#endif
};
typedef eventpp::HeterTuple<void (), void (int), void (const TS &), void (const Big &), void (int, const TS &)> PL;
#if W_KIND == 0
typedef eventpp::HeterCallbackList<PL, Pol> Obj;
#elif W_KIND == 1
typedef eventpp::HeterEventDispatcher<int, PL, Pol> Obj;
#else
typedef eventpp::HeterEventQueue<int, PL, Pol> Obj;
#endif
typedef Obj::Handle Handle;

// the shape tables of HetGen.tla / TraceHet.tla, computed by the library's own traits
using eventpp::internal_::FindPrototypeByCallable;
using eventpp::internal_::FindPrototypeByArgs;
static_assert(FindPrototypeByCallable<PL, K1>::index == 0 && FindPrototypeByCallable<PL, K2>::index == 1 && FindPrototypeByCallable<PL, K3>::index == 2
	&& FindPrototypeByCallable<PL, K4>::index == 3 && FindPrototypeByCallable<PL, K5>::index == 4 && FindPrototypeByCallable<PL, K6>::index == 1
	&& FindPrototypeByCallable<PL, K7>::index == 0, "Binds table of HetGen.tla does not match the library");
static_assert(FindPrototypeByArgs<PL>::index == 0 && FindPrototypeByArgs<PL, int &>::index == 1 && FindPrototypeByArgs<PL, long &>::index == 1
	&& FindPrototypeByArgs<PL, const TS &>::index == 2 && FindPrototypeByArgs<PL, const Big &>::index == 3 && FindPrototypeByArgs<PL, int &, const TS &>::index == 4
	&& FindPrototypeByArgs<PL, char &>::index == 1 && FindPrototypeByArgs<PL, float &>::index == 1, "Accepts table of HetGen.tla does not match the library");

alignas(16) static unsigned char g_storage[sizeof(Obj) + 64];
static Obj * obj;
static std::vector<Handle> H;
static Script script;
static int g_uid;

template <typename C> static Handle addCb(int how, const C & cb, const Handle & before)
{
#if W_KIND == 0
	return how == 0 ? obj->append(cb) : how == 1 ? obj->prepend(cb) : obj->insert(cb, before);
#else
	return how == 0 ? obj->appendListener(1, cb) : how == 1 ? obj->prependListener(1, cb) : obj->insertListener(1, cb, before);
#endif
}
static Handle handleOf(int h) { return (h >= 1 && h <= (int)H.size()) ? H[h - 1] : Handle(); }
// CounterRemover / ConditionalRemover over the heterogeneous classes (C16): the helper is a temporary, gone right after the registration
template <typename C> static Handle addCtr(int how, const C & cb, const Handle & before, int count)
{
#if W_KIND == 0
	return how == 0 ? eventpp::counterRemover(*obj).append(cb, count) : how == 1 ? eventpp::counterRemover(*obj).prepend(cb, count)
		: eventpp::counterRemover(*obj).insert(cb, before, count);
#else
	return how == 0 ? eventpp::counterRemover(*obj).appendListener(1, cb, count) : how == 1 ? eventpp::counterRemover(*obj).prependListener(1, cb, count)
		: eventpp::counterRemover(*obj).insertListener(1, cb, before, count);
#endif
}
static void addCounter(const char * e, int how, int shape, int beforeNo, int count)
{
	int id = (int)H.size() + 1;
	Handle before = handleOf(beforeNo), h;
	switch(shape) {
	case 1: h = addCtr(how, K1(id), before, count); break;
	case 2: h = addCtr(how, K2(id), before, count); break;
	case 3: h = addCtr(how, K3(id), before, count); break;
	case 4: h = addCtr(how, K4(id), before, count); break;
	case 5: h = addCtr(how, K5(id), before, count); break;
	case 6: h = addCtr(how, K6(id), before, count); break;
	default: h = addCtr(how, K7(id), before, count); break;
	}
	H.push_back(h);
	evx(e, beforeNo, shape, h.index + 1, id, count);
}
// the condition holds at its second evaluation; every evaluation is recorded
struct CondSecond { int id; int asked; bool operator() () { evx("cq", 1, id, 1, 0, 0); return ++asked == 2; } };
static void addConditional(const char * e, int how, int beforeNo)
{
	int id = (int)H.size() + 1;
	Handle before = handleOf(beforeNo), h;
	CondSecond cond = { id, 0 };
#if W_KIND == 0
	h = how == 0 ? eventpp::conditionalRemover(*obj).append(K1(id), cond) : how == 1 ? eventpp::conditionalRemover(*obj).prepend(K1(id), cond)
		: eventpp::conditionalRemover(*obj).insert(K1(id), before, cond);
#else
	h = how == 0 ? eventpp::conditionalRemover(*obj).appendListener(1, K1(id), cond) : how == 1 ? eventpp::conditionalRemover(*obj).prependListener(1, K1(id), cond)
		: eventpp::conditionalRemover(*obj).insertListener(1, K1(id), before, cond);
#endif
	H.push_back(h);
	evx(e, beforeNo, 1, h.index + 1, id, 0);
}
static void add(const char * e, int how, int shape, int beforeNo)
{
	int id = (int)H.size() + 1;
	Handle before = handleOf(beforeNo), h;
	switch(shape) {
	case 1: h = addCb(how, K1(id), before); break;
	case 2: h = addCb(how, K2(id), before); break;
	case 3: h = addCb(how, K3(id), before); break;
	case 4: h = addCb(how, K4(id), before); break;
	case 5: h = addCb(how, K5(id), before); break;
	case 6: h = addCb(how, K6(id), before); break;
#if W_KIND == 2
	case 8: h = addCb(how, K8(id), before); break;
#endif
	case 9: h = addCb(how, K9(id), before); break;
	default: h = addCb(how, K7(id), before); break;
	}
	H.push_back(h);
	evx(e, beforeNo, shape, h.index + 1, id, 0);
}
template <typename ...A> static void call(A && ...a)
{
#if W_KIND == 0
	(*obj)(std::forward<A>(a)...);
#else
	obj->dispatch(1, std::forward<A>(a)...);
#endif
}
#if W_HFILTER == 1
static std::vector<Obj::FilterHandle> FH;
static void addFilter(int proto, int behaviour)
{
	int id = (int)FH.size() + 1;
	Obj::FilterHandle h;
	switch(proto) {
	case 1: h = obj->appendFilter(F1{ id, behaviour }); break;
	case 2: h = obj->appendFilter(F2{ id, behaviour }); break;
	case 3: h = obj->appendFilter(F3{ id, behaviour }); break;
	case 4: h = obj->appendFilter(F4{ id, behaviour }); break;
	default: h = obj->appendFilter(F5{ id, behaviour }); break;
	}
	FH.push_back(h);
	evx("af", 0, proto, h.index + 1, id, behaviour);
}
#endif
static void invoke(int shape)
{
	int uid = ++g_uid;
	evx("ib", 0, shape, 0, 0, uid);
	try {
	switch(shape) {
	case 1: call(); break;
	case 2: { int v = uid; call(v); } break;
#if W_HFILTER == 0
	case 3: { long v = uid; call(v); } break;
	case 7: { char c = (char)uid; call(c); } break;
	case 8: { float f = (float)uid; call(f); } break;
#endif
	case 4: { const TS s(uid); call(s); } break;
	case 5: { const Big b(uid); call(b); } break;
	case 6: { int v = uid; const TS s(uid); call(v, s); } break;
	default: std::fprintf(stderr, "argument shape %d cannot be dispatched in this world\n", shape); std::exit(2);
	}
	}
	catch(const Boom &) { evx("ix", 0, 0, 0, 0, uid); return; }
	evx("ie", 0, 0, 0, 0, uid);
}
#if W_KIND == 2
static void enqueue(int shape)
{
	int uid = ++g_uid;
	switch(shape) {
	case 1: obj->enqueue(1); break;
	case 2: { int v = uid; obj->enqueue(1, v); } break;
	case 3: { long v = uid; obj->enqueue(1, v); } break;
	case 4: if(uid % 2) { const TS s(uid); obj->enqueue(1, s); } else { obj->enqueue(1, TS(uid)); } break;
	case 5: { const Big b(uid); obj->enqueue(1, b); } break;
	case 6: { int v = uid; const TS s(uid); obj->enqueue(1, v, s); } break;
	case 8: { float f = (float)uid; obj->enqueue(1, f); } break;       // converts to the int of prototype 2; its own representation is another one
	default: { char c = (char)uid; obj->enqueue(1, c); } break;
	}
	evx("nq", 0, shape, 0, 0, uid);
}
static void listenerEnqueue() { enqueue(2); }
static void process(int mode, int shape)
{
	evx("pb", 0, mode, shape, 0, 0);
	bool r = false;
	try {
	if(mode == 1) r = obj->process();
	else if(mode == 2) r = obj->processOne();
	else switch(shape) {
		case 2: r = obj->processIf(S2()); break;
		case 3: r = obj->processIf(S3()); break;
		case 4: r = obj->processIf(S4()); break;
		case 5: r = obj->processIf(S5()); break;
		default: r = obj->processIf(S6()); break;
	}
	}
	catch(const Boom &) { evx("px", 0, mode, 0, 0, 0); return; }
	evx("pe", 0, mode, 0, r ? 1 : 0, 0);
}
#endif
#if W_KIND != 2
static void listenerEnqueue() {}
#endif
static bool removeHandle(int h)
{
#if W_KIND == 0
	return obj->remove(handleOf(h));
#else
	return obj->removeListener(1, handleOf(h));
#endif
}
static void step(const Op & op)
{
	const std::string & k = op.k;
	if(k == "al") add("al", 0, op.a, 0);
	else if(k == "pl") add("pl", 1, op.a, 0);
	else if(k == "il") add("il", 2, op.a, op.b);
	else if(k == "ac") addCounter("ac", 0, op.a, 0, op.b);
	else if(k == "pc") addCounter("pc", 1, op.a, 0, op.b);
	else if(k == "ic") addCounter("ic", 2, op.a % 10, op.a / 10, op.b);
	else if(k == "ak") addConditional("ak", 0, 0);
	else if(k == "qk") addConditional("qk", 1, 0);
	else if(k == "ik") addConditional("ik", 2, op.b);
	else if(k == "rl") { bool r = removeHandle(op.a); evx("rl", 0, op.a, 0, r ? 1 : 0, 0); }
	else if(k == "iv") invoke(op.a);
#if W_HFILTER == 1
	else if(k == "af") addFilter(op.a, op.b);
	else if(k == "rf") { bool r = (op.a >= 1 && op.a <= (int)FH.size()) ? obj->removeFilter(FH[op.a - 1]) : false; evx("rf", 0, op.a, 0, r ? 1 : 0, 0); }
#endif
#if W_KIND == 2
	else if(k == "nq") enqueue(op.a);
	else if(k == "pa") process(1, 0);
	else if(k == "po") process(2, 0);
	else if(k == "pi") process(3, op.a);
	else if(k == "eq") { bool r = obj->emptyQueue(); evx("eq", 0, 0, 0, r ? 1 : 0, 0); }
#endif
	else { std::fprintf(stderr, "unknown op %s\n", k.c_str()); std::exit(2); }
}
static void epilogue()
{
	static const int shapes[] = {1, 2, 4, 5, 6};
	for(int s : shapes) invoke(s);
#if W_KIND == 2
	process(3, 6);      // a generic predicate looks at whatever is still queued for the prototypes it is callable with (whatever type went into the slots)
	process(2, 0);
	process(1, 0);
	process(1, 0);
	{ bool r = obj->emptyQueue(); evx("eq", 0, 0, 0, r ? 1 : 0, 0); }
#endif
	for(int h = 1; h <= (int)H.size(); ++h) { bool r = removeHandle(h); evx("rl", 0, h, 0, r ? 1 : 0, 0); }
	for(int s : shapes) invoke(s);
	obj->~Obj(); obj = 0;
	H.clear();
#if W_HFILTER == 1
	FH.clear();
#endif
	std::fprintf(g_out, "{\"e\":\"rs\",\"o\":0,\"a\":0,\"b\":0,\"r\":0,\"u\":0,\"lv\":%ld,\"pv\":%ld,\"n\":%ld}\n", g_live, g_livePayload, g_script);
}

int main(int argc, char ** argv)
{
	if(argc < 2) { std::fprintf(stderr, "usage: het_interp <trace-out> < scripts\n"); return 2; }
	g_out = std::fopen(argv[1], "w");
	if(! g_out) return 2;
	static char buf[1 << 20];
	std::setvbuf(g_out, buf, _IOFBF, sizeof(buf));
	std::set_terminate(onTerminate);
	H.reserve(64);
	std::string line;
	long mixed = 0;
	while(std::getline(std::cin, line)) {
		if(! parseScript(line, script)) continue;
		armWatchdog(60);
		std::memset(g_storage, W_FILL, sizeof(g_storage));
		obj = new (g_storage) Obj();
		g_uid = 0; g_listenerEnq = 0;
		bool pi = false;
		for(const Op & op : script) { step(op); if(op.k == "pi" || op.k == "il") pi = true; }
		epilogue();
		if(pi) ++mixed;
		++g_script;
	}
	alarm(0);
	std::fclose(g_out);
	std::fprintf(stderr, "STATS {\"scripts\":%ld,\"nontrivial\":%ld}\n", g_script, mixed);
	return 0;
}
