// Fault injection for C09 (DESIGN.md 7/C09): the k-th "fault point" after arming throws.
// Fault points: every global operator new (std::bad_alloc) and every copy / move construction of a tracked user type
// (vf::Fault).  Include this header in exactly one translation unit (it replaces the global allocation functions).
#ifndef VERIF_FAULT_H
#define VERIF_FAULT_H
#include <new>
#include <cstdlib>
#include <exception>
#include "common.h"

namespace vf {
struct Fault : std::exception { const char * what() const noexcept override { return "injected fault"; } };
static long g_faultCountdown = 0;     // 0: not armed
static bool g_faultFired = false;
static long g_faultPointsSeen = 0;
static int g_faultKinds = 3;          // bit 0: allocations, bit 1: user-type copies
inline void armFault(long k, int kinds) { g_faultCountdown = k; g_faultFired = false; g_faultPointsSeen = 0; g_faultKinds = kinds; }
inline void disarmFault() { g_faultCountdown = 0; }
inline bool faultNow(int kind)
{
	if(g_faultCountdown <= 0 || ! (g_faultKinds & kind) || g_faultSuspend > 0) return false;
	++g_faultPointsSeen;
	if(--g_faultCountdown == 0) { g_faultFired = true; return true; }
	return false;
}
inline void copyFaultPoint() { if(faultNow(2)) throw Fault(); }
}

void * operator new(std::size_t n)
{
	if(vf::faultNow(1)) throw std::bad_alloc();
	void * p = std::malloc(n ? n : 1);
	if(! p) throw std::bad_alloc();
	return p;
}
void * operator new[](std::size_t n)
{
	if(vf::faultNow(1)) throw std::bad_alloc();
	void * p = std::malloc(n ? n : 1);
	if(! p) throw std::bad_alloc();
	return p;
}
void operator delete(void * p) noexcept { std::free(p); }
void operator delete[](void * p) noexcept { std::free(p); }
void operator delete(void * p, std::size_t) noexcept { std::free(p); }
void operator delete[](void * p, std::size_t) noexcept { std::free(p); }
#endif
