// Uncontrolled stress mode for CallbackList / EventDispatcher (C03): the SHIPPED threading policies (std::mutex or eventpp::SpinLock), real
// threads, real preemption, built with ThreadSanitizer.  Same scenario syntax and trace vocabulary as cc_run.cpp; records are written
// under one logger mutex, so their order in the file is a legal real-time order of the begin / end stamps (a begin is stamped before the
// call starts, an end after it returned: intervals are only widened, which only weakens what TraceCC.tla demands).
//   W_OBJ 0 CallbackList | 1 EventDispatcher (std::map) | 2 EventDispatcher (std::unordered_map)     W_MUTEX 0 std::mutex | 1 SpinLock
#include <eventpp/callbacklist.h>
#include <eventpp/eventdispatcher.h>
#include <atomic>
#include <cstdio>
#include <cstdlib>
#include <cstring>
#include <map>
#include <mutex>
#include <sstream>
#include <string>
#include <thread>
#include <vector>
#include <unordered_map>
#include "stress_watchdog.h"

#ifndef W_OBJ
#define W_OBJ 0
#endif
#ifndef W_MUTEX
#define W_MUTEX 0
#endif

struct Pol {
#if W_MUTEX == 0
	using Threading = eventpp::MultipleThreading;
#else
	using Threading = eventpp::GeneralThreading<eventpp::SpinLock>;
#endif
#if W_OBJ == 1
	template <typename K, typename V> using Map = std::map<K, V>;
#elif W_OBJ == 2
	template <typename K, typename V> using Map = std::unordered_map<K, V>;
#endif
};
#if W_OBJ == 0
typedef eventpp::CallbackList<void (int), Pol> Obj;
#else
typedef eventpp::EventDispatcher<int, void (int), Pol> Obj;
#endif
typedef Obj::Handle Handle;

static FILE * g_out;
static std::mutex g_logm;
static Obj * obj;
static int g_init = 0;
static long g_wrapDist = -1;      // "<k>w<d>:" = the generation counter is placed d additions before its wrap-around after the initial callbacks (CallbackList only)
static std::vector<std::vector<std::string> > g_prog;
static thread_local int t_self = 9;
static unsigned long long g_rng = 88172645463325252ULL;

#define LOG(...) do { std::lock_guard<std::mutex> lg(g_logm); std::fprintf(g_out, __VA_ARGS__); } while(0)
static void jitter(unsigned & s) { s = s * 1103515245u + 12345u; if((s >> 16) % 4 == 0) std::this_thread::yield(); }

struct Cb { int id; void operator() (int) const { if(t_self != 9) LOG("{\"e\":\"vi\",\"t\":%d,\"a\":%d}\n", t_self, id); } };
static int idOf(const Obj::Callback & cb) { const Cb * c = cb.target<Cb>(); return c ? c->id : -1; }

#if W_OBJ == 0
static Handle doAppend(int id) { return obj->append(Cb{id}); }
static Handle doPrepend(int id) { return obj->prepend(Cb{id}); }
static Handle doInsert(int id, const Handle & h) { return obj->insert(Cb{id}, h); }
static bool doRemove(const Handle & h) { return obj->remove(h); }
static bool doOwns(const Handle & h) { return obj->ownsHandle(h); }
static bool doEmpty() { return obj->empty(); }
static void doInvoke() { (*obj)(7); }
template <typename F> static void doForEach(F f) { obj->forEach(f); }
#else
static Handle doAppend(int id) { return obj->appendListener(1, Cb{id}); }
static Handle doPrepend(int id) { return obj->prependListener(1, Cb{id}); }
static Handle doInsert(int id, const Handle & h) { return obj->insertListener(1, Cb{id}, h); }
static bool doRemove(const Handle & h) { return obj->removeListener(1, h); }
static bool doOwns(const Handle & h) { return obj->ownsHandle(1, h); }
static bool doEmpty() { return ! obj->hasAnyListener(1); }
static void doInvoke() { obj->dispatch(1, 7); }
template <typename F> static void doForEach(F f) { obj->forEach(1, f); }
#endif

static bool parseScenario(const std::string & s)
{
	g_prog.clear();
	size_t c = s.find(':');
	if(c == std::string::npos) return false;
	g_init = std::atoi(s.substr(0, c).c_str());
	size_t w = s.substr(0, c).find('w');
	g_wrapDist = w == std::string::npos ? -1 : std::atol(s.substr(w + 1, c - w - 1).c_str());
	std::stringstream ss(s.substr(c + 1)); std::string th;
	while(std::getline(ss, th, '|')) {
		std::vector<std::string> ops; std::stringstream st(th); std::string op;
		while(std::getline(st, op, ',')) if(! op.empty()) ops.push_back(op);
		g_prog.push_back(ops);
	}
	return ! g_prog.empty() && g_prog.size() <= 4;
}

static void execute(long execNo, unsigned seed)
{
	const int n = (int)g_prog.size();
	obj = new Obj();
	// handles: the initial ones are shared read-only; each thread keeps its own additions
	std::vector<Handle> initial(g_init + 1);
	for(int i = 1; i <= g_init; ++i) { initial[i] = doAppend(i); std::fprintf(g_out, "{\"e\":\"in\",\"a\":%d}\n", i); }
#if W_OBJ == 0
	if(g_wrapDist >= 0) obj->verifSetCurrentCounter(0xffffffffu - (unsigned)g_wrapDist);
#else
	if(g_wrapDist >= 0) { std::fprintf(stderr, "counter placement needs the plain CallbackList\n"); std::exit(2); }
#endif
	std::fprintf(g_out, "{\"e\":\"go\"}\n");
	std::atomic<int> ready(0);
	std::vector<std::thread> threads;
	for(int t = 0; t < n; ++t) {
		threads.emplace_back([t, n, seed, &ready, &initial]() {
			t_self = t;
			unsigned s = seed * 7919u + (unsigned)t * 104729u;
			std::map<int, Handle> mine;
			auto handleOf = [&](int id) -> Handle { if(id >= 1 && id < (int)initial.size()) return initial[id]; auto it = mine.find(id); return it == mine.end() ? Handle() : it->second; };
			++ready; while(ready.load() < n) {}
			int idx = 0;
			for(const std::string & op : g_prog[t]) {
				const char k = op[0];
				const int arg = op.size() > 1 ? std::atoi(op.c_str() + 1) : 0;
				const int id = (t + 1) * 10 + idx++;
				jitter(s);
				if(k == 'a') { LOG("{\"e\":\"b\",\"t\":%d,\"op\":\"a\",\"a\":0,\"n\":%d}\n", t, id); mine[id] = doAppend(id); LOG("{\"e\":\"e\",\"t\":%d,\"op\":\"a\",\"a\":0,\"r\":%d}\n", t, id); }
				else if(k == 'p') { LOG("{\"e\":\"b\",\"t\":%d,\"op\":\"p\",\"a\":0,\"n\":%d}\n", t, id); mine[id] = doPrepend(id); LOG("{\"e\":\"e\",\"t\":%d,\"op\":\"p\",\"a\":0,\"r\":%d}\n", t, id); }
				else if(k == 'i') { LOG("{\"e\":\"b\",\"t\":%d,\"op\":\"i\",\"a\":%d,\"n\":%d}\n", t, arg, id); mine[id] = doInsert(id, handleOf(arg)); LOG("{\"e\":\"e\",\"t\":%d,\"op\":\"i\",\"a\":%d,\"r\":%d}\n", t, arg, id); }
				else if(k == 'r') { LOG("{\"e\":\"b\",\"t\":%d,\"op\":\"r\",\"a\":%d,\"n\":0}\n", t, arg); bool r = doRemove(handleOf(arg)); LOG("{\"e\":\"e\",\"t\":%d,\"op\":\"r\",\"a\":%d,\"r\":%d}\n", t, arg, r ? 1 : 0); }
				else if(k == 'o') { LOG("{\"e\":\"b\",\"t\":%d,\"op\":\"o\",\"a\":%d,\"n\":0}\n", t, arg); bool r = doOwns(handleOf(arg)); LOG("{\"e\":\"e\",\"t\":%d,\"op\":\"o\",\"a\":%d,\"r\":%d}\n", t, arg, r ? 1 : 0); }
				else if(k == 'e') { LOG("{\"e\":\"b\",\"t\":%d,\"op\":\"e\",\"a\":0,\"n\":0}\n", t); bool r = doEmpty(); LOG("{\"e\":\"e\",\"t\":%d,\"op\":\"e\",\"a\":0,\"r\":%d}\n", t, r ? 1 : 0); }
				else if(k == 'v') { LOG("{\"e\":\"b\",\"t\":%d,\"op\":\"v\",\"a\":0,\"n\":0}\n", t); doInvoke(); LOG("{\"e\":\"e\",\"t\":%d,\"op\":\"v\",\"a\":0,\"r\":0}\n", t); }
				else if(k == 'f') {
					LOG("{\"e\":\"b\",\"t\":%d,\"op\":\"f\",\"a\":0,\"n\":0}\n", t);
					doForEach([t](const Handle &, const Obj::Callback & cb) { LOG("{\"e\":\"vi\",\"t\":%d,\"a\":%d}\n", t, idOf(cb)); });
					LOG("{\"e\":\"e\",\"t\":%d,\"op\":\"f\",\"a\":0,\"r\":0}\n", t);
				}
			}
			LOG("{\"e\":\"fin\",\"t\":%d}\n", t);
		});
	}
	for(auto & th : threads) th.join();
	std::string fin;
	doForEach([&fin](const Handle &, const Obj::Callback & cb) { if(! fin.empty()) fin += ','; fin += std::to_string(idOf(cb)); });
	std::fprintf(g_out, "{\"e\":\"fl\",\"s\":[%s]}\n", fin.c_str());
	delete obj; obj = 0;
	std::fprintf(g_out, "{\"e\":\"rs\",\"a\":0,\"n\":%ld,\"s\":\"\"}\n", execNo);
}

int main(int argc, char ** argv)
{
	// usage: cc_stress <out> <scenario> stress <seed> <count>
	if(argc < 6) return 2;
	g_out = std::fopen(argv[1], "w");
	if(! g_out || ! parseScenario(argv[2])) return 2;
	unsigned seed = (unsigned)std::strtoul(argv[4], 0, 10);
	long n = std::atol(argv[5]);
	(void)g_rng;
	startStressWatchdog(g_out);
	for(long i = 0; i < n; ++i) { execute(i, seed + (unsigned)i); ++g_stressProgress; }
	std::fclose(g_out);
	std::fprintf(stderr, "STATS {\"executions\":%ld,\"stuck\":0,\"exhausted\":0}\n", n);
	return 0;
}
